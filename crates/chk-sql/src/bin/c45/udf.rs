//! C45 part `scalar`: ScalarUDF → FFI_ScalarUDF (foreign marker) → ForeignScalarUDF vs the original.
#![allow(dead_code)]

use std::sync::Arc;

use arrow::array::{Array, ArrayRef};
use arrow::datatypes::{DataType, FieldRef};
use datafusion::common::ScalarValue;
use datafusion::logical_expr::sort_properties::{ExprProperties, SortProperties};
use datafusion::logical_expr::type_coercion::functions::fields_with_udf;
use datafusion::logical_expr::{ColumnarValue, ExpressionPlacement, ReturnFieldArgs, ScalarUDF, ScalarUDFImpl};
use datafusion_ffi::udf::{FFI_ScalarUDF, ForeignScalarUDF};

use super::engine::{self, Out, Plan, invoke, take1};
use super::hooks;
use super::menu;

/// Detection demo (C45_DEMO=1): planted wiring defects on the harness side of the FFI struct.
pub fn demo() -> bool {
    std::env::var("C45_DEMO").map(|v| v == "1").unwrap_or(false)
}

pub fn foreign(udf: &Arc<ScalarUDF>) -> Result<ScalarUDF, String> {
    let mut ffi: FFI_ScalarUDF = Arc::clone(udf).into();
    if demo() && udf.name() == "btrim" {
        // as if invoke_with_args were wired to the wrong implementation
        let other = datafusion::functions::string::ltrim();
        let mut wrong: FFI_ScalarUDF = other.into();
        std::mem::swap(&mut ffi.private_data, &mut wrong.private_data);
        drop(wrong);
    }
    if demo() && udf.name() == "abs" {
        ffi.short_circuits = !ffi.short_circuits;
    }
    ffi.library_marker_id = hooks::foreign_marker;
    let imp: Arc<dyn ScalarUDFImpl> = ffi.into();
    if !imp.is::<ForeignScalarUDF>() {
        return Err("machinery: the wrapped scalar function was not put on the foreign path".into());
    }
    Ok(ScalarUDF::new_from_shared_impl(imp))
}

#[derive(Clone, Debug)]
pub struct Finding {
    pub symptom: &'static str,
    pub mode: String,
    pub row: Option<usize>,
    pub what: String,
}

fn field_text(f: &FieldRef) -> String {
    format!("{}: {} nullable={} metadata={:?}", f.name(), f.data_type(), f.is_nullable(), {
        let mut m: Vec<_> = f.metadata().iter().collect();
        m.sort();
        m
    })
}

/// Attributes that do not depend on argument values.
pub fn compare_declared(native: &ScalarUDF, foreign: &ScalarUDF, lists: &[Vec<DataType>], counters: &mut u64) -> Vec<Finding> {
    let mut out = vec![];
    let mut push = |symptom: &'static str, what: String| out.push(Finding { symptom, mode: "declared".into(), row: None, what });
    if native.name() != foreign.name() {
        push("name-differs", format!("name: native {:?}, foreign {:?}", native.name(), foreign.name()));
    }
    if native.aliases() != foreign.aliases() {
        push("aliases-differ", format!("aliases: native {:?}, foreign {:?}", native.aliases(), foreign.aliases()));
    }
    if native.signature().volatility != foreign.signature().volatility {
        push("volatility-differs", format!("volatility: native {:?}, foreign {:?}", native.signature().volatility, foreign.signature().volatility));
    }
    if native.short_circuits() != foreign.short_circuits() {
        push("short-circuits-differs", format!("short_circuits: native {}, foreign {}", native.short_circuits(), foreign.short_circuits()));
    }
    // coercion behaviour (the foreign Signature is user-defined by design; what must agree is what it accepts and coerces to)
    let mut probe: Vec<Vec<DataType>> = vec![vec![]];
    let alpha = menu::probe_alphabet();
    for a in &alpha {
        probe.push(vec![a.clone()]);
    }
    for a in &alpha[..8] {
        for b in &alpha[..8] {
            probe.push(vec![a.clone(), b.clone()]);
        }
    }
    probe.extend(lists.iter().cloned());
    for t in &probe {
        let fields: Vec<FieldRef> = t.iter().enumerate().map(|(i, d)| engine::field(i, d)).collect();
        let n = mc_core::catch(|| fields_with_udf(&fields, native)).map_err(|p| p).and_then(|r| r.map_err(|e| e.to_string()));
        let f = mc_core::catch(|| fields_with_udf(&fields, foreign)).map_err(|p| p).and_then(|r| r.map_err(|e| e.to_string()));
        *counters += 2;
        let show = |t: &[DataType]| t.iter().map(|x| x.to_string()).collect::<Vec<_>>().join(", ");
        match (&n, &f) {
            (Ok(a), Ok(b)) => {
                let (ta, tb): (Vec<DataType>, Vec<DataType>) = (a.iter().map(|x| x.data_type().clone()).collect(), b.iter().map(|x| x.data_type().clone()).collect());
                if ta != tb {
                    push("coercion-differs", format!("coercion of ({}): native ({}), foreign ({})", show(t), show(&ta), show(&tb)));
                }
            }
            (Err(_), Err(_)) => {}
            (Ok(a), Err(e)) => push(
                "coercion-fails-only-foreign",
                format!("coercion of ({}): native accepts as ({}), foreign fails: {}", show(t), show(&a.iter().map(|x| x.data_type().clone()).collect::<Vec<_>>()), e.chars().take(200).collect::<String>()),
            ),
            (Err(e), Ok(b)) => push(
                "coercion-fails-only-native",
                format!("coercion of ({}): native fails ({}), foreign accepts as ({})", show(t), e.chars().take(200).collect::<String>(), show(&b.iter().map(|x| x.data_type().clone()).collect::<Vec<_>>())),
            ),
        }
    }
    // placement
    let places = [ExpressionPlacement::Literal, ExpressionPlacement::Column, ExpressionPlacement::MoveTowardsLeafNodes, ExpressionPlacement::KeepInPlace];
    let mut combos: Vec<Vec<ExpressionPlacement>> = vec![vec![]];
    for a in places {
        combos.push(vec![a]);
        for b in places {
            combos.push(vec![a, b]);
        }
    }
    for c in combos {
        let n = mc_core::catch(|| native.placement(&c));
        let f = mc_core::catch(|| foreign.placement(&c));
        *counters += 2;
        if format!("{n:?}") != format!("{f:?}") {
            push("placement-differs", format!("placement({c:?}): native {n:?}, foreign {f:?}"));
        }
    }
    // preserves_lex_ordering
    for sp in [SortProperties::Unordered, SortProperties::Singleton, SortProperties::Ordered(arrow::compute::SortOptions { descending: false, nulls_first: true })] {
        for arity in 1..=2usize {
            let inputs: Vec<ExprProperties> = (0..arity).map(|_| ExprProperties::new_unknown().with_order(sp)).collect();
            let n = mc_core::catch(|| native.preserves_lex_ordering(&inputs).map_err(|e| e.to_string()));
            let f = mc_core::catch(|| foreign.preserves_lex_ordering(&inputs).map_err(|e| e.to_string()));
            *counters += 2;
            let same = match (&n, &f) {
                (Ok(Ok(a)), Ok(Ok(b))) => a == b,
                (Ok(Ok(_)), _) | (_, Ok(Ok(_))) => false,
                _ => true,
            };
            if !same {
                push("preserves-lex-ordering-differs", format!("preserves_lex_ordering({sp:?} x{arity}): native {n:?}, foreign {f:?}"));
            }
        }
    }
    out
}

fn out_text(o: &Out) -> String {
    match o {
        Out::Ok(a, f) => format!("Ok({} rows of {}; field {})", a.len(), a.data_type(), field_text(f)),
        Out::Fail(e) => format!("Fail({})", e.chars().take(240).collect::<String>()),
        Out::Defect(s, w) => format!("Defect({s}: {w})"),
    }
}

fn first_diff(a: &ArrayRef, b: &ArrayRef) -> Option<usize> {
    if a.len() != b.len() {
        return Some(a.len().min(b.len()));
    }
    (0..a.len()).find(|i| a.slice(*i, 1).to_data() != b.slice(*i, 1).to_data())
}

pub struct GridStats {
    pub invocations: u64,
    pub both_ok: u64,
    pub both_fail: u64,
    pub nonnull_rows: u64,
}

/// Vary argument `vary` over its menu (others at default); compare native and foreign in the modes
/// `batch` (arrays), `const` (every argument a constant, one call per row), `scalar:others` (the
/// varied argument an array, the others constants).
pub fn compare_grid(native: &ScalarUDF, foreign: &ScalarUDF, plan: &Plan, vary: usize, rows_filter: Option<&[usize]>, mode_filter: Option<&str>) -> (Vec<Finding>, GridStats) {
    let cfg = engine::cfg();
    let nargs = plan.types.len();
    let mut st = GridStats { invocations: 0, both_ok: 0, both_fail: 0, nonnull_rows: 0 };
    let mut findings: Vec<Finding> = vec![];
    let mut rows: Vec<Vec<usize>> = vec![];
    if nargs == 0 {
        rows.push(vec![]);
    } else {
        for a in 0..plan.menus[vary].len() {
            let mut r = plan.defaults.clone();
            r[vary] = a;
            rows.push(r);
        }
    }
    if let Some(keep) = rows_filter {
        rows = keep.iter().filter_map(|k| rows.get(*k).cloned()).collect();
    }
    let want = |m: &str| mode_filter.map(|f| f == m).unwrap_or(true);
    let mut check = |mode: &str, row: Option<usize>, args: &[ColumnarValue], n: usize, findings: &mut Vec<Finding>, st: &mut GridStats| {
        let a = invoke(native, args, n, &cfg);
        if matches!(&a, Out::Fail(e) if e.starts_with("panic:")) {
            // a panic inside a function called through the FFI cannot unwind and would abort the process
            engine::NATIVE_PANICS_SKIPPED.fetch_add(1, std::sync::atomic::Ordering::Relaxed);
            return;
        }
        let b = invoke(foreign, args, n, &cfg);
        st.invocations += 2;
        let bad = match (&a, &b) {
            (Out::Ok(x, fx), Out::Ok(y, fy)) => {
                st.both_ok += 1;
                st.nonnull_rows += (x.len() - x.null_count()) as u64;
                if x.data_type() != y.data_type() {
                    Some(("result-type-differs", format!("native {}, foreign {}", x.data_type(), y.data_type())))
                } else if let Some(i) = first_diff(x, y) {
                    let v = |arr: &ArrayRef| if i < arr.len() { ScalarValue::try_from_array(arr, i).map(|s| format!("{s:?}")).unwrap_or_default() } else { "<missing>".into() };
                    Some(("value-differs", format!("output row {i}: native {}, foreign {}", v(x), v(y))))
                } else if field_text(fx) != field_text(fy) {
                    Some(("return-field-differs", format!("native {}, foreign {}", field_text(fx), field_text(fy))))
                } else {
                    None
                }
            }
            (Out::Fail(_), Out::Fail(_)) => {
                st.both_fail += 1;
                None
            }
            (Out::Defect(s1, _), Out::Defect(s2, _)) if s1 == s2 => None,
            (Out::Ok(..), Out::Fail(_)) => Some(("fails-only-foreign", format!("native {}, foreign {}", out_text(&a), out_text(&b)))),
            (Out::Fail(_), Out::Ok(..)) => Some(("fails-only-native", format!("native {}, foreign {}", out_text(&a), out_text(&b)))),
            _ => Some(("outcome-differs", format!("native {}, foreign {}", out_text(&a), out_text(&b)))),
        };
        if let Some((sym, what)) = bad {
            if !findings.iter().any(|f| f.symptom == sym && f.mode == mode) {
                let argtxt: Vec<String> = args
                    .iter()
                    .map(|c| match c {
                        ColumnarValue::Scalar(s) => format!("const {s:?}"),
                        ColumnarValue::Array(a) => format!("array[{}] of {}", a.len(), a.data_type()),
                    })
                    .collect();
                findings.push(Finding { symptom: sym, mode: mode.to_string(), row, what: format!("{mode} ({}): {what}", argtxt.join(", ")) });
            }
        }
    };
    let all: Vec<usize> = (0..rows.len()).collect();
    let col = |arg: usize, rs: &[usize]| -> ArrayRef {
        let idx: Vec<usize> = rs.iter().map(|r| rows[*r][arg]).collect();
        take1(&plan.menus[arg], &idx)
    };
    let scalar = |arg: usize, r: usize| ScalarValue::try_from_array(&plan.menus[arg], rows[r][arg]).ok();
    if want("batch") {
        let args: Vec<ColumnarValue> = (0..nargs).map(|a| ColumnarValue::Array(col(a, &all))).collect();
        check("batch", None, &args, rows.len(), &mut findings, &mut st);
    }
    if want("const") && nargs > 0 {
        for r in 0..rows.len() {
            let Some(args) = (0..nargs).map(|a| scalar(a, r).map(ColumnarValue::Scalar)).collect::<Option<Vec<_>>>() else { continue };
            check("const", Some(r), &args, 1, &mut findings, &mut st);
        }
    }
    if want("scalar:others") && nargs > 1 {
        let Some(args) = (0..nargs).map(|a| if a == vary { Some(ColumnarValue::Array(col(a, &all))) } else { scalar(a, 0).map(ColumnarValue::Scalar) }).collect::<Option<Vec<_>>>() else {
            return (findings, st);
        };
        check("scalar:others", None, &args, rows.len(), &mut findings, &mut st);
    }
    // return_field_from_args alone, with and without constants
    if want("return-field") && nargs > 0 {
        let fields: Vec<FieldRef> = plan.types.iter().enumerate().map(|(i, t)| engine::field(i, t)).collect();
        let mut variants: Vec<Vec<Option<ScalarValue>>> = vec![vec![None; nargs]];
        for r in 0..rows.len() {
            variants.push((0..nargs).map(|a| scalar(a, r)).collect());
        }
        for v in variants {
            let refs: Vec<Option<&ScalarValue>> = v.iter().map(|x| x.as_ref()).collect();
            let n = engine::catch_native(|| native.return_field_from_args(ReturnFieldArgs { arg_fields: &fields, scalar_arguments: &refs }).map_err(|e| e.to_string()));
            let f = engine::catch_foreign(|| foreign.return_field_from_args(ReturnFieldArgs { arg_fields: &fields, scalar_arguments: &refs }).map_err(|e| e.to_string()));
            st.invocations += 2;
            let bad = match (&n, &f) {
                (Ok(Ok(a)), Ok(Ok(b))) => {
                    if field_text(a) != field_text(b) {
                        Some(("return-field-differs", format!("native {}, foreign {}", field_text(a), field_text(b))))
                    } else {
                        None
                    }
                }
                (Ok(Ok(a)), other) => Some(("return-field-fails-only-foreign", format!("native {}, foreign {:?}", field_text(a), other))),
                (other, Ok(Ok(b))) => Some(("return-field-fails-only-native", format!("native {:?}, foreign {}", other, field_text(b)))),
                _ => None,
            };
            if let Some((sym, what)) = bad {
                if !findings.iter().any(|x| x.symptom == sym && x.mode == "return-field") {
                    findings.push(Finding { symptom: sym, mode: "return-field".into(), row: None, what: format!("return_field_from_args with constants {:?}: {what}", v) });
                }
            }
        }
    }
    (findings, st)
}
