//! C45 part `window`: WindowUDF → FFI_WindowUDF (foreign marker, evaluator hook) → ForeignWindowUDF vs the original.
#![allow(dead_code)]

use std::ops::Range;
use std::sync::Arc;

use arrow::array::{Array, ArrayRef};
use arrow::datatypes::{DataType, Field, FieldRef};
use datafusion::common::ScalarValue;
use datafusion::logical_expr::function::{PartitionEvaluatorArgs, WindowUDFFieldArgs};
use datafusion::logical_expr::type_coercion::functions::fields_with_udf;
use datafusion::logical_expr::{PartitionEvaluator, WindowUDF, WindowUDFImpl};
use datafusion::physical_expr::PhysicalExpr;
use datafusion::physical_expr::expressions::{Column, Literal};
use datafusion_ffi::udwf::{FFI_WindowUDF, ForeignWindowUDF};
use serde::{Deserialize, Serialize};

use super::engine::{self, take1};
use super::hooks;
use super::menu;

pub fn foreign(u: &Arc<WindowUDF>) -> Result<WindowUDF, String> {
    let mut ffi: FFI_WindowUDF = Arc::clone(u).into();
    hooks::force_window(&mut ffi);
    let imp: Arc<dyn WindowUDFImpl> = (&ffi).into();
    if !imp.is::<ForeignWindowUDF>() {
        return Err("machinery: the wrapped window function was not put on the foreign path".into());
    }
    Ok(WindowUDF::new_from_shared_impl(imp))
}

pub fn registry() -> Vec<Arc<WindowUDF>> {
    let mut v = datafusion::execution::SessionStateDefaults::default_window_functions();
    v.sort_by(|a, b| a.name().cmp(b.name()));
    v.dedup_by(|a, b| a.name() == b.name());
    v
}

/// Argument type lists: the empty list (ranking functions) plus coerced probe lists.
pub fn type_lists(u: &WindowUDF, cap: usize) -> Vec<Vec<DataType>> {
    let mut v: Vec<Vec<DataType>> = vec![];
    let none: Vec<FieldRef> = vec![];
    if matches!(mc_core::catch(|| fields_with_udf(&none, u)), Ok(Ok(_))) {
        v.push(vec![]);
    }
    let (l, _) = engine::type_lists_with(u, cap, 3, &|coerced: &[FieldRef]| matches!(mc_core::catch(|| u.field(WindowUDFFieldArgs::new(coerced, "w"))), Ok(Ok(_))));
    v.extend(l);
    v.truncate(cap);
    v
}

#[derive(Serialize, Deserialize, Clone, Debug, PartialEq)]
pub struct Config {
    pub is_reversed: bool,
    pub ignore_nulls: bool,
    /// arguments after the first are literals (menu index) instead of columns
    pub literal_tail: Option<usize>,
}

pub fn configs(nargs: usize) -> Vec<Config> {
    let mut v = vec![];
    let tails: Vec<Option<usize>> = if nargs >= 2 { vec![Some(2), Some(4), None] } else if nargs == 1 { vec![None, Some(2)] } else { vec![None] };
    for t in tails {
        for (r, i) in [(false, false), (true, false), (false, true)] {
            v.push(Config { is_reversed: r, ignore_nulls: i, literal_tail: t });
        }
    }
    v
}

#[derive(Clone, Debug)]
pub struct Finding {
    pub symptom: String,
    pub what: String,
}

fn field_text(f: &FieldRef) -> String {
    let mut m: Vec<_> = f.metadata().iter().collect();
    m.sort();
    format!("{}: {} nullable={} metadata={:?}", f.name(), f.data_type(), f.is_nullable(), m)
}

fn res_text<T>(r: &Result<datafusion::common::Result<T>, String>, show: &dyn Fn(&T) -> String) -> String {
    match r {
        Ok(Ok(v)) => format!("Ok({})", show(v)),
        Ok(Err(e)) => format!("Err({})", e.to_string().chars().take(200).collect::<String>()),
        Err(p) => format!("Panic({})", p.chars().take(200).collect::<String>()),
    }
}

fn cmp<T>(
    findings: &mut Vec<Finding>,
    what: &str,
    detail: &str,
    n: Result<datafusion::common::Result<T>, String>,
    f: Result<datafusion::common::Result<T>, String>,
    eq: impl Fn(&T, &T) -> bool,
    show: &dyn Fn(&T) -> String,
) -> Option<(T, T)> {
    let sym = match (&n, &f) {
        (Ok(Ok(a)), Ok(Ok(b))) => {
            if eq(a, b) {
                None
            } else {
                Some("differs")
            }
        }
        (Ok(Ok(_)), _) => Some("fails-only-foreign"),
        (_, Ok(Ok(_))) => Some("fails-only-native"),
        _ => None,
    };
    if let Some(s) = sym {
        let symptom = format!("{what}-{s}");
        if !findings.iter().any(|x| x.symptom == symptom) {
            findings.push(Finding { symptom, what: format!("{what}{detail}: native {}, foreign {}", res_text(&n, show), res_text(&f, show)) });
        }
        return None;
    }
    match (n, f) {
        (Ok(Ok(a)), Ok(Ok(b))) => Some((a, b)),
        _ => None,
    }
}

fn arrays_eq(a: &ArrayRef, b: &ArrayRef) -> bool {
    a.data_type() == b.data_type() && a.to_data() == b.to_data()
}
fn arrays_text(a: &ArrayRef) -> String {
    format!("{}: {}", a.data_type(), format!("{a:?}").chars().take(200).collect::<String>().replace('\n', " "))
}

pub fn compare_declared(native: &WindowUDF, foreign: &WindowUDF, lists: &[Vec<DataType>], ops: &mut u64) -> Vec<Finding> {
    let mut out: Vec<Finding> = vec![];
    if native.name() != foreign.name() {
        out.push(Finding { symptom: "name-differs".into(), what: format!("name: native {:?}, foreign {:?}", native.name(), foreign.name()) });
    }
    if native.aliases() != foreign.aliases() {
        out.push(Finding { symptom: "aliases-differ".into(), what: format!("aliases: native {:?}, foreign {:?}", native.aliases(), foreign.aliases()) });
    }
    if native.signature().volatility != foreign.signature().volatility {
        out.push(Finding { symptom: "volatility-differs".into(), what: format!("volatility: native {:?}, foreign {:?}", native.signature().volatility, foreign.signature().volatility) });
    }
    if native.sort_options() != foreign.sort_options() {
        out.push(Finding { symptom: "sort-options-differ".into(), what: format!("sort_options: native {:?}, foreign {:?}", native.sort_options(), foreign.sort_options()) });
    }
    let mut probe: Vec<Vec<DataType>> = vec![vec![]];
    let alpha = menu::probe_alphabet();
    for a in &alpha {
        probe.push(vec![a.clone()]);
    }
    for a in &alpha[..6] {
        for b in &alpha[..6] {
            probe.push(vec![a.clone(), b.clone()]);
        }
    }
    probe.extend(lists.iter().cloned());
    let show = |t: &[DataType]| t.iter().map(|x| x.to_string()).collect::<Vec<_>>().join(", ");
    for t in &probe {
        let fields: Vec<FieldRef> = t.iter().enumerate().map(|(i, d)| engine::field(i, d)).collect();
        *ops += 2;
        let types = |v: &Vec<FieldRef>| v.iter().map(|x| x.data_type().clone()).collect::<Vec<_>>();
        cmp(
            &mut out,
            "coercion",
            &format!(" of ({})", show(t)),
            engine::catch_native(|| fields_with_udf(&fields, native)),
            engine::catch_foreign(|| fields_with_udf(&fields, foreign)),
            |a, b| types(a) == types(b),
            &|a| show(&types(a)),
        );
        // the declared output field for these (coerced or not) inputs
        *ops += 2;
        cmp(
            &mut out,
            "field",
            &format!(" for ({})", show(t)),
            engine::catch_native(|| native.field(WindowUDFFieldArgs::new(&fields, "w"))),
            engine::catch_foreign(|| foreign.field(WindowUDFFieldArgs::new(&fields, "w"))),
            |a, b| field_text(a) == field_text(b),
            &|a| field_text(a),
        );
    }
    out
}

pub struct Setup {
    pub types: Vec<DataType>,
    pub menus: Vec<ArrayRef>,
    pub fields: Vec<FieldRef>,
}

pub fn setup(types: &[DataType]) -> Option<Setup> {
    let menus: Vec<ArrayRef> = types.iter().map(|t| menu::menu_array(t, &[])).collect::<Option<Vec<_>>>()?;
    let fields: Vec<FieldRef> = types.iter().enumerate().map(|(i, t)| Arc::new(Field::new(format!("c{i}"), t.clone(), true))).collect();
    Some(Setup { types: types.to_vec(), menus, fields })
}

fn exprs(s: &Setup, c: &Config) -> Option<Vec<Arc<dyn PhysicalExpr>>> {
    let mut v: Vec<Arc<dyn PhysicalExpr>> = vec![];
    for (i, f) in s.fields.iter().enumerate() {
        match c.literal_tail {
            // arguments after the first are literals; so is the only argument of a 1-argument function (ntile(n))
            Some(idx) if i > 0 || s.fields.len() == 1 => {
                let m = &s.menus[i];
                v.push(Arc::new(Literal::new(ScalarValue::try_from_array(m, idx.min(m.len() - 1)).ok()?)));
            }
            _ => v.push(Arc::new(Column::new(f.name(), i))),
        }
    }
    Some(v)
}

pub struct PartStats {
    pub ops: u64,
    pub ok_results: u64,
    pub nonnull_results: u64,
    pub foreign_evaluators: u64,
}

/// All ways to cut 0..n into consecutive non-empty runs (rank groups).
fn run_partitions(n: usize) -> Vec<Vec<Range<usize>>> {
    if n == 0 {
        return vec![vec![]];
    }
    let mut out = vec![];
    for mask in 0..(1u32 << (n - 1)) {
        let mut runs = vec![];
        let mut start = 0;
        for i in 0..n - 1 {
            if mask & (1 << i) != 0 {
                runs.push(start..i + 1);
                start = i + 1;
            }
        }
        runs.push(start..n);
        out.push(runs);
    }
    out
}

/// One partition (rows = menu indices of the column arguments) through every evaluator entry point.
pub fn compare_partition(native: &WindowUDF, foreign: &WindowUDF, s: &Setup, c: &Config, rows: &[Vec<usize>], st: &mut PartStats) -> Vec<Finding> {
    let mut findings = vec![];
    let Some(ex) = exprs(s, c) else { return findings };
    let n = rows.len();
    let values: Vec<ArrayRef> = (0..s.menus.len()).map(|a| take1(&s.menus[a], &rows.iter().map(|r| r[a]).collect::<Vec<_>>())).collect();
    let make = |u: &WindowUDF| u.partition_evaluator_factory(PartitionEvaluatorArgs::new(&ex, &s.fields, c.is_reversed, c.ignore_nulls));
    let sv_text = |v: &ScalarValue| format!("{v:?}").chars().take(200).collect::<String>();
    let mut fresh = |findings: &mut Vec<Finding>, st: &mut PartStats| -> Option<(Box<dyn PartitionEvaluator>, Box<dyn PartitionEvaluator>)> {
        st.ops += 2;
        let r = cmp(findings, "partition_evaluator", "", engine::catch_native(|| make(native)), engine::catch_foreign(|| make(foreign)), |_, _| true, &|_| "evaluator".into());
        if let Some((_, f)) = &r {
            if format!("{f:?}").contains("ForeignPartitionEvaluator") {
                st.foreign_evaluators += 1;
            }
        }
        r
    };
    // flags
    let Some((mut en, mut ef)) = fresh(&mut findings, st) else { return findings };
    let flags = |e: &dyn PartitionEvaluator| (e.is_causal(), e.supports_bounded_execution(), e.uses_window_frame(), e.include_rank());
    if flags(en.as_ref()) != flags(ef.as_ref()) {
        findings.push(Finding {
            symptom: "evaluator-flags-differ".into(),
            what: format!("(is_causal, supports_bounded_execution, uses_window_frame, include_rank): native {:?}, foreign {:?}", flags(en.as_ref()), flags(ef.as_ref())),
        });
    }
    // evaluate_all
    st.ops += 2;
    if let Some((x, _)) = cmp(&mut findings, "evaluate_all", "", engine::catch_native(|| en.evaluate_all(&values, n)), engine::catch_foreign(|| ef.evaluate_all(&values, n)), arrays_eq, &arrays_text) {
        st.ok_results += 1;
        if x.null_count() < x.len() {
            st.nonnull_results += 1;
        }
    }
    // get_range
    for i in 0..n {
        st.ops += 2;
        cmp(&mut findings, "get_range", &format!("({i}, {n})"), engine::catch_native(|| en.get_range(i, n)), engine::catch_foreign(|| ef.get_range(i, n)), |a, b| a == b, &|a| format!("{a:?}"));
    }
    // evaluate over every range, on a fresh pair (evaluators may keep state between calls)
    if let Some((mut en, mut ef)) = fresh(&mut findings, st) {
        for lo in 0..=n {
            for hi in lo..=n {
                let r = lo..hi;
                st.ops += 2;
                if let Some((x, _)) = cmp(&mut findings, "evaluate", &format!("(range {r:?})"), engine::catch_native(|| en.evaluate(&values, &r)), engine::catch_foreign(|| ef.evaluate(&values, &r)), |a, b| a == b, &sv_text) {
                    st.ok_results += 1;
                    if !x.is_null() {
                        st.nonnull_results += 1;
                    }
                }
            }
        }
    }
    // evaluate_all_with_rank over every run partition
    if let Some((en, ef)) = fresh(&mut findings, st) {
        for runs in run_partitions(n) {
            st.ops += 2;
            if let Some((x, _)) = cmp(
                &mut findings,
                "evaluate_all_with_rank",
                &format!("({n}, {runs:?})"),
                engine::catch_native(|| en.evaluate_all_with_rank(n, &runs)),
                engine::catch_foreign(|| ef.evaluate_all_with_rank(n, &runs)),
                arrays_eq,
                &arrays_text,
            ) {
                st.ok_results += 1;
                if x.null_count() < x.len() {
                    st.nonnull_results += 1;
                }
            }
        }
    }
    findings
}
