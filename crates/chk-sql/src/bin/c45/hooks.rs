//! Forcing the `Foreign*` paths inside one process.
//!
//! Every `FFI_*` struct carries `library_marker_id`; a consumer that sees its own
//! marker bypasses the FFI and uses the wrapped object directly.  The field is
//! public, so the harness overwrites it with its own `extern "C" fn`.  Objects
//! that the provider side *creates during a call* (accumulators, groups
//! accumulators, partition evaluators, plan properties) are stamped with the
//! local marker by the wrapper functions; to get those onto the foreign path as
//! well, the (public) function-pointer fields that create them are replaced by
//! harness functions that call the original wrapper and then replace the local
//! marker function pointer inside the returned value by the harness marker.
//! Several of the returned types are not nameable outside `datafusion-ffi`
//! (private modules), hence the hooks are generic and find the marker by value.
#![allow(dead_code)]

use std::sync::atomic::{AtomicUsize, Ordering};

use datafusion_ffi::execution_plan::FFI_ExecutionPlan;
use datafusion_ffi::plan_properties::FFI_PlanProperties;
use datafusion_ffi::udaf::FFI_AggregateUDF;
use datafusion_ffi::udwf::FFI_WindowUDF;

static MARK: u8 = 0;

/// The harness's "other library" marker.
pub extern "C" fn foreign_marker() -> usize {
    std::ptr::from_ref::<u8>(&MARK) as usize
}

/// The library's marker function exists in several copies (one per codegen unit that uses it), so
/// "the" address is a set: the addresses seen in the structs the harness can name, plus any word that
/// points into executable memory at code of the shape `lea rax, [rip + LIBRARY_MARKER]; ret`.
static KNOWN: std::sync::Mutex<Vec<usize>> = std::sync::Mutex::new(Vec::new());
static TEXT: std::sync::OnceLock<Vec<(usize, usize)>> = std::sync::OnceLock::new();

fn text_ranges() -> &'static Vec<(usize, usize)> {
    TEXT.get_or_init(|| {
        let mut v = vec![];
        if let Ok(maps) = std::fs::read_to_string("/proc/self/maps") {
            for l in maps.lines() {
                let mut it = l.split_whitespace();
                let (Some(range), Some(perm)) = (it.next(), it.next()) else { continue };
                if !perm.contains('x') || !perm.starts_with('r') {
                    continue;
                }
                if let Some((a, b)) = range.split_once('-') {
                    if let (Ok(a), Ok(b)) = (usize::from_str_radix(a, 16), usize::from_str_radix(b, 16)) {
                        v.push((a, b));
                    }
                }
            }
        }
        v
    })
}

fn looks_like_marker_fn(w: usize) -> bool {
    if !text_ranges().iter().any(|(a, b)| w >= *a && w + 24 <= *b) {
        return false;
    }
    let code = unsafe { std::slice::from_raw_parts(w as *const u8, 24) };
    let mut off = 0;
    if code[..4] == [0xf3, 0x0f, 0x1e, 0xfa] {
        off = 4; // endbr64
    }
    if code[off..off + 3] != [0x48, 0x8d, 0x05] || code[off + 7] != 0xc3 {
        return false;
    }
    let disp = i32::from_le_bytes([code[off + 3], code[off + 4], code[off + 5], code[off + 6]]) as isize;
    (w + off + 7).wrapping_add_signed(disp) == datafusion_ffi::get_library_marker_id()
}

fn is_local_marker_fn(w: usize) -> bool {
    if w == 0 {
        return false;
    }
    if KNOWN.lock().unwrap().contains(&w) {
        return true;
    }
    if looks_like_marker_fn(w) {
        KNOWN.lock().unwrap().push(w);
        return true;
    }
    false
}

fn foreign_marker_fn() -> usize {
    foreign_marker as extern "C" fn() -> usize as usize
}

/// Number of markers replaced by the generic hooks (evidence that the foreign paths were taken).
pub static PATCHED: AtomicUsize = AtomicUsize::new(0);

/// Replace every pointer-sized word of `v` that equals the local marker function by the harness marker.
unsafe fn patch_markers<T>(v: &mut T) {
    if std::mem::align_of::<T>() < std::mem::align_of::<usize>() {
        return;
    }
    let words = std::mem::size_of::<T>() / std::mem::size_of::<usize>();
    let p = v as *mut T as *mut usize;
    let foreign = foreign_marker_fn();
    for i in 0..words {
        unsafe {
            if is_local_marker_fn(p.add(i).read()) {
                p.add(i).write(foreign);
                PATCHED.fetch_add(1, Ordering::Relaxed);
            }
        }
    }
}

const N_SLOTS: usize = 8;
static ORIG: [AtomicUsize; N_SLOTS] = [const { AtomicUsize::new(0) }; N_SLOTS];

/// `$field = $hook`, remembering the previous value as the original unless it already was the hook.
macro_rules! install {
    ($slot:expr, $field:expr, $hook:expr) => {{
        let old = $field as usize;
        $field = $hook;
        let new = $field as usize;
        if old != new {
            ORIG[$slot].store(old, Ordering::SeqCst);
        }
    }};
}

/// Generic hook for `fn(&S, A) -> R`: call the original wrapper, stamp the result as foreign.
unsafe extern "C" fn hook2<const SLOT: usize, S, A, R>(this: &S, a: A) -> R {
    unsafe {
        let f: unsafe extern "C" fn(&S, A) -> R = std::mem::transmute_copy(&ORIG[SLOT].load(Ordering::SeqCst));
        let mut r = f(this, a);
        patch_markers(&mut r);
        r
    }
}

const ACC: usize = 0;
const SLIDING: usize = 1;
const GROUPS: usize = 2;
const AGG_CLONE: usize = 3;
const EVALUATOR: usize = 4;
const WIN_CLONE: usize = 5;
const PLAN_PROPS: usize = 6;

unsafe extern "C" fn agg_clone_hook(u: &FFI_AggregateUDF) -> FFI_AggregateUDF {
    unsafe {
        let f: unsafe extern "C" fn(&FFI_AggregateUDF) -> FFI_AggregateUDF = std::mem::transmute_copy(&ORIG[AGG_CLONE].load(Ordering::SeqCst));
        let mut c = f(u);
        force_aggregate(&mut c);
        c
    }
}

/// Put an aggregate function and everything it creates on the foreign path.
pub fn force_aggregate(f: &mut FFI_AggregateUDF) {
    install!(ACC, f.accumulator, hook2::<ACC, _, _, _>);
    install!(SLIDING, f.create_sliding_accumulator, hook2::<SLIDING, _, _, _>);
    install!(GROUPS, f.create_groups_accumulator, hook2::<GROUPS, _, _, _>);
    install!(AGG_CLONE, f.clone, agg_clone_hook);
    f.library_marker_id = foreign_marker;
}

unsafe extern "C" fn win_clone_hook(u: &FFI_WindowUDF) -> FFI_WindowUDF {
    unsafe {
        let f: unsafe extern "C" fn(&FFI_WindowUDF) -> FFI_WindowUDF = std::mem::transmute_copy(&ORIG[WIN_CLONE].load(Ordering::SeqCst));
        let mut c = f(u);
        force_window(&mut c);
        c
    }
}

/// Put a window function and the evaluators it creates on the foreign path.
pub fn force_window(f: &mut FFI_WindowUDF) {
    install!(EVALUATOR, f.partition_evaluator, hook2::<EVALUATOR, _, _, _>);
    install!(WIN_CLONE, f.clone, win_clone_hook);
    f.library_marker_id = foreign_marker;
}

unsafe extern "C" fn plan_props_hook(p: &FFI_ExecutionPlan) -> FFI_PlanProperties {
    unsafe {
        let f: unsafe extern "C" fn(&FFI_ExecutionPlan) -> FFI_PlanProperties = std::mem::transmute_copy(&ORIG[PLAN_PROPS].load(Ordering::SeqCst));
        let mut r = f(p);
        r.library_marker_id = foreign_marker;
        PATCHED.fetch_add(1, Ordering::Relaxed);
        r
    }
}

/// Put an execution plan node and its `PlanProperties` on the foreign path.
pub fn force_plan(f: &mut FFI_ExecutionPlan) {
    install!(PLAN_PROPS, f.properties, plan_props_hook);
    f.library_marker_id = foreign_marker;
}

/// Collect the marker-function addresses of the structs the harness can name; check the basic assumption.
pub fn self_check() -> Result<(), String> {
    let udf = datafusion::functions::math::abs();
    let ffi: datafusion_ffi::udf::FFI_ScalarUDF = udf.into();
    let agg: FFI_AggregateUDF = datafusion::functions_aggregate::sum::sum_udaf().into();
    let win: FFI_WindowUDF = datafusion::functions_window::row_number::row_number_udwf().into();
    for f in [ffi.library_marker_id, agg.library_marker_id, win.library_marker_id] {
        if f() != datafusion_ffi::get_library_marker_id() {
            return Err("a marker function stored in an FFI struct does not return the library marker".into());
        }
        let w = f as usize;
        let mut k = KNOWN.lock().unwrap();
        if !k.contains(&w) {
            k.push(w);
        }
    }
    if foreign_marker() == datafusion_ffi::get_library_marker_id() {
        return Err("harness marker equals the library marker".into());
    }
    Ok(())
}
