//! C45 part `table`: MemTables wrapped as FFI_TableProvider (foreign marker) and queried through SQL;
//! physical plans wrapped as FFI_ExecutionPlan (foreign marker, foreign PlanProperties); native
//! streams wrapped as FFI_RecordBatchStream.
#![allow(dead_code)]

use std::sync::Arc;

use arrow::array::{ArrayRef, Float64Array, Int64Array, RecordBatch, StringArray};
use arrow::datatypes::{DataType, Field, Schema, SchemaRef};
use datafusion::catalog::TableProvider;
use datafusion::datasource::MemTable;
use datafusion::execution::TaskContextProvider;
use datafusion::logical_expr::{Expr, col, lit};
use datafusion::physical_plan::{ExecutionPlan, ExecutionPlanProperties, RecordBatchStream, SendableRecordBatchStream};
use datafusion::prelude::{SessionConfig, SessionContext};
use datafusion_ffi::execution::FFI_TaskContextProvider;
use datafusion_ffi::execution_plan::{FFI_ExecutionPlan, ForeignExecutionPlan};
use datafusion_ffi::record_batch_stream::FFI_RecordBatchStream;
use datafusion_ffi::table_provider::{FFI_TableProvider, ForeignTableProvider};
use futures::StreamExt;

use super::hooks;

type Row = (Option<i64>, Option<&'static str>, Option<f64>);

pub struct Db {
    pub label: &'static str,
    /// partitions → batches → rows of t(a, b, c)
    pub t: Vec<Vec<Vec<Row>>>,
    /// rows of u(a, d), one partition, one batch
    pub u: Vec<(Option<i64>, Option<&'static str>)>,
    pub t_sorted_on_a: bool,
    pub t_not_null: bool,
}

pub fn databases() -> Vec<Db> {
    let r1: Row = (Some(1), Some("x"), Some(0.5));
    let r2: Row = (Some(2), Some("yz"), Some(2.5));
    let r3: Row = (Some(3), None, None);
    let rn: Row = (None, None, None);
    let re: Row = (Some(2), Some(""), Some(2.5));
    let u1 = vec![(Some(1), Some("p"))];
    let u2 = vec![(Some(2), Some("q")), (None, Some("r")), (Some(2), None)];
    let db = |label, t, u: &Vec<(Option<i64>, Option<&'static str>)>| Db { label, t, u: u.clone(), t_sorted_on_a: false, t_not_null: false };
    vec![
        db("empty", vec![vec![]], &vec![]),
        db("one-row", vec![vec![vec![r1]]], &u1),
        db("nulls", vec![vec![vec![rn, re]]], &u2),
        db("three-rows", vec![vec![vec![r1, r2, r3]]], &u2),
        db("two-batches", vec![vec![vec![r1], vec![r2, r3]]], &u2),
        db("two-partitions", vec![vec![vec![r1, r2]], vec![vec![r3]]], &u1),
        db("duplicates", vec![vec![vec![r1, r1, (Some(2), Some("x"), Some(0.5))]]], &u2),
        db("empty-partition", vec![vec![], vec![vec![r2, rn]]], &u2),
        Db { label: "sorted", t: vec![vec![vec![r1, r2, r3]]], u: u1.clone(), t_sorted_on_a: true, t_not_null: false },
        db("four-rows-mixed", vec![vec![vec![rn, r3]], vec![vec![r1, re]]], &u2),
        db("zero", vec![vec![vec![(Some(0), Some("z"), Some(1.0)), r1]]], &u1),
        Db { label: "not-null", t: vec![vec![vec![r1, r2]]], u: u1.clone(), t_sorted_on_a: false, t_not_null: true },
    ]
}

/// (sql, ordered result?, statement run before it on the same context)
pub fn queries() -> Vec<(&'static str, bool, Option<&'static str>)> {
    vec![
        ("SELECT * FROM t", false, None),
        ("SELECT a, b FROM t WHERE a > 1", false, None),
        ("SELECT b, count(*), sum(a) FROM t GROUP BY b", false, None),
        ("SELECT * FROM t ORDER BY a NULLS FIRST, b NULLS FIRST, c NULLS FIRST", true, None),
        ("SELECT count(*) FROM (SELECT a FROM t LIMIT 1)", false, None),
        ("SELECT t.a, u.d FROM t JOIN u ON t.a = u.a", false, None),
        ("SELECT t.a, t.b FROM t LEFT JOIN u ON t.a = u.a WHERE u.d IS NULL", false, None),
        ("SELECT a, b, row_number() OVER (PARTITION BY b ORDER BY a, c) FROM t", false, None),
        ("SELECT upper(b), a + 1, c * 2 FROM t WHERE b LIKE 'x%' OR a IS NULL", false, None),
        ("SELECT a FROM t UNION ALL SELECT a FROM u", false, None),
        ("SELECT 10 / a FROM t", false, None),
        ("SELECT max(c), min(b), avg(a) FROM t", false, None),
        ("SELECT DISTINCT b FROM t", false, None),
        ("SELECT a FROM t WHERE a IN (SELECT a FROM u)", false, None),
        ("SELECT * FROM t", false, Some("INSERT INTO t VALUES (7, 'ins', 1.5)")),
        ("SELECT a, c FROM t WHERE c >= 0.5 AND b IS NOT NULL ORDER BY a DESC, c", true, None),
    ]
}

fn t_schema(not_null: bool) -> SchemaRef {
    Arc::new(Schema::new(vec![Field::new("a", DataType::Int64, !not_null), Field::new("b", DataType::Utf8, !not_null), Field::new("c", DataType::Float64, !not_null)]))
}
fn u_schema() -> SchemaRef {
    Arc::new(Schema::new(vec![Field::new("a", DataType::Int64, true), Field::new("d", DataType::Utf8, true)]))
}

fn t_batch(schema: &SchemaRef, rows: &[Row]) -> RecordBatch {
    let a: ArrayRef = Arc::new(Int64Array::from(rows.iter().map(|r| r.0).collect::<Vec<_>>()));
    let b: ArrayRef = Arc::new(StringArray::from(rows.iter().map(|r| r.1).collect::<Vec<_>>()));
    let c: ArrayRef = Arc::new(Float64Array::from(rows.iter().map(|r| r.2).collect::<Vec<_>>()));
    RecordBatch::try_new(schema.clone(), vec![a, b, c]).expect("batch")
}

pub fn mem_tables(db: &Db) -> (Arc<MemTable>, Arc<MemTable>) {
    let ts = t_schema(db.t_not_null);
    let parts: Vec<Vec<RecordBatch>> = db.t.iter().map(|p| p.iter().map(|b| t_batch(&ts, b)).collect()).collect();
    let mut t = MemTable::try_new(ts, parts).expect("memtable t");
    if db.t_sorted_on_a {
        t = t.with_sort_order(vec![vec![col("a").sort(true, false)]]);
    }
    let us = u_schema();
    let ua: ArrayRef = Arc::new(Int64Array::from(db.u.iter().map(|r| r.0).collect::<Vec<_>>()));
    let ud: ArrayRef = Arc::new(StringArray::from(db.u.iter().map(|r| r.1).collect::<Vec<_>>()));
    let ub = RecordBatch::try_new(us.clone(), vec![ua, ud]).expect("batch u");
    let u = MemTable::try_new(us, vec![vec![ub]]).expect("memtable u");
    (Arc::new(t), Arc::new(u))
}

pub fn new_ctx() -> Arc<SessionContext> {
    let cfg = SessionConfig::new().with_target_partitions(2).with_batch_size(2);
    Arc::new(SessionContext::new_with_config(cfg))
}

pub fn wrap_provider(ctx: &Arc<SessionContext>, p: Arc<dyn TableProvider>) -> Result<Arc<dyn TableProvider>, String> {
    let tcp = Arc::clone(ctx) as Arc<dyn TaskContextProvider>;
    let tcp = FFI_TaskContextProvider::from(&tcp);
    let mut ffi = FFI_TableProvider::new(p, true, None, tcp, None);
    ffi.library_marker_id = hooks::foreign_marker;
    let f: Arc<dyn TableProvider> = (&ffi).into();
    if f.downcast_ref::<ForeignTableProvider>().is_none() {
        return Err("machinery: the wrapped table provider was not put on the foreign path".into());
    }
    Ok(f)
}

pub fn wrap_plan(p: &Arc<dyn ExecutionPlan>) -> Result<Arc<dyn ExecutionPlan>, String> {
    let mut ffi = FFI_ExecutionPlan::new(Arc::clone(p), None);
    hooks::force_plan(&mut ffi);
    let f = ForeignExecutionPlan::try_from(ffi).map_err(|e| format!("ForeignExecutionPlan::try_from: {e}"))?;
    Ok(Arc::new(f))
}

pub fn schema_text(s: &Schema) -> String {
    let f: Vec<String> = s
        .fields()
        .iter()
        .map(|f| {
            let mut m: Vec<_> = f.metadata().iter().collect();
            m.sort();
            format!("{}: {} nullable={} meta={:?}", f.name(), f.data_type(), f.is_nullable(), m)
        })
        .collect();
    let mut m: Vec<_> = s.metadata().iter().collect();
    m.sort();
    format!("[{}] meta={:?}", f.join(", "), m)
}

/// Rows of the batches rendered cell by cell (NULL distinguishable from any string).
pub fn rows_text(batches: &[RecordBatch]) -> Vec<String> {
    let mut out = vec![];
    for b in batches {
        for r in 0..b.num_rows() {
            let cells: Vec<String> = (0..b.num_columns())
                .map(|c| {
                    let a = b.column(c);
                    if arrow::array::Array::is_null(a.as_ref(), r) { "\u{2400}".to_string() } else { format!("{:?}", arrow::util::display::array_value_to_string(a, r).unwrap_or_default()) }
                })
                .collect();
            out.push(cells.join("|"));
        }
    }
    out
}

pub struct QueryOutcome {
    pub schema: String,
    pub rows: Vec<String>,
}

pub async fn run_sql(ctx: &SessionContext, pre: Option<&str>, sql: &str, ordered: bool) -> Result<QueryOutcome, String> {
    let mut pre_rows = vec![];
    if let Some(p) = pre {
        let df = ctx.sql(p).await.map_err(|e| format!("plan({p}): {e}"))?;
        let b = df.collect().await.map_err(|e| format!("run({p}): {e}"))?;
        pre_rows = rows_text(&b);
    }
    let df = ctx.sql(sql).await.map_err(|e| format!("plan: {e}"))?;
    let schema = schema_text(df.schema().as_arrow());
    let batches = df.collect().await.map_err(|e| format!("run: {e}"))?;
    let mut rows = rows_text(&batches);
    if !ordered {
        rows.sort();
    }
    let mut all = pre_rows;
    all.extend(rows);
    Ok(QueryOutcome { schema, rows: all })
}

pub fn props_text(p: &dyn ExecutionPlan) -> String {
    let pr = p.properties();
    format!(
        "partitioning={:?}; ordering={}; boundedness={:?}; emission={:?}; schema={}",
        pr.output_partitioning(),
        pr.output_ordering().map(|o| o.to_string()).unwrap_or_else(|| "none".into()),
        pr.boundedness,
        pr.emission_type,
        schema_text(&p.schema())
    )
}

pub async fn drain(mut s: SendableRecordBatchStream) -> Result<(String, Vec<String>), String> {
    let schema = schema_text(&s.schema());
    let mut batches = vec![];
    while let Some(b) = s.next().await {
        batches.push(b.map_err(|e| format!("stream error: {e}"))?);
    }
    for b in &batches {
        if schema_text(&b.schema()) != schema {
            return Err(format!("machinery?: batch schema {} differs from stream schema {schema}", schema_text(&b.schema())));
        }
    }
    Ok((schema, rows_text(&batches)))
}

pub async fn run_plan(p: &Arc<dyn ExecutionPlan>, ctx: &SessionContext, sorted: bool) -> Vec<Result<(String, Vec<String>), String>> {
    let n = p.output_partitioning().partition_count();
    let mut out = vec![];
    for i in 0..n {
        let r = match mc_core::catch(|| p.execute(i, ctx.task_ctx())) {
            Ok(Ok(s)) => drain(s).await,
            Ok(Err(e)) => Err(format!("execute: {e}")),
            Err(p) => Err(p),
        };
        out.push(r.map(|(s, mut rows)| {
            if sorted {
                rows.sort();
            }
            (s, rows)
        }));
    }
    out
}

/// As `run_plan`, but every native stream is passed through FFI_RecordBatchStream.
pub async fn run_plan_ffi_stream(p: &Arc<dyn ExecutionPlan>, ctx: &SessionContext, sorted: bool) -> Vec<Result<(String, Vec<String>), String>> {
    let n = p.output_partitioning().partition_count();
    let mut out = vec![];
    for i in 0..n {
        let r = match mc_core::catch(|| p.execute(i, ctx.task_ctx())) {
            Ok(Ok(s)) => {
                let ffi = FFI_RecordBatchStream::new(s, None);
                let s: SendableRecordBatchStream = Box::pin(ffi);
                drain(s).await
            }
            Ok(Err(e)) => Err(format!("execute: {e}")),
            Err(p) => Err(p),
        };
        out.push(r.map(|(s, mut rows)| {
            if sorted {
                rows.sort();
            }
            (s, rows)
        }));
    }
    out
}

pub fn filters() -> Vec<Expr> {
    vec![col("a").gt(lit(1i64)), col("b").eq(lit("x")), col("a").is_null(), col("c").lt_eq(lit(2.5f64)).and(col("a").not_eq(lit(3i64)))]
}
