//! C45 part `aggregate`: AggregateUDF → FFI_AggregateUDF (foreign marker, hooks so that the
//! accumulators it creates are foreign too) → ForeignAggregateUDF vs the original.
#![allow(dead_code)]

use std::sync::Arc;

use arrow::array::{Array, ArrayRef, BooleanArray};
use arrow::datatypes::{DataType, Field, FieldRef, Schema};
use datafusion::common::ScalarValue;
use datafusion::logical_expr::function::{AccumulatorArgs, StateFieldsArgs};
use datafusion::logical_expr::type_coercion::functions::fields_with_udf;
use datafusion::logical_expr::{Accumulator, AggregateUDF, AggregateUDFImpl, EmitTo, GroupsAccumulator};
use datafusion::physical_expr::expressions::{Column, Literal};
use datafusion::physical_expr::{PhysicalExpr, PhysicalSortExpr};
use datafusion_ffi::udaf::{FFI_AggregateUDF, ForeignAggregateUDF};
use serde::{Deserialize, Serialize};

use super::engine::{self, take1};
use super::hooks;
use super::menu;

pub fn foreign(udaf: &Arc<AggregateUDF>) -> Result<AggregateUDF, String> {
    let mut ffi: FFI_AggregateUDF = Arc::clone(udaf).into();
    if super::udf::demo() && udaf.name() == "count" {
        // a dropped nullability bit
        ffi.is_nullable = !ffi.is_nullable;
    }
    hooks::force_aggregate(&mut ffi);
    let imp: Arc<dyn AggregateUDFImpl> = (&ffi).into();
    if !imp.is::<ForeignAggregateUDF>() {
        return Err("machinery: the wrapped aggregate function was not put on the foreign path".into());
    }
    Ok(AggregateUDF::new_from_shared_impl(imp))
}

pub fn registry() -> Vec<Arc<AggregateUDF>> {
    let mut v = datafusion::execution::SessionStateDefaults::default_aggregate_functions();
    v.sort_by(|a, b| a.name().cmp(b.name()));
    v.dedup_by(|a, b| a.name() == b.name());
    v
}

pub fn type_lists(u: &AggregateUDF, cap: usize) -> Vec<Vec<DataType>> {
    engine::type_lists_with(u, cap, 2, &|coerced: &[FieldRef]| matches!(mc_core::catch(|| u.return_field(coerced)), Ok(Ok(_)))).0
}

/// How the accumulator is configured.
#[derive(Serialize, Deserialize, Clone, Debug, PartialEq)]
pub struct Config {
    pub distinct: bool,
    pub ignore_nulls: bool,
    /// ORDER BY the last argument column
    pub ordered: bool,
    /// arguments after the first are literals (their default menu value) instead of columns
    pub literal_tail: bool,
}

pub fn configs(nargs: usize) -> Vec<Config> {
    let mut v = vec![
        Config { distinct: false, ignore_nulls: false, ordered: false, literal_tail: false },
        Config { distinct: true, ignore_nulls: false, ordered: false, literal_tail: false },
        Config { distinct: false, ignore_nulls: true, ordered: true, literal_tail: false },
    ];
    if nargs >= 2 {
        v.push(Config { distinct: false, ignore_nulls: false, ordered: false, literal_tail: true });
    }
    v
}

#[derive(Clone, Debug)]
pub struct Finding {
    pub symptom: String,
    pub what: String,
}

fn field_text(f: &FieldRef) -> String {
    let mut m: Vec<_> = f.metadata().iter().collect();
    m.sort();
    format!("{}: {} nullable={} metadata={:?}", f.name(), f.data_type(), f.is_nullable(), m)
}

fn res_text<T, E: std::fmt::Display>(r: &Result<Result<T, E>, String>, show: impl Fn(&T) -> String) -> String {
    match r {
        Ok(Ok(v)) => format!("Ok({})", show(v)),
        Ok(Err(e)) => format!("Err({})", e.to_string().chars().take(200).collect::<String>()),
        Err(p) => format!("Panic({})", p.chars().take(200).collect::<String>()),
    }
}

/// Compare two outcomes: equal iff both fail (error or panic) or both succeed with `eq` values.
fn cmp<T>(
    findings: &mut Vec<Finding>,
    what: &str,
    n: Result<datafusion::common::Result<T>, String>,
    f: Result<datafusion::common::Result<T>, String>,
    eq: impl Fn(&T, &T) -> bool,
    show: impl Fn(&T) -> String,
) -> Option<(T, T)> {
    let sym = match (&n, &f) {
        (Ok(Ok(a)), Ok(Ok(b))) => {
            if eq(a, b) {
                None
            } else {
                Some("differs")
            }
        }
        (Ok(Ok(_)), _) => Some("fails-only-foreign"),
        (_, Ok(Ok(_))) => Some("fails-only-native"),
        _ => None,
    };
    if let Some(s) = sym {
        let symptom = format!("{what}-{s}");
        if !findings.iter().any(|x| x.symptom == symptom) {
            findings.push(Finding { symptom, what: format!("{what}: native {}, foreign {}", res_text(&n, &show), res_text(&f, &show)) });
        }
        return None;
    }
    match (n, f) {
        (Ok(Ok(a)), Ok(Ok(b))) => Some((a, b)),
        _ => None,
    }
}

fn arrays_eq(a: &ArrayRef, b: &ArrayRef) -> bool {
    a.data_type() == b.data_type() && a.to_data() == b.to_data()
}
fn arrays_text(a: &ArrayRef) -> String {
    let s = format!("{:?}", a);
    format!("{}: {}", a.data_type(), s.chars().take(200).collect::<String>().replace('\n', " "))
}

pub fn compare_declared(native: &AggregateUDF, foreign: &AggregateUDF, lists: &[Vec<DataType>], ops: &mut u64) -> Vec<Finding> {
    let mut out = vec![];
    let mut push = |symptom: &str, what: String| out.push(Finding { symptom: symptom.into(), what });
    if native.name() != foreign.name() {
        push("name-differs", format!("name: native {:?}, foreign {:?}", native.name(), foreign.name()));
    }
    if native.aliases() != foreign.aliases() {
        push("aliases-differ", format!("aliases: native {:?}, foreign {:?}", native.aliases(), foreign.aliases()));
    }
    if native.signature().volatility != foreign.signature().volatility {
        push("volatility-differs", format!("volatility: native {:?}, foreign {:?}", native.signature().volatility, foreign.signature().volatility));
    }
    if native.is_nullable() != foreign.is_nullable() {
        push("is-nullable-differs", format!("is_nullable: native {}, foreign {}", native.is_nullable(), foreign.is_nullable()));
    }
    if native.order_sensitivity() != foreign.order_sensitivity() {
        push("order-sensitivity-differs", format!("order_sensitivity: native {:?}, foreign {:?}", native.order_sensitivity(), foreign.order_sensitivity()));
    }
    if native.supports_null_handling_clause() != foreign.supports_null_handling_clause() {
        push("null-handling-clause-differs", format!("supports_null_handling_clause: native {}, foreign {}", native.supports_null_handling_clause(), foreign.supports_null_handling_clause()));
    }
    let mut probe: Vec<Vec<DataType>> = vec![];
    let alpha = menu::probe_alphabet();
    for a in &alpha {
        probe.push(vec![a.clone()]);
    }
    for a in &alpha[..6] {
        for b in &alpha[..6] {
            probe.push(vec![a.clone(), b.clone()]);
        }
    }
    probe.extend(lists.iter().cloned());
    let show = |t: &[DataType]| t.iter().map(|x| x.to_string()).collect::<Vec<_>>().join(", ");
    for t in &probe {
        let fields: Vec<FieldRef> = t.iter().enumerate().map(|(i, d)| engine::field(i, d)).collect();
        let n = engine::catch_native(|| fields_with_udf(&fields, native));
        let f = engine::catch_foreign(|| fields_with_udf(&fields, foreign));
        *ops += 2;
        let types = |v: &Vec<FieldRef>| v.iter().map(|x| x.data_type().clone()).collect::<Vec<_>>();
        let mut fs = vec![];
        cmp(&mut fs, &format!("coercion of ({})", show(t)), n, f, |a, b| types(a) == types(b), |a| show(&types(a)));
        for mut x in fs {
            x.symptom = x.symptom.replace(&format!("coercion of ({})", show(t)), "coercion");
            if !out.iter().any(|o: &Finding| o.symptom == x.symptom) {
                out.push(x);
            }
        }
    }
    out
}

pub struct Setup {
    pub types: Vec<DataType>,
    pub menus: Vec<ArrayRef>,
    pub fields: Vec<FieldRef>,
    pub schema: Schema,
}

pub fn setup(types: &[DataType]) -> Option<Setup> {
    let menus: Vec<ArrayRef> = types.iter().map(|t| menu::menu_array(t, &[])).collect::<Option<Vec<_>>>()?;
    let fields: Vec<FieldRef> = types.iter().enumerate().map(|(i, t)| Arc::new(Field::new(format!("c{i}"), t.clone(), true))).collect();
    let schema = Schema::new(fields.iter().map(|f| f.as_ref().clone()).collect::<Vec<_>>());
    Some(Setup { types: types.to_vec(), menus, fields, schema })
}

/// The menu indices rows are drawn from: NULL, typical, another value.
pub fn row_alphabet(s: &Setup) -> Vec<Vec<usize>> {
    let per_arg: Vec<Vec<usize>> = s.menus.iter().map(|m| [0usize, 2, 3].iter().map(|i| (*i).min(m.len() - 1)).collect::<Vec<_>>()).collect();
    let mut rows: Vec<Vec<usize>> = vec![vec![]];
    for a in per_arg {
        let mut next = vec![];
        for r in &rows {
            for v in &a {
                let mut x = r.clone();
                x.push(*v);
                next.push(x);
            }
        }
        rows = next;
    }
    rows
}

struct Args {
    return_field: FieldRef,
    exprs: Vec<Arc<dyn PhysicalExpr>>,
    order_bys: Vec<PhysicalSortExpr>,
}

fn make_args(u: &AggregateUDF, s: &Setup, c: &Config) -> Option<Args> {
    let return_field = mc_core::catch(|| u.return_field(&s.fields)).ok()?.ok()?;
    let mut exprs: Vec<Arc<dyn PhysicalExpr>> = vec![];
    for (i, f) in s.fields.iter().enumerate() {
        if c.literal_tail && i > 0 {
            let m = &s.menus[i];
            let v = ScalarValue::try_from_array(m, 2usize.min(m.len() - 1)).ok()?;
            exprs.push(Arc::new(Literal::new(v)));
        } else {
            exprs.push(Arc::new(Column::new(f.name(), i)));
        }
    }
    let order_bys = if c.ordered && !s.fields.is_empty() {
        let i = s.fields.len() - 1;
        vec![PhysicalSortExpr::new_default(Arc::new(Column::new(s.fields[i].name(), i)))]
    } else {
        vec![]
    };
    Some(Args { return_field, exprs, order_bys })
}

fn acc_args<'a>(a: &'a Args, s: &'a Setup, c: &Config) -> AccumulatorArgs<'a> {
    AccumulatorArgs {
        return_field: a.return_field.clone(),
        schema: &s.schema,
        ignore_nulls: c.ignore_nulls,
        order_bys: &a.order_bys,
        is_reversed: false,
        name: "agg",
        is_distinct: c.distinct,
        exprs: &a.exprs,
        expr_fields: &s.fields,
    }
}

fn cols(s: &Setup, rows: &[Vec<usize>]) -> Vec<ArrayRef> {
    (0..s.menus.len()).map(|a| take1(&s.menus[a], &rows.iter().map(|r| r[a]).collect::<Vec<_>>())).collect()
}

/// Input arrays of the accumulator: argument columns followed by ORDER BY columns.
fn inputs(s: &Setup, c: &Config, rows: &[Vec<usize>]) -> Vec<ArrayRef> {
    let mut v = cols(s, rows);
    if c.ordered && !v.is_empty() {
        v.push(v[v.len() - 1].clone());
    }
    v
}

pub struct SeqStats {
    pub ops: u64,
    pub evaluated_ok: u64,
    pub nonnull_results: u64,
    pub foreign_accumulators: u64,
}

/// Per (function, types, config): declared things that depend on the configuration.
pub fn compare_config(native: &AggregateUDF, foreign: &AggregateUDF, s: &Setup, c: &Config, ops: &mut u64) -> Vec<Finding> {
    let mut findings = vec![];
    let Some(a) = make_args(native, s, c) else { return findings };
    // return_field
    *ops += 2;
    cmp(
        &mut findings,
        "return_field",
        engine::catch_native(|| native.return_field(&s.fields)),
        engine::catch_foreign(|| foreign.return_field(&s.fields)),
        |x, y| field_text(x) == field_text(y),
        |x| field_text(x),
    );
    // state_fields
    let ordering_fields: Vec<FieldRef> = if c.ordered && !s.fields.is_empty() { vec![s.fields[s.fields.len() - 1].clone()] } else { vec![] };
    let sf = |u: &AggregateUDF| {
        u.state_fields(StateFieldsArgs { name: "agg", input_fields: &s.fields, return_field: a.return_field.clone(), ordering_fields: &ordering_fields, is_distinct: c.distinct })
    };
    *ops += 2;
    let texts = |v: &Vec<FieldRef>| v.iter().map(field_text).collect::<Vec<_>>().join("; ");
    cmp(&mut findings, "state_fields", engine::catch_native(|| sf(native)), engine::catch_foreign(|| sf(foreign)), |x, y| texts(x) == texts(y), |x| texts(x));
    // groups_accumulator_supported
    *ops += 2;
    let gn = engine::catch_native(|| native.groups_accumulator_supported(acc_args(&a, s, c)));
    let gf = engine::catch_foreign(|| foreign.groups_accumulator_supported(acc_args(&a, s, c)));
    if gn != gf {
        findings.push(Finding { symptom: "groups-accumulator-supported-differs".into(), what: format!("groups_accumulator_supported: native {gn:?}, foreign {gf:?}") });
    }
    findings
}

/// One row sequence through every accumulator protocol, on the native and on the foreign function.
pub fn compare_sequence(native: &AggregateUDF, foreign: &AggregateUDF, s: &Setup, c: &Config, rows: &[Vec<usize>], st: &mut SeqStats) -> Vec<Finding> {
    let mut findings: Vec<Finding> = vec![];
    let Some(a) = make_args(native, s, c) else { return findings };
    let values = inputs(s, c, rows);
    let n = rows.len();
    let sv_text = |v: &ScalarValue| format!("{v:?}").chars().take(200).collect::<String>();
    let svs_text = |v: &Vec<ScalarValue>| format!("{v:?}").chars().take(300).collect::<String>();

    // ---- plain accumulator: update in one batch, evaluate; update in two batches, state, merge, evaluate
    for cut in [n, n / 2] {
        if cut == n / 2 && n < 2 {
            continue;
        }
        st.ops += 2;
        let made = cmp(&mut findings, "accumulator", engine::catch_native(|| native.accumulator(acc_args(&a, s, c))), engine::catch_foreign(|| foreign.accumulator(acc_args(&a, s, c))), |_, _| true, |_| "accumulator".into());
        let Some((mut an, mut af)) = made else { continue };
        if format!("{af:?}").contains("ForeignAccumulator") {
            st.foreign_accumulators += 1;
        }
        if an.supports_retract_batch() != af.supports_retract_batch() {
            findings.push(Finding { symptom: "supports-retract-differs".into(), what: format!("accumulator.supports_retract_batch: native {}, foreign {}", an.supports_retract_batch(), af.supports_retract_batch()) });
        }
        let parts: Vec<(usize, usize)> = if cut == n { vec![(0, n)] } else { vec![(0, cut), (cut, n - cut)] };
        let mut alive = true;
        for (lo, len) in &parts {
            let part: Vec<ArrayRef> = values.iter().map(|v| v.slice(*lo, *len)).collect();
            st.ops += 2;
            if cmp(&mut findings, "update_batch", engine::catch_native(|| an.update_batch(&part)), engine::catch_foreign(|| af.update_batch(&part)), |_, _| true, |_| "()".into()).is_none() {
                alive = false;
                break;
            }
        }
        if !alive {
            continue;
        }
        if cut == n {
            st.ops += 2;
            if let Some((x, _)) = cmp(&mut findings, "evaluate", engine::catch_native(|| an.evaluate()), engine::catch_foreign(|| af.evaluate()), |x, y| x == y, sv_text) {
                st.evaluated_ok += 1;
                if !x.is_null() {
                    st.nonnull_results += 1;
                }
            }
        } else {
            st.ops += 2;
            let states = cmp(&mut findings, "state", engine::catch_native(|| an.state()), engine::catch_foreign(|| af.state()), |x, y| x == y, svs_text);
            let Some((sn, _sf)) = states else { continue };
            // merge the state (taken from the native accumulator: both are equal) twice into fresh accumulators
            let arrays: Option<Vec<ArrayRef>> = sn.iter().map(|v| mc_core::catch(|| ScalarValue::iter_to_array(vec![v.clone(), v.clone()])).ok().and_then(|r| r.ok())).collect();
            let Some(arrays) = arrays else { continue };
            st.ops += 2;
            let Some((mut mn, mut mf)) =
                cmp(&mut findings, "accumulator", engine::catch_native(|| native.accumulator(acc_args(&a, s, c))), engine::catch_foreign(|| foreign.accumulator(acc_args(&a, s, c))), |_, _| true, |_| "accumulator".into())
            else {
                continue;
            };
            st.ops += 2;
            if cmp(&mut findings, "merge_batch", engine::catch_native(|| mn.merge_batch(&arrays)), engine::catch_foreign(|| mf.merge_batch(&arrays)), |_, _| true, |_| "()".into()).is_none() {
                continue;
            }
            st.ops += 2;
            if let Some((x, _)) = cmp(&mut findings, "evaluate-after-merge", engine::catch_native(|| mn.evaluate()), engine::catch_foreign(|| mf.evaluate()), |x, y| x == y, sv_text) {
                st.evaluated_ok += 1;
                if !x.is_null() {
                    st.nonnull_results += 1;
                }
            }
        }
    }

    // ---- sliding accumulator: update all, retract the first row, evaluate
    if n >= 1 {
        st.ops += 2;
        let made = cmp(
            &mut findings,
            "create_sliding_accumulator",
            engine::catch_native(|| native.create_sliding_accumulator(acc_args(&a, s, c))),
            engine::catch_foreign(|| foreign.create_sliding_accumulator(acc_args(&a, s, c))),
            |_, _| true,
            |_| "accumulator".into(),
        );
        if let Some((mut an, mut af)) = made {
            if an.supports_retract_batch() != af.supports_retract_batch() {
                findings.push(Finding { symptom: "sliding-supports-retract-differs".into(), what: format!("sliding accumulator.supports_retract_batch: native {}, foreign {}", an.supports_retract_batch(), af.supports_retract_batch()) });
            }
            st.ops += 2;
            let ok = cmp(&mut findings, "sliding-update_batch", engine::catch_native(|| an.update_batch(&values)), engine::catch_foreign(|| af.update_batch(&values)), |_, _| true, |_| "()".into()).is_some();
            if ok && an.supports_retract_batch() {
                let first: Vec<ArrayRef> = values.iter().map(|v| v.slice(0, 1)).collect();
                st.ops += 2;
                if cmp(&mut findings, "retract_batch", engine::catch_native(|| an.retract_batch(&first)), engine::catch_foreign(|| af.retract_batch(&first)), |_, _| true, |_| "()".into()).is_some() {
                    st.ops += 2;
                    if let Some((x, _)) = cmp(&mut findings, "evaluate-after-retract", engine::catch_native(|| an.evaluate()), engine::catch_foreign(|| af.evaluate()), |x, y| x == y, sv_text) {
                        st.evaluated_ok += 1;
                        if !x.is_null() {
                            st.nonnull_results += 1;
                        }
                    }
                }
            }
        }
    }

    // ---- groups accumulator: rows alternate between two groups; with and without a filter
    let supported = engine::catch_native(|| native.groups_accumulator_supported(acc_args(&a, s, c))).unwrap_or(false);
    if supported && n >= 1 {
        for filtered in [false, true] {
            st.ops += 2;
            let made = cmp(
                &mut findings,
                "create_groups_accumulator",
                engine::catch_native(|| native.create_groups_accumulator(acc_args(&a, s, c))),
                engine::catch_foreign(|| foreign.create_groups_accumulator(acc_args(&a, s, c))),
                |_, _| true,
                |_| "groups accumulator".into(),
            );
            let Some((mut gn, mut gf)) = made else { break };
            let groups: Vec<usize> = (0..n).map(|i| i % 2).collect();
            let total = 2usize.min(n.max(1));
            let groups: Vec<usize> = groups.into_iter().map(|g| g.min(total - 1)).collect();
            let filter = if filtered { Some(BooleanArray::from((0..n).map(|i| if i == 0 { Some(false) } else if i == 2 { None } else { Some(true) }).collect::<Vec<_>>())) } else { None };
            st.ops += 2;
            if cmp(
                &mut findings,
                "groups-update_batch",
                engine::catch_native(|| gn.update_batch(&values, &groups, filter.as_ref(), total)),
                engine::catch_foreign(|| gf.update_batch(&values, &groups, filter.as_ref(), total)),
                |_, _| true,
                |_| "()".into(),
            )
            .is_none()
            {
                continue;
            }
            {
                st.ops += 2;
                cmp(
                    &mut findings,
                    "convert_to_state",
                    engine::catch_native(|| gn.convert_to_state(&values, filter.as_ref())),
                    engine::catch_foreign(|| gf.convert_to_state(&values, filter.as_ref())),
                    |x, y| x.len() == y.len() && x.iter().zip(y).all(|(p, q)| arrays_eq(p, q)),
                    |x| x.iter().map(arrays_text).collect::<Vec<_>>().join("; "),
                );
            }
            if filtered {
                // state of the first group only, then the rest
                st.ops += 2;
                let states = cmp(
                    &mut findings,
                    "groups-state",
                    engine::catch_native(|| gn.state(EmitTo::First(1))),
                    engine::catch_foreign(|| gf.state(EmitTo::First(1))),
                    |x, y| x.len() == y.len() && x.iter().zip(y).all(|(p, q)| arrays_eq(p, q)),
                    |x| x.iter().map(arrays_text).collect::<Vec<_>>().join("; "),
                );
                if let Some((sn, _)) = states {
                    st.ops += 2;
                    let made = cmp(
                        &mut findings,
                        "create_groups_accumulator",
                        engine::catch_native(|| native.create_groups_accumulator(acc_args(&a, s, c))),
                        engine::catch_foreign(|| foreign.create_groups_accumulator(acc_args(&a, s, c))),
                        |_, _| true,
                        |_| "groups accumulator".into(),
                    );
                    if let Some((mut mn, mut mf)) = made {
                        st.ops += 2;
                        if cmp(&mut findings, "groups-merge_batch", engine::catch_native(|| mn.merge_batch(&sn, &[0], 1)), engine::catch_foreign(|| mf.merge_batch(&sn, &[0], 1)), |_, _| true, |_| "()".into()).is_some() {
                            st.ops += 2;
                            cmp(&mut findings, "groups-evaluate-after-merge", engine::catch_native(|| mn.evaluate(EmitTo::All)), engine::catch_foreign(|| mf.evaluate(EmitTo::All)), arrays_eq, arrays_text);
                        }
                    }
                }
            }
            st.ops += 2;
            if let Some((x, _)) = cmp(&mut findings, "groups-evaluate", engine::catch_native(|| gn.evaluate(EmitTo::All)), engine::catch_foreign(|| gf.evaluate(EmitTo::All)), arrays_eq, arrays_text) {
                st.evaluated_ok += 1;
                if x.null_count() < x.len() {
                    st.nonnull_results += 1;
                }
            }
        }
    }
    findings
}
