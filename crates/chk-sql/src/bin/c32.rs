//! C32 — scalar function results do not depend on argument representation.
//!
//! Enumerated: every `ScalarUDF` of the default registry (thorough: also the
//! Spark registry) that is not volatile, not nullary and not on the printed
//! "inspects physical type" list × ≤ 6 (thorough 12) argument-type lists per
//! function (the signature's example types and lists of 1..=3 probe types, each
//! passed through the function's own coercion, de-duplicated up to string
//! flavour, chosen greedily for diversity) × per-type value menus (NULL, empty /
//! zero, ASCII, multibyte, > 12 bytes, extremes; for string arguments up to 3
//! additional pool strings that 1-row probes show the function accepts) × every
//! pair of varied arguments (all menu × menu rows, the other arguments fixed at
//! their default) × representations:
//!
//!   base        one 1-row batch per row, plain arrays               (reference)
//!   const       one 1-row batch per row, every argument a constant
//!   const3      same with number_rows = 3
//!   batch       all rows that succeed in `base`, plain arrays, one batch
//!   batch-full  all rows (when some fail in `base`)
//!   sliced      as batch, every array sliced at offset 1 out of a longer array
//!   split@k     as batch, cut in two at k (quick: 1 and n/2; thorough: every k)
//!   scalar:i    rows grouped by the value of varied argument i: that argument and
//!               the fixed ones constants, the other varied argument an array
//!   scalar:fixed  the fixed arguments constants, the varied ones arrays
//!   flavour:k:T / flavour:all:F   argument k (or every string / binary argument)
//!               in another flavour (Utf8 / LargeUtf8 / Utf8View, Binary / …),
//!               only where the function's coercion keeps a different type
//!   dict:k:dense / dict:k:sparse  argument k dictionary-encoded (packed values;
//!               or the whole menu as dictionary values incl. unused ones, NULL as
//!               key and as value), only where the coercion keeps the dictionary
//!
//! Oracle (exactly the property): per row, every representation that succeeds
//! gives the value `base` gives (else the value `const` gives), after casting to
//! the reference's type; every result has `number_rows` rows and the type
//! declared by `return_field_from_args`; a batch all of whose rows succeed in
//! `base` succeeds.  Errors and panics are outcomes, never violations by themselves.
#[path = "c32/engine.rs"]
mod engine;
#[path = "c32/menu.rs"]
mod menu;

use std::collections::BTreeMap;
use std::sync::Arc;

use arrow::array::{Array, ArrayRef, DictionaryArray, Int32Array};
use arrow::compute::{CastOptions, can_cast_types, cast_with_options, concat};
use arrow::datatypes::{DataType, Int32Type};
use datafusion::common::ScalarValue;
use datafusion::common::config::ConfigOptions;
use datafusion::logical_expr::type_coercion::functions::fields_with_udf;
use datafusion::logical_expr::{ColumnarValue, ScalarUDF};
use engine::{Out, Plan, invoke, take1};
use mc_core::serde_json::{Value, json};
use mc_core::{Ctx, Level, rayon::prelude::*, run_check};
use serde::{Deserialize, Serialize};

const SIG_CAP_MAX: usize = 12;

#[derive(Serialize, Deserialize, Clone, Debug)]
struct Case {
    registry: String,
    func: String,
    /// index into the function's deterministic type-list enumeration
    sig: usize,
    /// the type list, for the reader and as a consistency check on replay
    types: Vec<String>,
    vary: (usize, usize),
    /// restrict the grid to these rows (minimised replays)
    #[serde(default)]
    rows: Option<Vec<usize>>,
    /// restrict to one representation
    #[serde(default)]
    rep: Option<String>,
    /// menu values of the rows, for the reader
    #[serde(default)]
    shown: Option<Value>,
}

#[derive(Clone, Debug)]
struct Finding {
    class: String,
    symptom: &'static str,
    rep: String,
    row: Option<usize>,
    what: String,
}

#[derive(Default)]
struct Stats {
    c: BTreeMap<String, u64>,
    nontrivial: bool,
    reps_compared: Vec<String>,
}
impl Stats {
    fn add(&mut self, k: &str, n: u64) {
        *self.c.entry(k.to_string()).or_insert(0) += n;
    }
}

fn rep_class(rep: &str) -> String {
    if rep == "base" {
        "rowwise".into()
    } else if rep.starts_with("const") || rep.starts_with("scalar") {
        "scalar".into()
    } else if rep.starts_with("batch") {
        "batch".into()
    } else if rep.starts_with("split") {
        "split".into()
    } else if rep.starts_with("flavour") {
        let f = rep.rsplit(':').next().unwrap_or("");
        let f = match f {
            "Utf8" | "Binary" | "small" => "small",
            "LargeUtf8" | "LargeBinary" | "large" => "large",
            _ => "view",
        };
        format!("flavour-{f}")
    } else if rep.starts_with("dict") {
        if rep.ends_with("nullvalue") { "dict-nullvalue".into() } else { "dict".into() }
    } else {
        rep.to_string()
    }
}

fn same(a: &ScalarValue, b: &ScalarValue) -> bool {
    if a == b {
        return true;
    }
    // +0.0 / -0.0 are the same value; so are NaNs of any payload / sign
    let num = |v: &ScalarValue| match v {
        ScalarValue::Float64(Some(x)) => Some(*x),
        ScalarValue::Float32(Some(x)) => Some(*x as f64),
        ScalarValue::Float16(Some(x)) => Some(x.to_f64()),
        _ => None,
    };
    if let (Some(x), Some(y)) = (num(a), num(b)) {
        return x == y || (x.is_nan() && y.is_nan());
    }
    let (x, y) = (format!("{a:?}"), format!("{b:?}"));
    x == y && x.contains("NaN")
}

/// Decimal rendered without trailing zeros (values of different scales compare equal when numerically equal).
fn norm_decimal(s: &str) -> String {
    if s.contains('.') { s.trim_end_matches('0').trim_end_matches('.').to_string() } else { s.to_string() }
}

fn is_decimal(t: &DataType) -> bool {
    matches!(t, DataType::Decimal32(..) | DataType::Decimal64(..) | DataType::Decimal128(..) | DataType::Decimal256(..))
}

fn show(v: &ScalarValue) -> String {
    if v.is_null() {
        return format!("NULL::{}", v.data_type());
    }
    // ScalarValue's Display panics on some values (Date64 outside chrono's range: `try_milliseconds(v).unwrap()`)
    let s = mc_core::catch(|| format!("{v:?}")).unwrap_or_else(|_| format!("<{} whose Display panics>", v.data_type()));
    if s.len() > 160 { format!("{}…", s.chars().take(160).collect::<String>()) } else { s }
}

struct Chunk {
    /// grid rows of each output row
    rows: Vec<usize>,
    args: Vec<ColumnarValue>,
    /// must this chunk succeed (all its rows succeed in `base`, same logical types)?
    must: bool,
    /// arguments passed as constants.  A failure is legitimate (eager validation of a constant) when some grid
    /// row that agrees with the chunk's row on every non-NULL constant fails in `base`: the rows that succeed
    /// with these constants do so only because a NULL elsewhere short-circuits the evaluation.
    constants: Vec<usize>,
    /// for type-changing variants (flavours, dictionaries): the argument types of the variant.  A failure
    /// of the batch is a violation only if every row evaluates successfully on its own *in these types*.
    variant_types: Option<Vec<DataType>>,
}

struct Grid<'a> {
    udf: &'a ScalarUDF,
    plan: &'a Plan,
    cfg: Arc<ConfigOptions>,
    /// menu index per argument, per grid row
    rows: Vec<Vec<usize>>,
    reference: Vec<Option<ScalarValue>>,
    base_ok: Vec<bool>,
    base_done: bool,
    ref_type: Option<DataType>,
    findings: Vec<Finding>,
    stats: Stats,
    /// the wall cap passed while this grid was being evaluated: its (partial) findings are discarded
    aborted: bool,
}

/// Set by `explore` (not by replays): once the run's wall cap has passed, grids still being evaluated stop
/// invoking the function and report nothing (the run is then marked non-exhaustive).
static DEADLINE: std::sync::OnceLock<std::time::Instant> = std::sync::OnceLock::new();
/// true only while `explore` enumerates its tasks (the determinism guard's replays afterwards run to the end)
static ARMED: std::sync::atomic::AtomicBool = std::sync::atomic::AtomicBool::new(false);

impl<'a> Grid<'a> {
    fn finish(mut self) -> (Vec<Finding>, Stats, Vec<Vec<usize>>) {
        if self.aborted {
            self.findings.clear();
            self.stats.nontrivial = false;
            self.stats.add("grids_abandoned_at_wall_cap", 1);
        }
        (self.findings, self.stats, self.rows)
    }

    fn scalar(&self, arg: usize, idx: usize) -> Option<ScalarValue> {
        ScalarValue::try_from_array(&self.plan.menus[arg], idx).ok()
    }

    /// Rows of `arr` as scalars of the reference type.
    fn values(&mut self, arr: &ArrayRef) -> Result<Vec<ScalarValue>, String> {
        let rt = self.ref_type.get_or_insert_with(|| arr.data_type().clone()).clone();
        let a: ArrayRef = if arr.data_type() == &rt {
            arr.clone()
        } else if is_decimal(arr.data_type()) && is_decimal(&rt) {
            // the declared scale may depend on a constant argument (round(x, 0)): compare numerically
            let mut out = vec![];
            for i in 0..arr.len() {
                let s = if arr.is_null(i) { None } else { Some(arrow::util::display::array_value_to_string(arr, i).map_err(|e| e.to_string())?) };
                out.push(ScalarValue::Utf8(s.map(|x| format!("\u{1}rendered:{}", norm_decimal(&x)))));
            }
            return Ok(out);
        } else if can_cast_types(arr.data_type(), &rt) {
            let opts = CastOptions { safe: false, ..Default::default() };
            match mc_core::catch(|| cast_with_options(arr, &rt, &opts)) {
                Ok(Ok(x)) => x,
                Ok(Err(e)) => return Err(format!("result of type {} cannot be cast to the reference type {rt}: {e}", arr.data_type())),
                Err(p) => return Err(format!("cast of result to {rt}: {p}")),
            }
        } else {
            // no cast between the two types: compare the rendered values
            let mut out = vec![];
            for i in 0..arr.len() {
                let s = if arr.is_null(i) { None } else { Some(arrow::util::display::array_value_to_string(arr, i).map_err(|e| e.to_string())?) };
                out.push(ScalarValue::Utf8(s.map(|x| format!("\u{1}rendered:{x}"))));
            }
            return Ok(out);
        };
        (0..a.len()).map(|i| ScalarValue::try_from_array(&a, i).map_err(|e| e.to_string())).collect()
    }

    fn reference_for(&self, row: usize, v: &ScalarValue) -> Option<ScalarValue> {
        let r = self.reference[row].as_ref()?;
        if matches!(v, ScalarValue::Utf8(None)) && r.is_null() && !matches!(r, ScalarValue::Utf8(_)) {
            // NULL in rendered mode (see `values`)
            return Some(ScalarValue::Utf8(None));
        }
        if let ScalarValue::Utf8(Some(s)) = v {
            if let ScalarValue::Utf8(Some(rs)) = r {
                if rs.starts_with("\u{1}rendered:") {
                    // the reference itself was taken from a rendered result
                    return Some(r.clone());
                }
            }
            if s.starts_with("\u{1}rendered:") {
                // render the reference the same way
                let arr = r.to_array().ok()?;
                let dec = is_decimal(arr.data_type());
                let s = if arr.is_null(0) { None } else { arrow::util::display::array_value_to_string(&arr, 0).ok().map(|x| format!("\u{1}rendered:{}", if dec { norm_decimal(&x) } else { x })) };
                return Some(ScalarValue::Utf8(s));
            }
        }
        Some(r.clone())
    }

    fn row_text(&self, row: usize) -> String {
        let vals: Vec<String> = self.rows[row].iter().enumerate().map(|(a, i)| self.scalar(a, *i).map(|s| show(&s)).unwrap_or_else(|| "?".into())).collect();
        format!("({})", vals.join(", "))
    }

    fn push(&mut self, rep: &str, symptom: &'static str, row: Option<usize>, what: String) {
        // one finding per (representation, symptom) is enough: the first row is the smallest
        if self.findings.iter().any(|f| f.rep == rep && f.symptom == symptom) {
            return;
        }
        self.findings.push(Finding { class: rep_class(rep), symptom, rep: rep.to_string(), row, what });
    }

    /// Evaluate one chunk of representation `rep`, compare with the reference.
    /// `fill`: rows without reference take this representation's value as reference.
    /// Does every row of the chunk succeed on its own when its (plain, 1-row) arguments are cast to `types`?
    fn rows_alone_succeed(&mut self, rows: &[usize], types: &[DataType]) -> bool {
        for r in rows {
            let args: Option<Vec<ColumnarValue>> = (0..types.len()).map(|a| cast_to(&self.col(a, &[*r]), &types[a]).map(ColumnarValue::Array)).collect();
            let Some(args) = args else { return false };
            self.stats.add("invocations", 1);
            self.stats.add("invocations.variant-rowwise", 1);
            if !matches!(invoke(self.udf, &args, 1, &self.cfg), Out::Ok(..)) {
                return false;
            }
        }
        true
    }

    fn eval_chunk(&mut self, rep: &str, ch: Chunk, n: usize, fill: bool) {
        if self.aborted || (ARMED.load(std::sync::atomic::Ordering::Relaxed) && DEADLINE.get().is_some_and(|d| std::time::Instant::now() > *d)) {
            self.aborted = true;
            return;
        }
        self.stats.add("invocations", 1);
        self.stats.add(&format!("invocations.{}", rep_class(rep)), 1);
        match invoke(self.udf, &ch.args, n, &self.cfg) {
            Out::Defect(sym, what) => {
                let row = ch.rows.first().copied();
                let txt = format!("{rep}: {what}; first row {}", row.map(|r| self.row_text(r)).unwrap_or_default());
                self.push(rep, sym, row, txt);
            }
            Out::Fail(e) => {
                let poisoned = !ch.constants.is_empty()
                    && ch.rows.first().is_some_and(|r0| {
                        let r0 = &self.rows[*r0];
                        (0..self.rows.len()).any(|r| {
                            !self.base_ok[r] && self.base_done && ch.constants.iter().all(|a| self.rows[r][*a] == r0[*a] || self.plan.menus[*a].is_null(r0[*a]))
                        })
                    });
                if poisoned {
                    self.stats.add("constant_rejected_eagerly_allowed", 1);
                }
                let must = ch.must
                    && !poisoned
                    && match &ch.variant_types {
                        None => true,
                        Some(t) => {
                            let ok = self.rows_alone_succeed(&ch.rows, t);
                            if !ok {
                                self.stats.add(&format!("variant_unsupported_by_implementation.{}", rep_class(rep)), 1);
                            }
                            ok
                        }
                    };
                if must {
                    let row = ch.rows.first().copied();
                    let txt = format!(
                        "{rep}: fails with `{}` on a batch of {} row(s) each of which succeeds on its own (with plain arrays, and in this representation's types); first row {}",
                        e.chars().take(300).collect::<String>(),
                        ch.rows.len(),
                        row.map(|r| self.row_text(r)).unwrap_or_default()
                    );
                    self.push(rep, "fails-on-good-rows", row, txt);
                } else {
                    self.stats.add("chunk_failed_allowed", 1);
                }
            }
            Out::Ok(arr, _rf) => {
                let vals = match self.values(&arr) {
                    Ok(v) => v,
                    Err(e) => {
                        let row = ch.rows.first().copied();
                        self.push(rep, "uncastable-result", row, format!("{rep}: {e}"));
                        return;
                    }
                };
                if !self.stats.reps_compared.iter().any(|r| r == rep) {
                    self.stats.reps_compared.push(rep.to_string());
                }
                for (p, row) in ch.rows.iter().enumerate() {
                    let v = &vals[p];
                    match self.reference_for(*row, v) {
                        Some(r) => {
                            self.stats.add("comparisons", 1);
                            if !same(&r, v) {
                                let txt = format!(
                                    "{rep}: row {} gives {} but the row-at-a-time evaluation with plain arrays gives {} (result types: this {} / reference {})",
                                    self.row_text(*row),
                                    show(v),
                                    show(&r),
                                    arr.data_type(),
                                    self.ref_type.as_ref().map(|t| t.to_string()).unwrap_or_default()
                                );
                                self.push(rep, "value-differs", Some(*row), txt);
                            } else if !v.is_null() && rep != "base" {
                                self.stats.add("comparisons_nonnull", 1);
                            }
                        }
                        None => {
                            if fill {
                                self.reference[*row] = Some(v.clone());
                            }
                        }
                    }
                }
            }
        }
    }

    fn col(&self, arg: usize, rows: &[usize]) -> ArrayRef {
        let idx: Vec<usize> = rows.iter().map(|r| self.rows[*r][arg]).collect();
        take1(&self.plan.menus[arg], &idx)
    }

    fn coerce(&self, types: &[DataType]) -> Option<Vec<DataType>> {
        let fields: Vec<_> = types.iter().enumerate().map(|(i, t)| engine::field(i, t)).collect();
        match mc_core::catch(|| fields_with_udf(&fields, self.udf)) {
            Ok(Ok(f)) => Some(f.iter().map(|x| x.data_type().clone()).collect()),
            _ => None,
        }
    }
}

fn cast_to(a: &ArrayRef, t: &DataType) -> Option<ArrayRef> {
    if a.data_type() == t {
        return Some(a.clone());
    }
    if !can_cast_types(a.data_type(), t) {
        return None;
    }
    match mc_core::catch(|| cast_with_options(a, t, &CastOptions { safe: false, ..Default::default() })) {
        Ok(Ok(x)) => Some(x),
        _ => None,
    }
}

struct Opts {
    all_splits: bool,
    rows: Option<Vec<usize>>,
    rep: Option<String>,
}

fn run_grid(udf: &ScalarUDF, plan: &Plan, vary: (usize, usize), opts: &Opts) -> (Vec<Finding>, Stats, Vec<Vec<usize>>) {
    let nargs = plan.types.len();
    let (vi, vj) = vary;
    let mut rows: Vec<Vec<usize>> = vec![];
    if vi == vj {
        for a in 0..plan.menus[vi].len() {
            let mut r = plan.defaults.clone();
            r[vi] = a;
            rows.push(r);
        }
    } else {
        for a in 0..plan.menus[vi].len() {
            for b in 0..plan.menus[vj].len() {
                let mut r = plan.defaults.clone();
                r[vi] = a;
                r[vj] = b;
                rows.push(r);
            }
        }
    }
    if let Some(keep) = &opts.rows {
        rows = keep.iter().filter_map(|k| rows.get(*k).cloned()).collect();
    }
    let nrows = rows.len();
    let mut g = Grid {
        udf,
        plan,
        cfg: engine::cfg(),
        rows,
        reference: vec![None; nrows],
        base_ok: vec![false; nrows],
        base_done: false,
        ref_type: None,
        findings: vec![],
        stats: Stats::default(),
        aborted: false,
    };
    let want = |name: &str| opts.rep.as_ref().map(|r| r == name).unwrap_or(true);

    // ---- base: one 1-row batch per row, plain arrays (always evaluated: it is the reference)
    for r in 0..nrows {
        let args: Vec<ColumnarValue> = (0..nargs).map(|a| ColumnarValue::Array(g.col(a, &[r]))).collect();
        g.eval_chunk("base", Chunk { rows: vec![r], args, must: false, variant_types: None, constants: vec![] }, 1, true);
        g.base_ok[r] = g.reference[r].is_some();
    }
    g.base_done = true;
    let good: Vec<usize> = (0..nrows).filter(|r| g.base_ok[*r]).collect();
    g.stats.add("rows", nrows as u64);
    g.stats.add("rows_ok_in_base", good.len() as u64);

    // ---- const / const3: every argument a constant
    for (name, n) in [("const", 1usize), ("const3", 3usize)] {
        if !want(name) {
            continue;
        }
        for r in 0..nrows {
            let Some(args) = (0..nargs).map(|a| g.scalar(a, g.rows[r][a]).map(ColumnarValue::Scalar)).collect::<Option<Vec<_>>>() else { continue };
            let must = g.base_ok[r];
            g.eval_chunk(name, Chunk { rows: vec![r; n], args, must, variant_types: None, constants: (0..nargs).collect() }, n, name == "const");
        }
    }
    let with_ref: Vec<usize> = (0..nrows).filter(|r| g.reference[*r].is_some()).collect();
    g.stats.add("rows_with_reference", with_ref.len() as u64);

    if !good.is_empty() {
        let cols: Vec<ArrayRef> = (0..nargs).map(|a| g.col(a, &good)).collect();
        let n = good.len();
        // ---- batch
        if want("batch") {
            let args = cols.iter().cloned().map(ColumnarValue::Array).collect();
            g.eval_chunk("batch", Chunk { rows: good.clone(), args, must: true, variant_types: None, constants: vec![] }, n, false);
        }
        if want("batch-full") && good.len() < nrows {
            let all: Vec<usize> = (0..nrows).collect();
            let args = (0..nargs).map(|a| ColumnarValue::Array(g.col(a, &all))).collect();
            g.eval_chunk("batch-full", Chunk { rows: all, args, must: false, variant_types: None, constants: vec![] }, nrows, false);
        }
        // ---- sliced at offset 1: a poison / garbage row before and after
        if want("sliced") {
            let args: Vec<ColumnarValue> = (0..nargs)
                .map(|a| {
                    let m = plan.menus[a].len();
                    let used: Vec<usize> = good.iter().map(|r| g.rows[*r][a]).collect();
                    let garbage = (0..m).rev().find(|i| !used.contains(i)).unwrap_or(m - 1);
                    let pre = take1(&plan.menus[a], &[garbage]);
                    let post = take1(&plan.menus[a], &[g.rows[good[0]][a]]);
                    let long = concat(&[pre.as_ref(), cols[a].as_ref(), post.as_ref()]).expect("concat");
                    ColumnarValue::Array(long.slice(1, n))
                })
                .collect();
            g.eval_chunk("sliced", Chunk { rows: good.clone(), args, must: true, variant_types: None, constants: vec![] }, n, false);
        }
        // ---- split in two
        // thorough: every cut for grids of up to 64 good rows; for larger grids (quadratic work on functions whose
        // single invocation is already expensive) 1, n/2, n-1 and about 32 evenly spaced cuts
        let mut cuts: Vec<usize> = if !opts.all_splits {
            vec![1, n / 2]
        } else if n <= 64 {
            (1..n).collect()
        } else {
            let mut c: Vec<usize> = (1..n).step_by((n / 32).max(1)).collect();
            c.extend([n / 2, n - 1]);
            c.sort();
            c
        };
        if let Some(r) = &opts.rep {
            if let Some(k) = r.strip_prefix("split@").and_then(|k| k.parse::<usize>().ok()) {
                cuts = vec![k];
            }
        }
        cuts.retain(|k| *k >= 1 && *k < n);
        cuts.dedup();
        for k in cuts {
            let name = format!("split@{k}");
            if !want(&name) {
                continue;
            }
            for (lo, len) in [(0, k), (k, n - k)] {
                let args = cols.iter().map(|c| ColumnarValue::Array(c.slice(lo, len))).collect();
                g.eval_chunk(&name, Chunk { rows: good[lo..lo + len].to_vec(), args, must: true, variant_types: None, constants: vec![] }, len, false);
            }
        }
        // ---- flavours
        let fam: Vec<usize> = (0..nargs).filter(|a| !menu::flavours(&plan.types[*a]).is_empty()).collect();
        let mut variants: Vec<(String, Vec<DataType>)> = vec![];
        for &k in &fam {
            for f in menu::flavours(&plan.types[k]) {
                let mut t = plan.types.clone();
                t[k] = f.clone();
                variants.push((format!("flavour:{k}:{f}"), t));
            }
        }
        if fam.len() >= 2 {
            for fl in ["small", "large", "view"] {
                let mut t = plan.types.clone();
                for &k in &fam {
                    let all = {
                        let mut v = menu::flavours(&plan.types[k]);
                        v.push(plan.types[k].clone());
                        v
                    };
                    if let Some(x) = all.into_iter().find(|x| menu::flavour_name(x) == fl) {
                        t[k] = x;
                    }
                }
                if t != plan.types {
                    variants.push((format!("flavour:all:{fl}"), t));
                }
            }
        }
        for (name, t) in variants {
            if !want(&name) {
                continue;
            }
            let Some(co) = g.coerce(&t) else {
                g.stats.add("variant_rejected_by_signature", 1);
                continue;
            };
            if co == plan.types {
                g.stats.add("variant_coerced_back", 1);
                continue;
            }
            let Some(arrs) = (0..nargs).map(|a| cast_to(&cols[a], &co[a])).collect::<Option<Vec<_>>>() else {
                g.stats.add("variant_uncastable_args", 1);
                continue;
            };
            let args = arrs.into_iter().map(ColumnarValue::Array).collect();
            g.eval_chunk(&name, Chunk { rows: good.clone(), args, must: true, variant_types: Some(co.clone()), constants: vec![] }, n, false);
        }
        // ---- dictionary
        for k in 0..nargs {
            if matches!(plan.types[k], DataType::Dictionary(..) | DataType::Null) {
                continue;
            }
            let dense = format!("dict:{k}:dense");
            let sparse = format!("dict:{k}:sparse");
            let nullvalue = format!("dict:{k}:nullvalue");
            if !want(&dense) && !want(&sparse) && !want(&nullvalue) {
                continue;
            }
            let dt = DataType::Dictionary(Box::new(DataType::Int32), Box::new(plan.types[k].clone()));
            let mut t = plan.types.clone();
            t[k] = dt.clone();
            let Some(co) = g.coerce(&t) else {
                g.stats.add("dict_rejected_by_signature", 1);
                continue;
            };
            if !matches!(co[k], DataType::Dictionary(..)) {
                g.stats.add("dict_coerced_away", 1);
                continue;
            }
            let Some(others) = (0..nargs).map(|a| if a == k { Some(cols[a].clone()) } else { cast_to(&cols[a], &co[a]) }).collect::<Option<Vec<_>>>() else { continue };
            // dense: arrow's own packing
            if want(&dense) {
                if let Some(d) = cast_to(&cols[k], &dt).and_then(|d| cast_to(&d, &co[k])) {
                    let mut arrs = others.clone();
                    arrs[k] = d;
                    let args = arrs.into_iter().map(ColumnarValue::Array).collect();
                    g.eval_chunk(&dense, Chunk { rows: good.clone(), args, must: true, variant_types: Some(co.clone()), constants: vec![] }, n, false);
                }
            }
            // sparse: the whole menu as dictionary values (entries no row uses, in menu order), NULL rows = NULL keys;
            // nullvalue: the same, NULL rows = keys of the NULL dictionary value
            for (name, null_as_value) in [(&sparse, false), (&nullvalue, true)] {
                if !want(name) {
                    continue;
                }
                let keys: Vec<Option<i32>> = good
                    .iter()
                    .map(|r| {
                        let i = g.rows[*r][k];
                        if plan.menus[k].is_null(i) && !null_as_value { None } else { Some(i as i32) }
                    })
                    .collect();
                if null_as_value && !good.iter().any(|r| plan.menus[k].is_null(g.rows[*r][k])) {
                    continue;
                }
                let built = mc_core::catch(|| DictionaryArray::<Int32Type>::try_new(Int32Array::from(keys), plan.menus[k].clone()));
                if let Ok(Ok(d)) = built {
                    let d: ArrayRef = Arc::new(d);
                    if let Some(d) = cast_to(&d, &co[k]) {
                        let mut arrs = others.clone();
                        arrs[k] = d;
                        let args = arrs.into_iter().map(ColumnarValue::Array).collect();
                        g.eval_chunk(name, Chunk { rows: good.clone(), args, must: true, variant_types: Some(co.clone()), constants: vec![] }, n, false);
                    }
                }
            }
        }
    }

    // ---- scalar:i — one varied argument (and the fixed ones) constant, the other varied one an array
    if vi != vj && !with_ref.is_empty() {
        for (s, o) in [(vi, vj), (vj, vi)] {
            let name = format!("scalar:{s}");
            if !want(&name) {
                continue;
            }
            for a in 0..plan.menus[s].len() {
                let rs: Vec<usize> = with_ref.iter().copied().filter(|r| g.rows[*r][s] == a).collect();
                if rs.is_empty() {
                    continue;
                }
                let Some(args) = (0..nargs)
                    .map(|x| if x == o { Some(ColumnarValue::Array(g.col(x, &rs))) } else { g.scalar(x, g.rows[rs[0]][x]).map(ColumnarValue::Scalar) })
                    .collect::<Option<Vec<_>>>()
                else {
                    continue;
                };
                let must = rs.iter().all(|r| g.base_ok[*r]);
                let n = rs.len();
                g.eval_chunk(&name, Chunk { rows: rs, args, must, variant_types: None, constants: (0..nargs).filter(|x| *x != o).collect() }, n, false);
            }
        }
        if nargs > 2 && want("scalar:fixed") {
            let Some(args) = (0..nargs)
                .map(|x| if x == vi || x == vj { Some(ColumnarValue::Array(g.col(x, &with_ref))) } else { g.scalar(x, g.rows[with_ref[0]][x]).map(ColumnarValue::Scalar) })
                .collect::<Option<Vec<_>>>()
            else {
                return g.finish();
            };
            let must = with_ref.iter().all(|r| g.base_ok[*r]);
            let n = with_ref.len();
            g.eval_chunk("scalar:fixed", Chunk { rows: with_ref.clone(), args, must, variant_types: None, constants: (0..nargs).filter(|x| *x != vi && *x != vj).collect() }, n, false);
        }
    }

    // non-trivial: ≥ 2 distinct reference values, and some other representation produced a compared non-NULL value
    let mut distinct: Vec<&ScalarValue> = vec![];
    for r in g.reference.iter().flatten() {
        if !distinct.iter().any(|d| *d == r) {
            distinct.push(r);
        }
        if distinct.len() >= 2 {
            break;
        }
    }
    g.stats.nontrivial = distinct.len() >= 2 && g.stats.c.get("comparisons_nonnull").copied().unwrap_or(0) > 0;
    g.finish()
}

// ------------------------------------------------------------------------------------------------

/// Detection demo (only with C32_DEMO=1, and for replaying its cases): an `upper`-like function whose
/// constant fast path ignores NULL and whose view path drops everything after 12 bytes.
mod demo {
    use super::*;
    use arrow::array::{AsArray, StringArray, StringViewArray};
    use datafusion::logical_expr::{ScalarFunctionArgs, ScalarUDFImpl, Signature, Volatility};

    #[derive(Debug, PartialEq, Eq, Hash)]
    pub struct DemoUpper {
        sig: Signature,
    }
    impl DemoUpper {
        pub fn new() -> Self {
            Self { sig: Signature::string(1, Volatility::Immutable) }
        }
    }
    impl ScalarUDFImpl for DemoUpper {
        fn name(&self) -> &str {
            "c32_demo_upper"
        }
        fn signature(&self) -> &Signature {
            &self.sig
        }
        fn return_type(&self, arg_types: &[DataType]) -> datafusion::common::Result<DataType> {
            Ok(if arg_types[0] == DataType::Utf8View { DataType::Utf8View } else { DataType::Utf8 })
        }
        fn invoke_with_args(&self, args: ScalarFunctionArgs) -> datafusion::common::Result<ColumnarValue> {
            match &args.args[0] {
                // planted defect 1: the constant path maps NULL to ''
                ColumnarValue::Scalar(s) => {
                    let v = match s {
                        ScalarValue::Utf8(v) | ScalarValue::LargeUtf8(v) | ScalarValue::Utf8View(v) => v.clone().unwrap_or_default().to_uppercase(),
                        _ => String::new(),
                    };
                    Ok(ColumnarValue::Scalar(if matches!(s, ScalarValue::Utf8View(_)) { ScalarValue::Utf8View(Some(v)) } else { ScalarValue::Utf8(Some(v)) }))
                }
                ColumnarValue::Array(a) => match a.data_type() {
                    // planted defect 2: the view path keeps only the 12 inlined bytes' worth of characters
                    DataType::Utf8View => {
                        let out: StringViewArray = a
                            .as_string_view()
                            .iter()
                            .map(|v| {
                                v.map(|s| {
                                    let mut cut = s.len().min(12);
                                    while !s.is_char_boundary(cut) {
                                        cut -= 1;
                                    }
                                    s[..cut].to_uppercase()
                                })
                            })
                            .collect();
                        Ok(ColumnarValue::Array(Arc::new(out)))
                    }
                    DataType::LargeUtf8 => {
                        let out: StringArray = a.as_string::<i64>().iter().map(|v| v.map(|s| s.to_uppercase())).collect();
                        Ok(ColumnarValue::Array(Arc::new(out)))
                    }
                    _ => {
                        let out: StringArray = a.as_string::<i32>().iter().map(|v| v.map(|s| s.to_uppercase())).collect();
                        Ok(ColumnarValue::Array(Arc::new(out)))
                    }
                },
            }
        }
    }
    pub fn functions() -> Vec<Arc<ScalarUDF>> {
        vec![Arc::new(ScalarUDF::new_from_impl(DemoUpper::new()))]
    }
}

fn registry(name: &str) -> Vec<Arc<ScalarUDF>> {
    if name == "demo" { demo::functions() } else { engine::registry(name) }
}

fn find_udf(reg: &str, name: &str) -> Option<Arc<ScalarUDF>> {
    registry(reg).into_iter().find(|u| u.name() == name)
}

fn key_of(func: &str, types: &[String], f: &Finding) -> String {
    format!("{func}|{}|{}|{}", types.join(","), f.class, f.symptom)
}

/// Replay: Err(what) iff the case shows a violation.
fn run_case(c: &Case) -> Result<(), String> {
    let udf = find_udf(&c.registry, &c.func).ok_or_else(|| format!("machinery: function {} not in registry {}", c.func, c.registry))?;
    let (lists, _) = engine::type_lists(&udf, SIG_CAP_MAX);
    let types = lists.get(c.sig).ok_or("machinery: signature index out of range")?;
    let shown: Vec<String> = types.iter().map(|t| t.to_string()).collect();
    if shown != c.types {
        return Err(format!("machinery: type list {} is now {:?}, the case recorded {:?}", c.sig, shown, c.types));
    }
    let cfg = engine::cfg();
    let plan = engine::plan(&udf, types, &cfg).ok_or("machinery: no menu")?;
    let (findings, _, _) = run_grid(&udf, &plan, c.vary, &Opts { all_splits: false, rows: c.rows.clone(), rep: c.rep.clone() });
    match findings.first() {
        None => Ok(()),
        Some(f) => Err(format!("[{}] {}", key_of(&c.func, &c.types, f), f.what)),
    }
}

struct TaskOut {
    violations: Vec<(String, String, Case)>,
    counters: BTreeMap<String, u64>,
    nontrivial: Vec<String>,
    sample: Option<Value>,
    evaluated: u64,
}

fn run_task(reg: &str, udf: &ScalarUDF, sig: usize, types: &[DataType], thorough: bool, stop: &dyn Fn() -> bool) -> TaskOut {
    let mut out = TaskOut { violations: vec![], counters: BTreeMap::new(), nontrivial: vec![], sample: None, evaluated: 0 };
    let cfg = engine::cfg();
    let Some(plan) = engine::plan(udf, types, &cfg) else {
        return out;
    };
    *out.counters.entry("probe_invocations".into()).or_insert(0) += plan.probe_evals;
    let n = types.len();
    let tnames: Vec<String> = types.iter().map(|t| t.to_string()).collect();
    let mut pairs: Vec<(usize, usize)> = vec![];
    if n == 1 {
        pairs.push((0, 0));
    } else {
        for i in 0..n {
            for j in i + 1..n {
                pairs.push((i, j));
            }
        }
    }
    for vary in pairs {
        if stop() {
            break;
        }
        let (findings, stats, rows) = run_grid(udf, &plan, vary, &Opts { all_splits: false, rows: None, rep: None });
        out.evaluated += 1;
        for (k, v) in &stats.c {
            *out.counters.entry(k.clone()).or_insert(0) += v;
        }
        let base = Case { registry: reg.to_string(), func: udf.name().to_string(), sig, types: tnames.clone(), vary, rows: None, rep: None, shown: None };
        if stats.nontrivial {
            out.nontrivial.push(format!("{}|{}|{:?}", udf.name(), tnames.join(","), vary));
            if out.sample.is_none() {
                out.sample = Some(json!({"function": udf.name(), "types": tnames, "vary": [vary.0, vary.1], "rows": rows.len(),
                    "rows_ok_in_base": stats.c.get("rows_ok_in_base"), "invocations": stats.c.get("invocations"),
                    "comparisons": stats.c.get("comparisons"), "representations_compared": stats.reps_compared}));
            }
        }
        for f in findings {
            // minimise: the one row in the one representation; else the representation on the whole grid
            let mut reduced: Option<Case> = None;
            if let Some(r) = f.row {
                let mut tries: Vec<Vec<usize>> = vec![vec![r]];
                if r > 0 {
                    tries.push(vec![r - 1, r]);
                }
                if r + 1 < rows.len() {
                    tries.push(vec![r, r + 1]);
                }
                for t in tries {
                    let c = Case { rows: Some(t.clone()), rep: Some(f.rep.clone()), ..base.clone() };
                    let (ff, _, _) = run_grid(udf, &plan, vary, &Opts { all_splits: false, rows: c.rows.clone(), rep: c.rep.clone() });
                    if ff.iter().any(|x| x.class == f.class && x.symptom == f.symptom) {
                        let shown: Vec<Value> = t
                            .iter()
                            .map(|ri| json!(rows[*ri].iter().enumerate().map(|(a, i)| ScalarValue::try_from_array(&plan.menus[a], *i).map(|s| show(&s)).unwrap_or_default()).collect::<Vec<_>>()))
                            .collect();
                        reduced = Some(Case { shown: Some(json!(shown)), ..c });
                        break;
                    }
                }
            }
            let case = reduced.unwrap_or_else(|| Case { rep: Some(f.rep.clone()), ..base.clone() });
            // make sure the recorded case reproduces through the replay path's own filter
            let (ff, _, _) = run_grid(udf, &plan, vary, &Opts { all_splits: false, rows: case.rows.clone(), rep: case.rep.clone() });
            let case = if ff.is_empty() { base.clone() } else { case };
            out.violations.push((key_of(udf.name(), &tnames, &f), f.what.clone(), case));
        }
    }
    out
}

fn explore(ctx: &Ctx) {
    // both tiers: 6 type lists per function (more made single functions with nested outputs run for tens of minutes);
    // the thorough tier adds the spark registry and the finer batch cuts
    let cap = 6;
    let demo = std::env::var("C32_DEMO").map(|v| v == "1").unwrap_or(false);
    let only: Option<String> = std::env::var("C32_ONLY").ok();
    let trace = std::env::var("C32_TRACE").is_ok();
    let mut regs: Vec<&str> = vec!["default"];
    // The spark registry, 12 type lists per function and every batch cut were the planned thorough tier; with them
    // single functions run for tens of minutes (nested outputs converted row by row), the run did not finish inside
    // the 45-minute cap and what it reported depended on where the cap fell.  Until the grid evaluation is made
    // incremental the thorough tier explores what the quick tier explores (C32_SPARK=1 adds the spark registry).
    if std::env::var_os("C32_SPARK").is_some() {
        regs.push("spark");
    }
    if demo {
        regs.push("demo");
    }
    let mut skipped: BTreeMap<String, Vec<String>> = BTreeMap::new();
    let mut tasks: Vec<(String, Arc<ScalarUDF>, usize, Vec<DataType>)> = vec![];
    let mut n_funcs = 0u64;
    let mut n_considered = 0u64;
    let mut seen_names: std::collections::HashSet<String> = Default::default();
    for reg in &regs {
        let funcs = registry(reg);
        // signature discovery is itself a few thousand coercion calls per function: do it in parallel
        let lists: Vec<_> = funcs
            .par_iter()
            .map(|u| {
                if let Some(o) = &only {
                    if u.name() != o {
                        return (u.clone(), None, "filtered");
                    }
                }
                if engine::excluded(u.name()).is_some() {
                    return (u.clone(), None, "excluded: inspects physical type / session");
                }
                if engine::is_volatile(u) {
                    return (u.clone(), None, "volatile");
                }
                let (l, st) = engine::type_lists(u, cap);
                (u.clone(), Some((l, st)), "")
            })
            .collect();
        for (u, l, why) in lists {
            if why == "filtered" {
                continue;
            }
            n_considered += 1;
            let qual = format!("{reg}:{}", u.name());
            if !seen_names.insert(qual.clone()) {
                continue;
            }
            match l {
                None => skipped.entry(why.to_string()).or_default().push(qual),
                Some((l, st)) => {
                    if l.is_empty() {
                        let why = if st.candidates_accepted == 0 { "no argument list accepted (nullary or exotic signature)" } else { "no value menu for the accepted types" };
                        skipped.entry(why.to_string()).or_default().push(qual);
                        continue;
                    }
                    n_funcs += 1;
                    ctx.count("signatures_exercised", l.len() as u64);
                    ctx.count("signatures_distinct_accepted", st.distinct_lists as u64);
                    ctx.count("signatures_without_menu", st.no_menu as u64);
                    for (i, t) in l.into_iter().enumerate() {
                        tasks.push((reg.to_string(), u.clone(), i, t));
                    }
                }
            }
        }
    }
    ctx.count("functions_considered", n_considered);
    ctx.count("functions_exercised", n_funcs);
    ctx.set_extra(
        "bounds",
        json!({
            "registries": regs, "type_lists_per_function": cap, "probe_alphabet": menu::probe_alphabet().iter().map(|t| t.to_string()).collect::<Vec<_>>(),
            "menu": "NULL, empty/zero, ASCII/typical, multibyte/negative, >12 bytes, NaN/inf/MIN/MAX; <= 3 probe-selected pool strings per string argument",
            "varied_arguments": "every pair (others fixed at default)", "splits": "cuts at 1 and n/2",
            "representations": ["base", "const", "const3", "batch", "batch-full", "sliced", "split@k", "scalar:i", "scalar:fixed", "flavour:k:T", "flavour:all:F", "dict:k:dense", "dict:k:sparse", "dict:k:nullvalue"],
        }),
    );
    ctx.set_extra("excluded_inspects_physical_type", json!(engine::EXCLUDED.iter().map(|(n, w)| format!("{n}: {w}")).collect::<Vec<_>>()));
    ctx.set_extra("skipped_functions", json!(skipped));
    println!("excluded (inspect physical type / session): {}", engine::EXCLUDED.iter().map(|x| x.0).collect::<Vec<_>>().join(", "));
    for (why, v) in &skipped {
        println!("skipped [{why}]: {}", v.join(", "));
    }
    println!("functions exercised: {n_funcs} of {n_considered}; (function, type list) tasks: {}", tasks.len());

    let thorough = ctx.thorough();
    // deadline for grids in flight (a single grid may take minutes): the same wall cap as mc-core's
    let cap_s = std::env::var("VERIF_WALL_CAP_S").ok().and_then(|v| v.parse::<u64>().ok()).unwrap_or(if ctx.thorough() { 45 * 60 } else { 55 });
    let _ = DEADLINE.set(std::time::Instant::now() + std::time::Duration::from_secs(cap_s));
    ARMED.store(true, std::sync::atomic::Ordering::Relaxed);
    let outs: Vec<TaskOut> = {
        let o: Vec<TaskOut> = tasks
        .par_iter()
        .map(|(reg, u, i, t)| {
            if ctx.should_stop() {
                return TaskOut { violations: vec![], counters: BTreeMap::new(), nontrivial: vec![], sample: None, evaluated: 0 };
            }
            if trace {
                eprintln!("task {}:{} {:?}", reg, u.name(), t.iter().map(|x| x.to_string()).collect::<Vec<_>>());
            }
            let t0 = std::time::Instant::now();
            let o = run_task(reg, u, *i, t, thorough, &|| ctx.out_of_time());
            if trace {
                eprintln!("done {}:{} {:?} in {:?}", reg, u.name(), t.iter().map(|x| x.to_string()).collect::<Vec<_>>(), t0.elapsed());
            }
            o
        })
        .collect();
        o
    };
    ARMED.store(false, std::sync::atomic::Ordering::Relaxed);
    let mut unfinished = 0u64;
    let mut roots: BTreeMap<String, Vec<String>> = BTreeMap::new();
    for o in outs {
        if o.evaluated == 0 {
            unfinished += 1;
        }
        for (k, v) in o.counters {
            if k == "invocations" {
                ctx.evals(v);
            }
            ctx.count(&k, v);
        }
        for k in &o.nontrivial {
            ctx.nontrivial(k);
        }
        if let Some(s) = o.sample {
            if ctx.want_sample() {
                ctx.sample(s);
            }
        }
        for (key, what, case) in o.violations {
            // one reported case per (function, representation class, symptom): the first (simplest) type list;
            // further type lists showing the same symptom are listed in the evidence only
            let parts: Vec<&str> = key.split('|').collect();
            let root = format!("{}|{}|{}", parts.first().unwrap_or(&""), parts.get(parts.len().saturating_sub(2)).unwrap_or(&""), parts.last().unwrap_or(&""));
            let n = roots.entry(root).or_insert_with(Vec::new);
            n.push(key.clone());
            if n.len() == 1 {
                ctx.violation(key, what, serde_json::to_value(&case).unwrap());
            }
        }
    }
    ctx.set_extra("findings_by_root", json!(roots));
    ctx.count("tasks_not_evaluated", unfinished);
    if DEADLINE.get().is_some_and(|d| std::time::Instant::now() > *d) {
        ctx.mark_capped("wall cap reached: grids in flight were abandoned and later tasks not evaluated");
    }
    ctx.count("oversized_allocations_refused", engine::REFUSED_ALLOCATIONS.load(std::sync::atomic::Ordering::Relaxed));
}

fn replay(v: &Value) -> Result<(), String> {
    let c: Case = serde_json::from_value(v.clone()).map_err(|e| format!("bad case: {e}"))?;
    mc_core::catch(|| run_case(&c)).unwrap_or_else(Err)
}

/// Keep a runaway allocation inside a function from taking the machine down: cap the address space.
fn limit_address_space(bytes: u64) {
    #[repr(C)]
    struct RLimit {
        cur: u64,
        max: u64,
    }
    unsafe extern "C" {
        fn setrlimit(resource: i32, rlim: *const RLimit) -> i32;
    }
    const RLIMIT_AS: i32 = 9;
    let r = RLimit { cur: bytes, max: bytes };
    unsafe {
        setrlimit(RLIMIT_AS, &r);
    }
}

fn main() {
    if std::env::var_os("VERIF_LOUD_PANICS").is_none() {
        mc_core::quiet_panics();
    }
    limit_address_space(48 << 30);
    if std::env::args().any(|a| a == "--list") {
        for reg in ["default", "spark"] {
            for u in registry(reg) {
                let (l, st) = engine::type_lists(&u, SIG_CAP_MAX);
                println!("{reg}:{} volatile={} excluded={:?} sig={:?} stats={:?}", u.name(), engine::is_volatile(&u), engine::excluded(u.name()), u.signature().type_signature, st);
                for t in l {
                    println!("    {}", t.iter().map(|x| x.to_string()).collect::<Vec<_>>().join(", "));
                }
            }
        }
        return;
    }
    run_check(
        "C32",
        Level::Exploration,
        "every non-volatile, non-excluded scalar function x <= N coerced argument-type lists x every pair of varied arguments over the per-type value menus x \
         representations (constants, one batch, sliced, split, constant+array, string/binary flavours, dictionary); one evaluation = one invoke_with_args call; \
         non-trivial = a (function, type list, varied pair) whose reference values are not all equal and for which a representation other than the baseline \
         produced a compared non-NULL value",
        explore,
        replay,
    );
}
