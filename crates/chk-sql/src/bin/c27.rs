//! C27 — partition-value pruning of listing tables never drops matching files.
//!
//! Hive-partitioned Parquet layouts (1–3 partition columns of type Utf8 / Int32
//! / Date32, tricky values) are built in an `InMemory` object store; every
//! layout is queried with every filter of a small grammar over partition and
//! data columns.
//!
//! Checks per (layout, filter):
//!  (A) *direct* — only for filters over partition columns: the real
//!      `pruned_partition_list(state, store, url, filters, ".parquet", cols)`
//!      returns a set of files that (1) contains every file whose partition
//!      values satisfy the filter (reference: own evaluator), (2) contains only
//!      files that belong to the table (no stray), and (3) carries, for every
//!      file, exactly the partition values its path was built from
//!      (`parse_partitions_for_path` is also called directly).
//!  (B) *end to end* — `SELECT v, <partition cols> FROM t WHERE <filter>` through
//!      a real `ListingTable` equals the reference: all rows of all table files
//!      filtered by the own evaluator (scan everything, then filter).
//!
//! Directory spelling: `native` = "col=" + value joined with
//! `object_store::path::Path::join`, which is what DataFusion's own hive writer
//! does (`compute_hive_style_file_path`); `hive` = Hive's `escapePathName`
//! (what Hive / Spark writers produce: more characters %XX-escaped).
use arrow::array::{ArrayRef, Int64Array, RecordBatch};
use arrow::datatypes::{DataType, Field, Schema, SchemaRef};
use bytes::Bytes;
use chk_sql::sqlmc::engine::block_on;
use datafusion::datasource::file_format::parquet::ParquetFormat;
use datafusion::datasource::listing::{ListingOptions, ListingTable, ListingTableConfig, ListingTableUrl};
use datafusion::execution::runtime_env::RuntimeEnvBuilder;
use datafusion::prelude::{Expr, SessionConfig, SessionContext, col, lit, not};
use datafusion_catalog_listing::helpers::{parse_partitions_for_path, pruned_partition_list};
use datafusion_common::ScalarValue;
use datafusion_execution::cache::cache_manager::CacheManagerConfig;
use futures::TryStreamExt;
use mc_core::serde_json::{Value as Json, json};
use mc_core::{Ctx, Level, rayon::prelude::*, run_check};
use object_store::memory::InMemory;
use object_store::path::Path;
use object_store::{ObjectStore, ObjectStoreExt, PutPayload};
use serde::{Deserialize, Serialize};
use std::collections::{BTreeMap, BTreeSet};
use std::sync::Arc;

// ---------------------------------------------------------------------------
// case description
// ---------------------------------------------------------------------------

#[derive(Serialize, Deserialize, Clone, Copy, Debug, Hash, PartialEq, Eq, PartialOrd, Ord)]
enum Ty {
    Str,
    Int,
    Date,
}

#[derive(Serialize, Deserialize, Clone, Copy, Debug, Hash, PartialEq, Eq, PartialOrd, Ord)]
enum Spelling {
    Native,
    Hive,
}

#[derive(Serialize, Deserialize, Clone, Copy, Debug, Hash, PartialEq, Eq, PartialOrd, Ord)]
enum Loc {
    /// mem://b/t/
    Dir,
    /// mem://b/t
    NoSlash,
    /// mem://b/   (table at the store root)
    Root,
    /// mem://b/t/ with glob `f1*`
    Glob,
}

#[derive(Serialize, Deserialize, Clone, Debug, Hash, PartialEq, Eq, PartialOrd, Ord)]
struct Layout {
    /// partition columns in directory order
    cols: Vec<(String, Ty)>,
    /// one directory per entry: its partition values; directory i holds file
    /// `f{i}.parquet` with rows v = 10*i, 10*i+1; directory 0 also `f{n}.parquet`
    dirs: Vec<Vec<String>>,
    spelling: Spelling,
    /// add files that are not part of the table (wrong extension, too shallow,
    /// nested in a non-partition sub-directory, sibling prefix), all garbage
    strays: bool,
}

#[derive(Serialize, Deserialize, Clone, Copy, Debug, Hash, PartialEq, Eq, PartialOrd, Ord)]
enum Op {
    Eq,
    Ne,
    Lt,
    Ge,
}

/// column reference: partition column index, or the data column `v`
#[derive(Serialize, Deserialize, Clone, Copy, Debug, Hash, PartialEq, Eq, PartialOrd, Ord)]
enum C {
    P(usize),
    V,
}

#[derive(Serialize, Deserialize, Clone, Debug, Hash, PartialEq, Eq, PartialOrd, Ord)]
enum F {
    /// col op literal (or literal op' col when `flip`)
    Cmp { c: C, op: Op, lit: String, flip: bool },
    ColCmp { a: usize, b: usize, op: Op },
    In { c: C, lits: Vec<String>, neg: bool },
    IsNull { c: C, neg: bool },
    Not(Box<F>),
    And(Box<F>, Box<F>),
    Or(Box<F>, Box<F>),
}

#[derive(Serialize, Deserialize, Clone, Debug, Hash)]
struct Case {
    layout: Layout,
    loc: Loc,
    /// list-files cache enabled (the default) or disabled
    cache: bool,
    filter: F,
}

// ---------------------------------------------------------------------------
// reference model
// ---------------------------------------------------------------------------

#[derive(Clone, Debug, PartialEq, Eq, PartialOrd, Ord)]
enum Val {
    S(String),
    I(i64),
}

fn typed(ty: Ty, s: &str) -> Val {
    match ty {
        Ty::Str | Ty::Date => Val::S(s.to_string()), // ISO dates order like strings
        Ty::Int => Val::I(s.parse().expect("int literal")),
    }
}

struct RefRow<'a> {
    layout: &'a Layout,
    dir: usize,
    v: i64,
}

impl RefRow<'_> {
    fn ty(&self, c: C) -> Ty {
        match c {
            C::P(i) => self.layout.cols[i].1,
            C::V => Ty::Int,
        }
    }
    fn val(&self, c: C) -> Val {
        match c {
            C::P(i) => typed(self.layout.cols[i].1, &self.layout.dirs[self.dir][i]),
            C::V => Val::I(self.v),
        }
    }
}

fn cmp(op: Op, a: &Val, b: &Val) -> bool {
    match op {
        Op::Eq => a == b,
        Op::Ne => a != b,
        Op::Lt => a < b,
        Op::Ge => a >= b,
    }
}

fn flip_op(op: Op) -> Op {
    // lit op' col  ==  col op lit
    op
}

/// No NULLs exist anywhere (hive partition values and `v` are never NULL), so
/// two-valued logic is exact here.
fn eval(f: &F, r: &RefRow) -> bool {
    match f {
        F::Cmp { c, op, lit, .. } => cmp(flip_op(*op), &r.val(*c), &typed(r.ty(*c), lit)),
        F::ColCmp { a, b, op } => cmp(*op, &r.val(C::P(*a)), &r.val(C::P(*b))),
        F::In { c, lits, neg } => {
            let x = r.val(*c);
            lits.iter().any(|l| typed(r.ty(*c), l) == x) != *neg
        }
        F::IsNull { neg, .. } => *neg,
        F::Not(a) => !eval(a, r),
        F::And(a, b) => eval(a, r) && eval(b, r),
        F::Or(a, b) => eval(a, r) || eval(b, r),
    }
}

fn uses_data(f: &F) -> bool {
    match f {
        F::Cmp { c, .. } | F::In { c, .. } | F::IsNull { c, .. } => *c == C::V,
        F::ColCmp { .. } => false,
        F::Not(a) => uses_data(a),
        F::And(a, b) | F::Or(a, b) => uses_data(a) || uses_data(b),
    }
}

fn conjuncts(f: &F, out: &mut Vec<F>) {
    match f {
        F::And(a, b) => {
            conjuncts(a, out);
            conjuncts(b, out);
        }
        _ => out.push(f.clone()),
    }
}

// ---------------------------------------------------------------------------
// rendering
// ---------------------------------------------------------------------------

fn col_name(l: &Layout, c: C) -> String {
    match c {
        C::P(i) => l.cols[i].0.clone(),
        C::V => "v".to_string(),
    }
}

fn sql_lit(ty: Ty, s: &str) -> String {
    match ty {
        Ty::Str => format!("'{}'", s.replace('\'', "''")),
        Ty::Int => s.to_string(),
        Ty::Date => format!("DATE '{s}'"),
    }
}

fn ty_of(l: &Layout, c: C) -> Ty {
    match c {
        C::P(i) => l.cols[i].1,
        C::V => Ty::Int,
    }
}

fn op_sql(op: Op) -> &'static str {
    match op {
        Op::Eq => "=",
        Op::Ne => "<>",
        Op::Lt => "<",
        Op::Ge => ">=",
    }
}

/// the operator to write when the literal is on the left
fn mirrored(op: Op) -> &'static str {
    match op {
        Op::Eq => "=",
        Op::Ne => "<>",
        Op::Lt => ">",
        Op::Ge => "<=",
    }
}

fn sql(l: &Layout, f: &F) -> String {
    match f {
        F::Cmp { c, op, lit, flip } => {
            let (n, v) = (col_name(l, *c), sql_lit(ty_of(l, *c), lit));
            if *flip { format!("{v} {} {n}", mirrored(*op)) } else { format!("{n} {} {v}", op_sql(*op)) }
        }
        F::ColCmp { a, b, op } => format!("{} {} {}", l.cols[*a].0, op_sql(*op), l.cols[*b].0),
        F::In { c, lits, neg } => {
            let ty = ty_of(l, *c);
            let ls: Vec<String> = lits.iter().map(|x| sql_lit(ty, x)).collect();
            format!("{} {}IN ({})", col_name(l, *c), if *neg { "NOT " } else { "" }, ls.join(", "))
        }
        F::IsNull { c, neg } => format!("{} IS {}NULL", col_name(l, *c), if *neg { "NOT " } else { "" }),
        F::Not(a) => format!("NOT ({})", sql(l, a)),
        F::And(a, b) => format!("({}) AND ({})", sql(l, a), sql(l, b)),
        F::Or(a, b) => format!("({}) OR ({})", sql(l, a), sql(l, b)),
    }
}

fn arrow_ty(t: Ty) -> DataType {
    match t {
        Ty::Str => DataType::Utf8,
        Ty::Int => DataType::Int32,
        Ty::Date => DataType::Date32,
    }
}

fn scalar(ty: Ty, s: &str) -> ScalarValue {
    match ty {
        Ty::Str => ScalarValue::Utf8(Some(s.to_string())),
        Ty::Int => ScalarValue::Int32(Some(s.parse().unwrap())),
        Ty::Date => {
            let d = chrono::NaiveDate::parse_from_str(s, "%Y-%m-%d").unwrap();
            let epoch = chrono::NaiveDate::from_ymd_opt(1970, 1, 1).unwrap();
            ScalarValue::Date32(Some((d - epoch).num_days() as i32))
        }
    }
}

/// typed `Expr` for a partition-only filter (no coercion needed afterwards)
fn expr(l: &Layout, f: &F) -> Expr {
    let lit_of = |c: C, s: &str| match c {
        C::P(i) => lit(scalar(l.cols[i].1, s)),
        C::V => lit(ScalarValue::Int64(Some(s.parse().unwrap()))),
    };
    let bin = |a: Expr, op: Op, b: Expr| match op {
        Op::Eq => a.eq(b),
        Op::Ne => a.not_eq(b),
        Op::Lt => a.lt(b),
        Op::Ge => a.gt_eq(b),
    };
    match f {
        F::Cmp { c, op, lit: s, flip } => {
            let (cc, ll) = (col(col_name(l, *c)), lit_of(*c, s));
            if *flip {
                match op {
                    Op::Eq => ll.eq(cc),
                    Op::Ne => ll.not_eq(cc),
                    Op::Lt => ll.gt(cc),
                    Op::Ge => ll.lt_eq(cc),
                }
            } else {
                bin(cc, *op, ll)
            }
        }
        F::ColCmp { a, b, op } => bin(col(l.cols[*a].0.clone()), *op, col(l.cols[*b].0.clone())),
        F::In { c, lits, neg } => col(col_name(l, *c)).in_list(lits.iter().map(|s| lit_of(*c, s)).collect(), *neg),
        F::IsNull { c, neg } => {
            if *neg {
                col(col_name(l, *c)).is_not_null()
            } else {
                col(col_name(l, *c)).is_null()
            }
        }
        F::Not(a) => not(expr(l, a)),
        F::And(a, b) => expr(l, a).and(expr(l, b)),
        F::Or(a, b) => expr(l, a).or(expr(l, b)),
    }
}

// ---------------------------------------------------------------------------
// building the store
// ---------------------------------------------------------------------------

/// Hive's `FileUtils.escapePathName`: these characters (and controls) become %XX.
fn hive_escape(v: &str) -> String {
    const SPECIAL: &str = "\"#%'*/:=?\\\u{7f}{[]^";
    let mut out = String::new();
    for ch in v.chars() {
        if (ch as u32) < 0x20 || SPECIAL.contains(ch) {
            out.push_str(&format!("%{:02X}", ch as u32));
        } else {
            out.push(ch);
        }
    }
    out
}

fn table_prefix(loc: Loc) -> Vec<&'static str> {
    match loc {
        Loc::Root => vec![],
        _ => vec!["t"],
    }
}

fn dir_path(l: &Layout, loc: Loc, dir: usize) -> Path {
    let prefix = table_prefix(loc);
    match l.spelling {
        Spelling::Native => {
            let mut p = Path::from_iter(prefix);
            for (i, (name, _)) in l.cols.iter().enumerate() {
                p = p.join(format!("{name}={}", l.dirs[dir][i]));
            }
            p
        }
        Spelling::Hive => {
            let mut segs: Vec<String> = prefix.iter().map(|s| s.to_string()).collect();
            for (i, (name, _)) in l.cols.iter().enumerate() {
                segs.push(format!("{name}={}", hive_escape(&l.dirs[dir][i])));
            }
            Path::parse(segs.join("/")).expect("hive path")
        }
    }
}

/// (dir index, file name) of every file that belongs to the table
fn table_files(l: &Layout) -> Vec<(usize, String)> {
    let n = l.dirs.len();
    let mut v: Vec<(usize, String)> = (0..n).map(|i| (i, format!("f{i}.parquet"))).collect();
    v.push((0, format!("f{n}.parquet")));
    v
}

fn file_rows(l: &Layout, dir: usize, name: &str) -> Vec<i64> {
    let idx: i64 = name.trim_start_matches('f').trim_end_matches(".parquet").parse().unwrap();
    let _ = (l, dir);
    vec![idx * 10, idx * 10 + 1]
}

fn file_schema() -> SchemaRef {
    Arc::new(Schema::new(vec![Field::new("v", DataType::Int64, true)]))
}

fn parquet_bytes(vs: &[i64]) -> Bytes {
    let batch = RecordBatch::try_new(file_schema(), vec![Arc::new(Int64Array::from(vs.to_vec())) as ArrayRef]).unwrap();
    let mut buf = vec![];
    let mut w = parquet::arrow::ArrowWriter::try_new(&mut buf, file_schema(), None).unwrap();
    w.write(&batch).unwrap();
    w.close().unwrap();
    Bytes::from(buf)
}

fn build_store(l: &Layout, loc: Loc) -> Arc<InMemory> {
    let store = Arc::new(InMemory::new());
    let put = |p: Path, b: Bytes| {
        futures::executor::block_on(store.put(&p, PutPayload::from_bytes(b))).expect("put");
    };
    for (dir, name) in table_files(l) {
        put(dir_path(l, loc, dir).join(name.as_str()), parquet_bytes(&file_rows(l, dir, &name)));
    }
    if l.strays {
        let garbage = Bytes::from_static(b"this is not a parquet file");
        let d0 = dir_path(l, loc, 0);
        put(d0.clone().join("x.txt"), garbage.clone());
        put(d0.clone().join("sub").join("g.parquet"), garbage.clone());
        put(Path::from_iter(table_prefix(loc)).join("s.parquet"), garbage.clone());
        if loc != Loc::Root {
            // sibling prefix sharing the table prefix as a string prefix
            let mut p = Path::from("t2");
            for (i, (name, _)) in l.cols.iter().enumerate() {
                p = p.join(format!("{name}={}", l.dirs[0][i]));
            }
            put(p.join("f0.parquet"), garbage);
        }
    }
    store
}

fn table_url(loc: Loc) -> ListingTableUrl {
    match loc {
        Loc::Dir => ListingTableUrl::parse("mem://b/t/").unwrap(),
        Loc::NoSlash => ListingTableUrl::parse("mem://b/t").unwrap(),
        Loc::Root => ListingTableUrl::parse("mem://b/").unwrap(),
        Loc::Glob => ListingTableUrl::parse("mem://b/t/").unwrap().with_glob("f1*").unwrap(),
    }
}

fn in_table(loc: Loc, name: &str) -> bool {
    loc != Loc::Glob || name.starts_with("f1")
}

// ---------------------------------------------------------------------------
// running a case
// ---------------------------------------------------------------------------

fn canon(ty: Ty, s: &str) -> String {
    match ty {
        Ty::Int => s.parse::<i64>().unwrap().to_string(),
        _ => s.to_string(),
    }
}

struct Stats {
    files_total: usize,
    files_expected: usize,
    files_kept_direct: Option<usize>,
    rows_expected: usize,
}

fn session(store: Arc<InMemory>, cache: bool) -> SessionContext {
    let cfg = SessionConfig::new().with_target_partitions(2);
    let mut rt = RuntimeEnvBuilder::new();
    if !cache {
        rt = rt.with_cache_manager(CacheManagerConfig::default().with_list_files_cache_limit(0));
    }
    let ctx = SessionContext::new_with_config_rt(cfg, rt.build_arc().expect("runtime"));
    ctx.register_object_store(&url::Url::parse("mem://b").unwrap(), store);
    ctx
}

fn run_case_with_store(c: &Case, store: Arc<InMemory>) -> Result<Stats, String> {
    let l = &c.layout;
    let part_cols: Vec<(String, DataType)> = l.cols.iter().map(|(n, t)| (n.clone(), arrow_ty(*t))).collect();
    let url = table_url(c.loc);
    let files: Vec<(usize, String)> = table_files(l).into_iter().filter(|(_, n)| in_table(c.loc, n)).collect();
    let path_of = |dir: usize, name: &str| dir_path(l, c.loc, dir).join(name);

    // (C) parse_partitions_for_path inverts the path builder
    for (dir, name) in &files {
        let p = path_of(*dir, name);
        let parsed = parse_partitions_for_path(&url, &p, l.cols.iter().map(|(n, _)| n.as_str()));
        let want: Vec<String> = l.dirs[*dir].clone();
        let got: Option<Vec<String>> = parsed.map(|v| v.into_iter().map(|x| x.into_owned()).collect());
        if got.as_ref() != Some(&want) {
            return Err(format!("parse_partitions_for_path({p}) = {got:?}, the path was built from {want:?}"));
        }
    }

    let ctx = session(Arc::clone(&store), c.cache);
    let state = ctx.state();
    let mut kept_direct = None;

    // (A) direct call, partition-only filters
    if !uses_data(&c.filter) {
        let mut cj = vec![];
        conjuncts(&c.filter, &mut cj);
        let filters: Vec<Expr> = cj.iter().map(|f| expr(l, f)).collect();
        let dyn_store: Arc<dyn ObjectStore> = store.clone();
        let kept = block_on(async {
            let s = pruned_partition_list(&state, dyn_store.as_ref(), &url, &filters, ".parquet", &part_cols)
                .await
                .map_err(|e| format!("pruned_partition_list failed: {e}"))?;
            s.try_collect::<Vec<_>>().await.map_err(|e| format!("pruned_partition_list stream failed: {e}"))
        })?;
        let kept_paths: BTreeSet<String> = kept.iter().map(|pf| pf.object_meta.location.to_string()).collect();
        let mut valid: BTreeMap<String, usize> = BTreeMap::new();
        for (dir, name) in &files {
            valid.insert(path_of(*dir, name).to_string(), *dir);
        }
        for (dir, name) in &files {
            let r = RefRow { layout: l, dir: *dir, v: 0 };
            let p = path_of(*dir, name).to_string();
            if eval(&c.filter, &r) && !kept_paths.contains(&p) {
                return Err(format!(
                    "pruned_partition_list dropped {p}: its partition values {:?} satisfy {}; kept = {:?}",
                    l.dirs[*dir],
                    sql(l, &c.filter),
                    kept_paths
                ));
            }
        }
        for pf in &kept {
            let p = pf.object_meta.location.to_string();
            let Some(dir) = valid.get(&p) else {
                return Err(format!("pruned_partition_list returned {p}, which is not a file of the table"));
            };
            let want: Vec<ScalarValue> = l.cols.iter().enumerate().map(|(i, (_, t))| scalar(*t, &l.dirs[*dir][i])).collect();
            if pf.partition_values != want {
                return Err(format!("{p}: partition values {:?}, the path was built from {:?}", pf.partition_values, want));
            }
        }
        kept_direct = Some(kept.len());
    }

    // (B) end to end
    let opts = ListingOptions::new(Arc::new(ParquetFormat::default()))
        .with_file_extension(".parquet")
        .with_table_partition_cols(part_cols.clone());
    let cfgt = ListingTableConfig::new(url.clone()).with_listing_options(opts).with_schema(file_schema());
    let table = ListingTable::try_new(cfgt).map_err(|e| format!("ListingTable::try_new: {e}"))?;
    ctx.register_table("t", Arc::new(table)).map_err(|e| e.to_string())?;
    let names: Vec<String> = l.cols.iter().map(|(n, _)| n.clone()).collect();
    let q = format!("SELECT v, {} FROM t WHERE {}", names.join(", "), sql(l, &c.filter));
    let batches = block_on(async { ctx.sql(&q).await?.collect().await }).map_err(|e| format!("{q}: {e}"))?;
    let mut got: Vec<(i64, Vec<String>)> = vec![];
    for b in &batches {
        let v = b.column(0).as_any().downcast_ref::<Int64Array>().ok_or("v is not Int64")?;
        let mut cols = vec![];
        for i in 0..names.len() {
            let a = arrow::compute::cast(b.column(i + 1), &DataType::Utf8).map_err(|e| e.to_string())?;
            cols.push(a);
        }
        for r in 0..b.num_rows() {
            let mut pv = vec![];
            for a in &cols {
                let a = a.as_any().downcast_ref::<arrow::array::StringArray>().unwrap();
                if arrow::array::Array::is_null(a, r) {
                    return Err(format!("{q}: NULL partition value in output"));
                }
                pv.push(a.value(r).to_string());
            }
            got.push((v.value(r), pv));
        }
    }
    got.sort();
    let mut want: Vec<(i64, Vec<String>)> = vec![];
    let mut files_expected = 0;
    for (dir, name) in &files {
        let mut any = false;
        for v in file_rows(l, *dir, name) {
            let r = RefRow { layout: l, dir: *dir, v };
            if eval(&c.filter, &r) {
                any = true;
                want.push((v, l.cols.iter().enumerate().map(|(i, (_, t))| canon(*t, &l.dirs[*dir][i])).collect()));
            }
        }
        if any {
            files_expected += 1;
        }
    }
    want.sort();
    if got != want {
        let missing: Vec<_> = want.iter().filter(|x| !got.contains(x)).collect();
        let extra: Vec<_> = got.iter().filter(|x| !want.contains(x)).collect();
        return Err(format!("{q}: {} rows, reference (scan all files, then filter) {} rows; missing {:?}; unexpected {:?}", got.len(), want.len(), missing, extra));
    }
    Ok(Stats { files_total: files.len(), files_expected, files_kept_direct: kept_direct, rows_expected: want.len() })
}

fn run_case(c: &Case) -> Result<Stats, String> {
    let store = build_store(&c.layout, c.loc);
    run_case_with_store(c, store)
}

// ---------------------------------------------------------------------------
// enumeration
// ---------------------------------------------------------------------------

const STR_DOMAIN: [&str; 13] = ["a", "B", "1", "x=y", "a/b", "__HIVE_DEFAULT_PARTITION__", "", "a b", "50%", "é", "a*b", "ab", "12:30"];
const INT_DOMAIN: [&str; 4] = ["1", "2", "10", "-1"];
const DATE_DOMAIN: [&str; 3] = ["2020-01-01", "2021-12-31", "1999-06-15"];

fn absent(ty: Ty) -> &'static str {
    match ty {
        Ty::Str => "zz",
        Ty::Int => "7",
        Ty::Date => "2000-01-01",
    }
}

fn pairs<'a>(d: &[&'a str]) -> Vec<Vec<&'a str>> {
    let mut out = vec![];
    for i in 0..d.len() {
        for j in i + 1..d.len() {
            out.push(vec![d[i], d[j]]);
        }
    }
    out
}

fn cross(sets: &[Vec<&str>]) -> Vec<Vec<String>> {
    let mut out: Vec<Vec<String>> = vec![vec![]];
    for s in sets {
        let mut next = vec![];
        for o in &out {
            for v in s {
                let mut o = o.clone();
                o.push(v.to_string());
                next.push(o);
            }
        }
        out = next;
    }
    out
}

fn layouts(thorough: bool) -> Vec<Layout> {
    let mut raw: Vec<(Vec<(String, Ty)>, Vec<Vec<String>>)> = vec![];
    let c = |n: &str, t: Ty| (n.to_string(), t);
    // one partition column
    for p in pairs(&STR_DOMAIN) {
        raw.push((vec![c("p", Ty::Str)], cross(&[p])));
    }
    raw.push((vec![c("p", Ty::Str)], cross(&[STR_DOMAIN.to_vec()])));
    for p in pairs(&INT_DOMAIN) {
        raw.push((vec![c("p", Ty::Int)], cross(&[p])));
    }
    raw.push((vec![c("p", Ty::Int)], cross(&[INT_DOMAIN.to_vec()])));
    raw.push((vec![c("p", Ty::Date)], cross(&[DATE_DOMAIN.to_vec()])));
    // two partition columns
    let tricky = ["a", "x=y", "a/b", "", "a b", "50%"];
    let tp = if thorough { pairs(&tricky) } else { vec![vec!["a", "x=y"], vec!["a/b", ""], vec!["a b", "50%"], vec!["x=y", "a/b"], vec!["", "a"]] };
    for p in &tp {
        for q in [vec!["1", "x=y"], vec!["a", "a/b"], vec!["", "é"]] {
            raw.push((vec![c("p", Ty::Str), c("q", Ty::Str)], cross(&[p.clone(), q])));
        }
        raw.push((vec![c("p", Ty::Str), c("q", Ty::Int)], cross(&[p.clone(), vec!["1", "10"]])));
    }
    raw.push((vec![c("p", Ty::Int), c("q", Ty::Str)], cross(&[vec!["1", "10"], vec!["a/b", "x=y"]])));
    raw.push((vec![c("p", Ty::Date), c("q", Ty::Str)], cross(&[vec!["2020-01-01", "2021-12-31"], vec!["a", ""]])));
    // three partition columns
    raw.push((vec![c("p", Ty::Str), c("q", Ty::Str), c("r", Ty::Str)], cross(&[vec!["a", "x=y"], vec!["a/b", ""], vec!["a", "50%"]])));
    raw.push((vec![c("p", Ty::Int), c("q", Ty::Str), c("r", Ty::Int)], cross(&[vec!["1", "2"], vec!["a b", "x=y"], vec!["1", "-1"]])));
    let mut out = vec![];
    for (cols, dirs) in raw {
        for spelling in [Spelling::Native, Spelling::Hive] {
            if spelling == Spelling::Hive {
                // identical spelling -> identical store; skip the duplicate
                let differs = dirs.iter().flatten().any(|v| {
                    let native = Path::from_iter([v.as_str()]).to_string();
                    native != hive_escape(v)
                });
                if !differs {
                    continue;
                }
            }
            out.push(Layout { cols: cols.clone(), dirs: dirs.clone(), spelling, strays: true });
        }
    }
    out
}

/// literals used for column i of a layout: its values (first three) + one absent
fn lits_of(l: &Layout, i: usize) -> Vec<String> {
    let mut s: Vec<String> = vec![];
    for d in &l.dirs {
        if !s.contains(&d[i]) {
            s.push(d[i].clone());
        }
    }
    s.truncate(3);
    s.push(absent(l.cols[i].1).to_string());
    s
}

fn filters(l: &Layout) -> (Vec<F>, Vec<F>) {
    let mut atoms = vec![];
    let mut reduced = vec![];
    for i in 0..l.cols.len() {
        let c = C::P(i);
        let ls = lits_of(l, i);
        for (k, s) in ls.iter().enumerate() {
            for op in [Op::Eq, Op::Ne, Op::Lt, Op::Ge] {
                atoms.push(F::Cmp { c, op, lit: s.clone(), flip: false });
            }
            reduced.push(F::Cmp { c, op: Op::Eq, lit: s.clone(), flip: false });
            if k == 0 {
                atoms.push(F::Cmp { c, op: Op::Eq, lit: s.clone(), flip: true });
                atoms.push(F::Cmp { c, op: Op::Lt, lit: s.clone(), flip: true });
                reduced.push(F::Cmp { c, op: Op::Ne, lit: s.clone(), flip: false });
            }
        }
        let last = ls.len() - 1;
        atoms.push(F::In { c, lits: vec![ls[0].clone(), ls[1.min(last)].clone()], neg: false });
        atoms.push(F::In { c, lits: vec![ls[0].clone(), ls[last].clone()], neg: true });
        atoms.push(F::In { c, lits: vec![ls[0].clone()], neg: false });
        reduced.push(F::In { c, lits: vec![ls[0].clone(), ls[last].clone()], neg: false });
        atoms.push(F::IsNull { c, neg: false });
        atoms.push(F::IsNull { c, neg: true });
    }
    for a in 0..l.cols.len() {
        for b in a + 1..l.cols.len() {
            if l.cols[a].1 == l.cols[b].1 {
                atoms.push(F::ColCmp { a, b, op: Op::Eq });
                atoms.push(F::ColCmp { a, b, op: Op::Ne });
                reduced.push(F::ColCmp { a, b, op: Op::Eq });
            }
        }
    }
    let data = vec![
        F::Cmp { c: C::V, op: Op::Eq, lit: "0".into(), flip: false },
        F::Cmp { c: C::V, op: Op::Ge, lit: "10".into(), flip: false },
        F::Cmp { c: C::V, op: Op::Lt, lit: "0".into(), flip: false },
    ];
    atoms.extend(data.iter().cloned());
    reduced.extend(data.iter().take(2).cloned());
    let mut depth1 = atoms.clone();
    for a in &reduced {
        depth1.push(F::Not(Box::new(a.clone())));
    }
    let mut depth2 = vec![];
    for i in 0..reduced.len() {
        for j in i + 1..reduced.len() {
            depth2.push(F::And(Box::new(reduced[i].clone()), Box::new(reduced[j].clone())));
            depth2.push(F::Or(Box::new(reduced[i].clone()), Box::new(reduced[j].clone())));
        }
    }
    // every partition column pinned (the full-prefix path) and a 3-way mix
    if l.cols.len() >= 2 {
        for d in l.dirs.iter().take(3) {
            let mut f: Option<F> = None;
            for (i, v) in d.iter().enumerate() {
                let a = F::Cmp { c: C::P(i), op: Op::Eq, lit: v.clone(), flip: false };
                f = Some(match f {
                    None => a,
                    Some(p) => F::And(Box::new(p), Box::new(a)),
                });
            }
            let f = f.unwrap();
            depth2.push(f.clone());
            depth2.push(F::And(Box::new(f), Box::new(data[1].clone())));
        }
    }
    (depth1, depth2)
}

fn explore(ctx: &Ctx) {
    let ls = layouts(ctx.thorough());
    ctx.set_extra(
        "bounds",
        json!({"layouts": ls.len(), "partition_columns": "1..=3 of Utf8 / Int32 / Date32",
               "utf8_values": STR_DOMAIN, "int_values": INT_DOMAIN, "date_values": DATE_DOMAIN,
               "layout_shape": "cross product of 2 (or all) values per column, one file per directory, directory 0 has two files, 2 rows per file; stray files (wrong extension, too shallow, non-partition sub-directory, sibling prefix t2/) hold garbage",
               "spellings": "native (object_store Path::join, as DataFusion's hive writer) and Hive escapePathName (only where it differs)",
               "filters": "depth 1: col {=,<>,<,>=} lit for lit in (3 values of the column + 1 absent), lit on the left, IN / NOT IN, IS [NOT] NULL, col = col, v atoms, NOT atom; depth 2: AND / OR of every pair of a reduced atom set, all-columns-pinned conjunctions",
               "locations": "depth-1 filters: mem://b/t/, mem://b/t, mem://b/ (root), mem://b/t/ + glob f1*; list-files cache on/off. depth-2 filters: mem://b/t/ with cache on, mem://b/ with cache off"}),
    );
    // (layout, loc) -> cases
    let mut groups: Vec<(Layout, Loc, Vec<Case>)> = vec![];
    for l in &ls {
        let (d1, d2) = filters(l);
        for loc in [Loc::Dir, Loc::NoSlash, Loc::Root, Loc::Glob] {
            let mut cases = vec![];
            for cache in [true, false] {
                if ctx.quick() && !cache && matches!(loc, Loc::NoSlash | Loc::Glob) {
                    continue;
                }
                for f in &d1 {
                    cases.push(Case { layout: l.clone(), loc, cache, filter: f.clone() });
                }
            }
            match loc {
                Loc::Dir => d2.iter().for_each(|f| cases.push(Case { layout: l.clone(), loc, cache: true, filter: f.clone() })),
                Loc::Root => d2.iter().for_each(|f| cases.push(Case { layout: l.clone(), loc, cache: false, filter: f.clone() })),
                _ => {}
            }
            groups.push((l.clone(), loc, cases));
        }
    }
    let total: usize = groups.iter().map(|g| g.2.len()).sum();
    ctx.count("cases_planned", total as u64);
    // Violations of one root-cause class are gathered and reported once, by
    // their smallest member, under a stable key (see `ROOT_CAUSE_HIVE`).
    let hive_class: std::sync::Mutex<Vec<(String, String)>> = std::sync::Mutex::new(vec![]);
    groups.par_iter().for_each(|(l, loc, cases)| {
        // one store per (layout, location), shared read-only by its cases
        let store = build_store(l, *loc);
        cases.par_iter().for_each(|c| {
            if ctx.should_stop() {
                return;
            }
            ctx.eval();
            match mc_core::catch(|| run_case_with_store(c, Arc::clone(&store))).unwrap_or_else(Err) {
                Ok(st) => {
                    if let Some(k) = st.files_kept_direct {
                        ctx.count("direct_calls", 1);
                        if k < st.files_total {
                            ctx.count("direct_calls_that_pruned_a_file", 1);
                        }
                    }
                    if l.spelling == Spelling::Hive {
                        ctx.count("cases_hive_spelling", 1);
                    }
                    // non-trivial: the filter keeps some files and rejects others
                    if st.files_expected > 0 && st.files_expected < st.files_total && st.rows_expected > 0 {
                        ctx.nontrivial(&(l, loc, &c.filter));
                        if l.cols.len() == 2 && matches!(c.filter, F::And(..)) && ctx.want_sample() {
                            ctx.sample(json!({"case": c, "sql": sql(l, &c.filter), "files": st.files_total, "files_with_matching_rows": st.files_expected, "rows": st.rows_expected}));
                        }
                    }
                }
                Err(what) => {
                    let j = serde_json::to_value(c).unwrap();
                    // Root-cause triage: the same case with the directories
                    // spelled the native way passes => the failure is specific
                    // to the Hive spelling of the directory names.
                    if l.spelling == Spelling::Hive {
                        let mut twin = c.clone();
                        twin.layout.spelling = Spelling::Native;
                        if mc_core::catch(|| run_case(&twin)).unwrap_or_else(Err).is_ok() {
                            ctx.count("violations_of_class_hive_escaped_dir_skipped", 1);
                            hive_class.lock().unwrap().push((j.to_string(), what));
                            return;
                        }
                    }
                    ctx.violation(format!("{j}"), what, j);
                }
            }
        });
    });
    let mut v = hive_class.into_inner().unwrap();
    // simplest first: a plain `col = lit` filter, then the shortest case text
    let plain = |j: &str| !j.contains("\"filter\":{\"Cmp\":{\"c\":{\"P\":0},\"op\":\"Eq\"") || j.contains("\"flip\":true");
    v.sort_by(|a, b| (plain(&a.0), a.0.len(), &a.0).cmp(&(plain(&b.0), b.0.len(), &b.0)));
    if let Some((j, what)) = v.first() {
        ctx.violation(ROOT_CAUSE_HIVE, what.clone(), serde_json::from_str(j).unwrap());
    }
}

/// Stable key of the finding "an equality filter on a partition column lists
/// only the raw spelling `col=value` of the directory, so a directory whose
/// name Hive-escapes a character of the value (`=`, `:`, `'` ...) is skipped
/// although its decoded partition value satisfies the filter"
/// (`evaluate_partition_prefix` in datafusion/catalog-listing/src/helpers.rs).
const ROOT_CAUSE_HIVE: &str = "C27:evaluate_partition_prefix:hive-escaped-directory-skipped-by-equality-prefix";

fn replay(v: &Json) -> Result<(), String> {
    let c: Case = serde_json::from_value(v.clone()).map_err(|e| format!("bad case: {e}"))?;
    mc_core::catch(|| run_case(&c)).unwrap_or_else(Err).map(|_| ())
}

fn main() {
    mc_core::quiet_panics();
    run_check(
        "C27",
        Level::Exploration,
        "every (layout, table location, list-files cache on/off, filter) in the stated lists; direct pruned_partition_list call for partition-only filters and an end-to-end ListingTable query for all; \
         non-trivial = distinct (layout, location, filter) where some but not all files have a matching row",
        explore,
        replay,
    );
}
