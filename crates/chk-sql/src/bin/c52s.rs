//! C52 (SQL part) — qualified names round-trip through their quoted text form:
//! names written by `TableReference::to_quoted_string()` / `Column::quoted_flat_name()`
//! into SQL text resolve to the same objects, and only to them.
//!
//! Identifiers = all non-empty strings of length <= 2 (1-part names: <= 3 in thorough)
//! over {a, A, '.', '"', ' ', '1', '_', 'é'} plus the keywords select / table / null.
//!
//! `resolve` cases (one fresh `SessionContext` each).  Catalogs, schemas and the
//! *sibling* tables are registered through the catalog API under their exact names
//! (no text involved): siblings differ from the reference only by letter case in one
//! part, or by where a dot falls ("s"."t" vs "s.t").  Every sibling holds one marker
//! row.  Then, as SQL text built from `to_quoted_string()`:
//!     CREATE TABLE <ref> (c INT);  INSERT INTO <ref> VALUES (1);  SELECT c FROM <ref>
//! Oracle: all three succeed, the SELECT returns exactly the row [1]; looked up
//! through the API under the exact parts the new table exists and holds [1]; every
//! sibling still holds exactly its marker row.
//!
//! `column` cases: a MemTable whose fields are named exactly by the enumerated name,
//! by its case-swapped sibling and (for a name `x.y`, when the table is called `x`) by
//! `y`, each with a different value; `SELECT <quoted_flat_name> FROM <ref>` (column
//! unqualified and qualified by the table reference) returns the value of exactly that field.
//!
//! `parse` cases: the quote-then-parse round trip of the datafusion-common part, here
//! with datafusion-common's `sql` feature active (sqlparser-based identifier parser).
use arrow::array::{ArrayRef, Int32Array};
use arrow::datatypes::{DataType, Field, Schema};
use arrow::record_batch::RecordBatch;
use chk_sql::sqlmc::engine::run_sql;
use chk_sql::sqlmc::value::Value as Cell;
use datafusion::catalog::{CatalogProvider, MemTable, MemoryCatalogProvider, MemorySchemaProvider};
use datafusion::prelude::{SessionConfig, SessionContext};
use datafusion_common::{Column, TableReference};
use mc_core::serde_json::{Value, json};
use mc_core::{Ctx, Level, enumerate, rayon::prelude::*, run_check};
use serde::{Deserialize, Serialize};
use std::sync::Arc;

#[derive(Serialize, Deserialize, Clone, Debug, Hash, PartialEq, Eq)]
struct Case {
    /// "resolve" (table parts), "column" (table parts + column name last), "table" / "pcolumn" (parse only)
    kind: String,
    parts: Vec<String>,
}

fn demo(which: &str) -> bool {
    std::env::var("VERIF_DEMO_C52S").map(|v| v == which).unwrap_or(false)
}

/// Reference classification (independent of `needs_quotes`): `[a-z_][a-z0-9_]*`.
fn simple(id: &str) -> bool {
    let mut cs = id.chars();
    match cs.next() {
        Some(c) if c.is_ascii_lowercase() || c == '_' => {}
        _ => return false,
    }
    cs.all(|c| c.is_ascii_lowercase() || c.is_ascii_digit() || c == '_')
}

const KEYWORDS: [&str; 3] = ["select", "table", "null"];

fn table_ref(parts: &[String]) -> TableReference {
    match parts.len() {
        1 => TableReference::bare(parts[0].as_str()),
        2 => TableReference::partial(parts[0].as_str(), parts[1].as_str()),
        3 => TableReference::full(parts[0].as_str(), parts[1].as_str(), parts[2].as_str()),
        n => panic!("MACHINERY: {n} parts"),
    }
}

fn shape(r: &TableReference) -> (usize, Vec<String>) {
    match r {
        TableReference::Bare { table } => (1, vec![table.to_string()]),
        TableReference::Partial { schema, table } => (2, vec![schema.to_string(), table.to_string()]),
        TableReference::Full { catalog, schema, table } => (3, vec![catalog.to_string(), schema.to_string(), table.to_string()]),
    }
}

/// The quoted text of a reference (the subject under test); the demo corrupts it.
fn quoted(r: &TableReference) -> String {
    let q = r.to_quoted_string();
    if demo("case") {
        // planted: as if upper case did not need quoting
        let (_, parts) = shape(r);
        if let Some(last) = parts.last() {
            if last.chars().all(|c| c.is_ascii_alphabetic()) && last.chars().any(|c| c.is_ascii_uppercase()) {
                let tail = format!("\"{last}\"");
                if let Some(head) = q.strip_suffix(&tail) {
                    return format!("{head}{last}");
                }
            }
        }
    }
    if demo("quote") {
        // planted: as if embedded quotes were not doubled
        return q.replacen("\"\"", "\"", 1);
    }
    q
}

// ---------------------------------------------------------------------------
// parse-only round trip (same laws as the datafusion-common part)

fn run_parse(c: &Case) -> Result<(), String> {
    match c.kind.as_str() {
        "table" => {
            let r = table_ref(&c.parts);
            let q = quoted(&r);
            let want = shape(&r);
            for (how, back) in [
                ("parse_str", TableReference::parse_str(&q)),
                ("From<&str>", TableReference::from(q.as_str())),
                ("parse_str_normalized(ignore_case)", TableReference::parse_str_normalized(&q, true)),
            ] {
                let got = shape(&back);
                if got != want || back != r {
                    return Err(format!("TableReference {:?}.to_quoted_string() = {q:?}; {how} of it = {:?}", want.1, got.1));
                }
            }
            if c.parts.iter().all(|p| simple(p)) {
                let d = r.to_string();
                let back = TableReference::parse_str(&d);
                if shape(&back) != want {
                    return Err(format!("TableReference {:?} displays as {d:?}; parse_str of it = {:?}", want.1, shape(&back).1));
                }
            }
            Ok(())
        }
        "pcolumn" => {
            let (name, rel) = c.parts.split_last().ok_or("MACHINERY: empty column")?;
            let relation = if rel.is_empty() { None } else { Some(table_ref(rel)) };
            let col = Column::new(relation.clone(), name.as_str());
            let q = col.quoted_flat_name();
            let want_rel = relation.as_ref().map(shape);
            for (how, back) in [("from_qualified_name", Column::from_qualified_name(q.as_str())), ("from_qualified_name_ignore_case", Column::from_qualified_name_ignore_case(q.as_str()))] {
                let got_rel = back.relation.as_ref().map(shape);
                if got_rel != want_rel || back.name != *name {
                    return Err(format!(
                        "Column {:?}.quoted_flat_name() = {q:?}; {how} of it = relation {:?}, name {:?}",
                        c.parts,
                        got_rel.map(|x| x.1),
                        back.name
                    ));
                }
                if back != col {
                    return Err(format!("Column {:?}: column parsed by {how} has equal parts but != the original", c.parts));
                }
            }
            if c.parts.iter().all(|p| simple(p)) {
                let f = col.flat_name();
                let back = Column::from_qualified_name(f.as_str());
                if back.relation.as_ref().map(shape) != want_rel || back.name != *name {
                    return Err(format!("Column {:?}.flat_name() = {f:?}; from_qualified_name of it = {:?}", c.parts, back));
                }
            }
            Ok(())
        }
        k => Err(format!("MACHINERY: unknown kind {k}")),
    }
}

fn parser_in_use() -> &'static str {
    match TableReference::parse_str("\"A\" ") {
        TableReference::Bare { table } if &*table == "A" => "sqlparser (feature sql)",
        _ => "built-in fallback (feature sql off)",
    }
}

// ---------------------------------------------------------------------------
// SQL resolution

const DEFAULT_CATALOG: &str = "datafusion";
const DEFAULT_SCHEMA: &str = "public";

fn swapcase(s: &str) -> String {
    s.chars()
        .flat_map(|c| {
            if c.is_lowercase() {
                c.to_uppercase().collect::<Vec<_>>()
            } else if c.is_uppercase() {
                c.to_lowercase().collect::<Vec<_>>()
            } else {
                vec![c]
            }
        })
        .collect()
}

/// Fully resolved (catalog, schema, table) of a reference in a default session.
fn resolve(parts: &[String]) -> [String; 3] {
    match parts.len() {
        1 => [DEFAULT_CATALOG.into(), DEFAULT_SCHEMA.into(), parts[0].clone()],
        2 => [DEFAULT_CATALOG.into(), parts[0].clone(), parts[1].clone()],
        _ => [parts[0].clone(), parts[1].clone(), parts[2].clone()],
    }
}

/// Sibling references (as written parts) that must not be confused with `parts`.
fn siblings(parts: &[String]) -> Vec<Vec<String>> {
    let mut out: Vec<Vec<String>> = vec![];
    // letter case, one part at a time
    for i in 0..parts.len() {
        let s = swapcase(&parts[i]);
        if s != parts[i] && !s.is_empty() {
            let mut p = parts.to_vec();
            p[i] = s;
            out.push(p);
        }
    }
    // dot placement: merge two adjacent parts / split one part at a dot
    for i in 0..parts.len().saturating_sub(1) {
        let mut p = parts.to_vec();
        let merged = format!("{}.{}", p[i], p[i + 1]);
        p[i] = merged;
        p.remove(i + 1);
        out.push(p);
    }
    if parts.len() < 3 {
        for i in 0..parts.len() {
            for (pos, ch) in parts[i].char_indices() {
                if ch == '.' {
                    let (a, b) = (&parts[i][..pos], &parts[i][pos + 1..]);
                    if !a.is_empty() && !b.is_empty() {
                        let mut p = parts.to_vec();
                        p[i] = a.to_string();
                        p.insert(i + 1, b.to_string());
                        out.push(p);
                    }
                }
            }
        }
    }
    let me = resolve(parts);
    let mut seen: Vec<[String; 3]> = vec![me];
    out.retain(|p| {
        let r = resolve(p);
        if seen.contains(&r) {
            false
        } else {
            seen.push(r);
            true
        }
    });
    out
}

fn one_row_table(names_values: &[(String, i32)]) -> Result<Arc<MemTable>, String> {
    let schema = Arc::new(Schema::new(names_values.iter().map(|(n, _)| Field::new(n, DataType::Int32, true)).collect::<Vec<_>>()));
    let cols: Vec<ArrayRef> = names_values.iter().map(|(_, v)| Arc::new(Int32Array::from(vec![*v])) as ArrayRef).collect();
    let batch = RecordBatch::try_new(schema.clone(), cols).map_err(|e| format!("MACHINERY: batch: {e}"))?;
    MemTable::try_new(schema, vec![vec![batch]]).map(Arc::new).map_err(|e| format!("MACHINERY: MemTable: {e}"))
}

fn fresh_ctx() -> SessionContext {
    SessionContext::new_with_config(SessionConfig::new().with_target_partitions(1))
}

/// Make sure catalog and schema of `full` exist (API, exact names).
fn ensure_namespace(ctx: &SessionContext, full: &[String; 3]) -> Result<(), String> {
    let cat = match ctx.catalog(&full[0]) {
        Some(c) => c,
        None => {
            let c: Arc<dyn CatalogProvider> = Arc::new(MemoryCatalogProvider::new());
            ctx.register_catalog(full[0].as_str(), c.clone());
            c
        }
    };
    if cat.schema(&full[1]).is_none() {
        cat.register_schema(&full[1], Arc::new(MemorySchemaProvider::new())).map_err(|e| format!("MACHINERY: register_schema: {e}"))?;
    }
    Ok(())
}

fn full_ref(full: &[String; 3]) -> TableReference {
    TableReference::full(full[0].as_str(), full[1].as_str(), full[2].as_str())
}

/// Rows of column `c` of the table registered under exactly `full`, read without any name text.
fn api_rows(ctx: &SessionContext, full: &[String; 3]) -> Result<Option<Vec<i64>>, String> {
    let Some(cat) = ctx.catalog(&full[0]) else { return Ok(None) };
    let Some(sch) = cat.schema(&full[1]) else { return Ok(None) };
    if !sch.table_exist(&full[2]) {
        return Ok(None);
    }
    let provider = chk_sql::sqlmc::engine::block_on(sch.table(&full[2])).map_err(|e| format!("MACHINERY: table(): {e}"))?;
    let Some(provider) = provider else { return Ok(None) };
    let df = ctx.read_table(provider).map_err(|e| format!("MACHINERY: read_table: {e}"))?;
    let r = chk_sql::sqlmc::engine::run_df(df).map_err(|e| format!("MACHINERY: collect: {e}"))?;
    let mut out = vec![];
    for row in r.rows {
        match row.first() {
            Some(Cell::Int(i)) => out.push(*i),
            other => return Err(format!("MACHINERY: cell {other:?}")),
        }
    }
    out.sort();
    Ok(Some(out))
}

#[derive(Default)]
struct Stats {
    statements: u64,
    siblings: u64,
}

fn ints(rows: &[Vec<Cell>]) -> Option<Vec<i64>> {
    rows.iter()
        .map(|r| match r.as_slice() {
            [Cell::Int(i)] => Some(*i),
            _ => None,
        })
        .collect()
}

fn run_resolve(c: &Case, st: &mut Stats) -> Result<(), String> {
    let ctx = fresh_ctx();
    let me = resolve(&c.parts);
    ensure_namespace(&ctx, &me)?;
    let sibs = siblings(&c.parts);
    for (i, s) in sibs.iter().enumerate() {
        let full = resolve(s);
        ensure_namespace(&ctx, &full)?;
        let t = one_row_table(&[("c".to_string(), 100 + i as i32)])?;
        ctx.register_table(full_ref(&full), t).map_err(|e| format!("MACHINERY: register sibling {s:?}: {e}"))?;
    }
    st.siblings += sibs.len() as u64;
    let r = table_ref(&c.parts);
    let q = quoted(&r);
    let label = format!("{:?} (written {q})", c.parts);
    let show = |_: &str| label.clone();
    for sql in [format!("CREATE TABLE {q} (c INT)"), format!("INSERT INTO {q} VALUES (1)")] {
        st.statements += 1;
        if let Err(e) = run_sql(&ctx, &sql) {
            return Err(format!("table {}: `{sql}` failed: {}", show(""), e.lines().next().unwrap_or("")));
        }
    }
    let sql = format!("SELECT c FROM {q}");
    st.statements += 1;
    match run_sql(&ctx, &sql) {
        Ok(res) => {
            if ints(&res.rows) != Some(vec![1]) {
                return Err(format!("table {}: `{sql}` returned {:?}, expected the one inserted row [1]", show(""), res.rows));
            }
        }
        Err(e) => return Err(format!("table {}: `{sql}` failed: {}", show(""), e.lines().next().unwrap_or(""))),
    }
    match api_rows(&ctx, &me)? {
        Some(v) if v == vec![1] => {}
        other => {
            return Err(format!(
                "table {}: after CREATE TABLE + INSERT through its quoted text, the table {:?} looked up by its exact parts holds {other:?}, expected [1]",
                show(""),
                me
            ));
        }
    }
    for (i, s) in sibs.iter().enumerate() {
        let full = resolve(s);
        match api_rows(&ctx, &full)? {
            Some(v) if v == vec![100 + i as i64] => {}
            other => {
                return Err(format!("table {}: the sibling {s:?} was touched: it now holds {other:?}, expected [{}]", show(""), 100 + i));
            }
        }
    }
    Ok(())
}

fn run_column(c: &Case, st: &mut Stats) -> Result<(), String> {
    let (name, tparts) = c.parts.split_last().ok_or("MACHINERY: empty column case")?;
    let ctx = fresh_ctx();
    let full = resolve(tparts);
    ensure_namespace(&ctx, &full)?;
    // fields: the name itself (1), its case sibling (2), and for a dotted name whose prefix is the table name, the suffix (3)
    let mut fields: Vec<(String, i32)> = vec![(name.clone(), 1)];
    let sw = swapcase(name);
    if sw != *name {
        fields.push((sw, 2));
    }
    if let Some(rest) = name.strip_prefix(&format!("{}.", tparts.last().unwrap())) {
        if !rest.is_empty() && !fields.iter().any(|(n, _)| n == rest) {
            fields.push((rest.to_string(), 3));
        }
    }
    st.siblings += fields.len() as u64 - 1;
    let t = one_row_table(&fields)?;
    ctx.register_table(full_ref(&full), t).map_err(|e| format!("MACHINERY: register {tparts:?}: {e}"))?;
    let tref = table_ref(tparts);
    let tq = tref.to_quoted_string();
    let forms = [Column::new_unqualified(name.as_str()), Column::new(Some(tref.clone()), name.as_str())];
    for col in forms {
        let mut cq = col.quoted_flat_name();
        if demo("colquote") && col.relation.is_none() && cq.starts_with('"') && name.chars().all(|c| c.is_ascii_alphabetic()) {
            cq = name.clone(); // planted: upper-case column written without quotes
        }
        let sql = format!("SELECT {cq} FROM {tq}");
        st.statements += 1;
        match run_sql(&ctx, &sql) {
            Ok(res) => {
                if ints(&res.rows) != Some(vec![1]) {
                    return Err(format!(
                        "column {name:?} of table {tparts:?} (fields {:?}): `{sql}` returned {:?}, expected [1] (the field with exactly that name)",
                        fields, res.rows
                    ));
                }
            }
            Err(e) => {
                return Err(format!("column {name:?} of table {tparts:?} (fields {:?}): `{sql}` failed: {}", fields, e.lines().next().unwrap_or("")));
            }
        }
    }
    Ok(())
}

fn run_case(c: &Case, st: &mut Stats) -> Result<(), String> {
    match c.kind.as_str() {
        "resolve" => run_resolve(c, st),
        "column" => run_column(c, st),
        _ => run_parse(c),
    }
}

/// Violation class: what kind of part makes the case fail (for a stable, small set of keys).
fn class_of(c: &Case, what: &str) -> String {
    // an unquoted keyword part is one root cause (needs_quotes knows no reserved words): class by symptom only;
    // which keyword in which role fails is reported in the counters
    if c.parts.iter().any(|p| KEYWORDS.contains(&p.as_str())) {
        let symptom = if what.contains("` failed: ") {
            if what.contains("ParserError") { "statement-does-not-parse" } else { "statement-rejected" }
        } else {
            "resolves-to-something-else"
        };
        return format!("{}/unquoted-keyword/{symptom}", c.kind);
    }
    let mut feats: Vec<&str> = vec![];
    let any = |f: &dyn Fn(&str) -> bool| c.parts.iter().any(|p| f(p));
    if any(&|p| KEYWORDS.contains(&p)) {
        feats.push("keyword");
    }
    if any(&|p| p.contains('"')) {
        feats.push("quote");
    }
    if any(&|p| p.contains('.')) {
        feats.push("dot");
    }
    if any(&|p| p.contains(' ')) {
        feats.push("blank");
    }
    if any(&|p| p.chars().any(|c| c.is_uppercase())) {
        feats.push("upper");
    }
    if any(&|p| !p.is_ascii()) {
        feats.push("non-ascii");
    }
    if any(&|p| p.chars().next().map(|c| c.is_ascii_digit()).unwrap_or(false)) {
        feats.push("leading-digit");
    }
    if feats.is_empty() {
        feats.push("plain");
    }
    format!("{}/{}-part/{}", c.kind, c.parts.len(), feats.join("+"))
}

/// `role=keyword` for every keyword part of the case (roles: catalog / schema / table / column).
fn keyword_roles(c: &Case) -> Vec<String> {
    let n = c.parts.len();
    let role = |i: usize| -> &'static str {
        let from_end = n - 1 - i;
        let table_roles = ["table", "schema", "catalog"];
        if c.kind == "column" || c.kind == "pcolumn" {
            if from_end == 0 { "column" } else { table_roles[(from_end - 1).min(2)] }
        } else {
            table_roles[from_end.min(2)]
        }
    };
    c.parts.iter().enumerate().filter(|(_, p)| KEYWORDS.contains(&p.as_str())).map(|(i, p)| format!("{}={p}", role(i))).collect()
}

fn identifiers(alphabet: &[char], max_len: usize) -> Vec<String> {
    let mut v: Vec<String> = enumerate::sequences(alphabet, 1, max_len).into_iter().map(|cs| cs.into_iter().collect()).collect();
    for k in KEYWORDS {
        v.push(k.to_string());
    }
    v
}

fn explore(ctx: &Ctx) {
    let base = ['a', 'A', '.', '"', ' ', '1', '_', 'é'];
    let l1 = identifiers(&base, 1);
    let l2 = identifiers(&base, 2);
    let l3 = identifiers(&base, 3);
    if !parser_in_use().starts_with("sqlparser") {
        ctx.machinery_error("datafusion-common is built without its `sql` feature in this crate; this part must run with it");
        return;
    }
    // a few fixed awkward parts used to fill the other positions of long references in quick
    let fixed: Vec<String> = vec!["a".into(), "A.\"".into()];
    let mut cases: Vec<Case> = vec![];
    let mut space_desc: Vec<String> = vec![];
    let mut add = |kind: &str, sets: Vec<&Vec<String>>, cases: &mut Vec<Case>| {
        let dims: Vec<usize> = sets.iter().map(|s| s.len()).collect();
        space_desc.push(format!("{kind}: {}", dims.iter().map(|d| d.to_string()).collect::<Vec<_>>().join(" x ")));
        enumerate::product(&dims, |idx| {
            cases.push(Case { kind: kind.to_string(), parts: idx.iter().enumerate().map(|(j, i)| sets[j][*i].clone()).collect() });
        });
    };
    // --- SQL resolution
    add("resolve", vec![if ctx.quick() { &l2 } else { &l3 }], &mut cases);
    add("resolve", vec![&l2, &l2], &mut cases);
    if ctx.quick() {
        add("resolve", vec![&l1, &l1, &l1], &mut cases);
        add("resolve", vec![&l2, &fixed, &fixed], &mut cases);
        add("resolve", vec![&fixed, &l2, &fixed], &mut cases);
        add("resolve", vec![&fixed, &fixed, &l2], &mut cases);
    } else {
        add("resolve", vec![&l2, &l2, &l2], &mut cases);
    }
    // --- columns through SQL: (table parts.., column name)
    let cn = if ctx.quick() { &l2 } else { &l3 };
    add("column", vec![&fixed, cn], &mut cases);
    add("column", vec![&l1, &l2], &mut cases);
    add("column", vec![&fixed, &fixed, cn], &mut cases);
    add("column", vec![&fixed, &fixed, &fixed, cn], &mut cases);
    if ctx.thorough() {
        add("column", vec![&l2, &l2], &mut cases);
    }
    // --- parse round trip with the sqlparser-based identifier parser
    add("table", vec![&l3], &mut cases);
    add("pcolumn", vec![&l3], &mut cases);
    add("table", vec![&l2, &l2], &mut cases);
    add("pcolumn", vec![&l2, &l2], &mut cases);
    if ctx.quick() {
        add("table", vec![&l1, &l1, &l1], &mut cases);
        add("pcolumn", vec![&l1, &l1, &l1], &mut cases);
        add("pcolumn", vec![&l1, &l1, &l1, &l1], &mut cases);
    } else {
        add("table", vec![&l3, &l3], &mut cases);
        add("table", vec![&l2, &l2, &l2], &mut cases);
        add("pcolumn", vec![&l2, &l2, &l2], &mut cases);
        add("pcolumn", vec![&l1, &l1, &l1, &l1], &mut cases);
    }
    // duplicates arise from overlapping spaces
    let mut seen = std::collections::HashSet::new();
    cases.retain(|c| seen.insert(c.clone()));
    ctx.set_extra(
        "bounds",
        json!({
            "alphabet": base.iter().collect::<String>(),
            "keywords": KEYWORDS,
            "identifier_sets": {"L1": l1.len(), "L2": l2.len(), "L3": l3.len(), "fixed": fixed},
            "spaces": space_desc,
            "distinct_cases": cases.len(),
            "identifier_parser": parser_in_use(),
            "session": "fresh SessionContext per case, default catalog/schema datafusion.public; catalogs, schemas and sibling tables registered through the API under exact names",
        }),
    );
    ctx.assume("identifiers are non-empty (the empty identifier has no quoted form)");
    ctx.assume("default session options (enable_ident_normalization = true, generic dialect)");
    use std::sync::Mutex;
    // class -> (smallest case, what, count)
    let failures: Mutex<std::collections::BTreeMap<String, (Case, String, u64)>> = Mutex::new(Default::default());
    cases.par_iter().for_each(|c| {
        if ctx.out_of_time() {
            return;
        }
        let mut st = Stats::default();
        let r = mc_core::catch(|| run_case(c, &mut st)).unwrap_or_else(|p| Err(p));
        ctx.eval();
        ctx.count(&format!("cases[{}/{} parts]", c.kind, c.parts.len()), 1);
        ctx.count("sql_statements", st.statements);
        ctx.count("sibling_objects_checked", st.siblings);
        match r {
            Ok(()) => {
                let sql_kind = c.kind == "resolve" || c.kind == "column";
                if sql_kind {
                    let kr = keyword_roles(c);
                    if kr.len() == 1 {
                        ctx.count(&format!("single_keyword_sql_cases[{}/{}: pass]", c.kind, kr[0]), 1);
                    }
                }
                if c.parts.iter().any(|p| !simple(p) || KEYWORDS.contains(&p.as_str())) {
                    if sql_kind || c.parts.len() <= 2 {
                        ctx.nontrivial(c);
                    }
                    ctx.count("nontrivial_cases", 1);
                    if sql_kind && c.parts.len() >= 2 && c.parts[0].contains('"') && c.parts[1].contains('.') && ctx.want_sample() {
                        let text = if c.kind == "resolve" {
                            format!("CREATE TABLE {0} (c INT); INSERT INTO {0} VALUES (1); SELECT c FROM {0}", table_ref(&c.parts).to_quoted_string())
                        } else {
                            let (n, t) = c.parts.split_last().unwrap();
                            format!("SELECT {} FROM {}", Column::new(Some(table_ref(t)), n.as_str()).quoted_flat_name(), table_ref(t).to_quoted_string())
                        };
                        ctx.sample(json!({"case": c, "sql": text, "siblings_checked": st.siblings}));
                    }
                }
            }
            Err(what) => {
                if what.starts_with("MACHINERY") {
                    ctx.machinery_error(what);
                    return;
                }
                let class = class_of(c, &what);
                if c.kind == "resolve" || c.kind == "column" {
                    let kr = keyword_roles(c);
                    if kr.len() == 1 {
                        ctx.count(&format!("single_keyword_sql_cases[{}/{}: fail]", c.kind, kr[0]), 1);
                    }
                }
                let size = |c: &Case| (c.parts.len(), c.parts.iter().map(|p| p.chars().count()).sum::<usize>(), c.parts.clone());
                let mut g = failures.lock().unwrap();
                match g.get_mut(&class) {
                    Some(e) => {
                        e.2 += 1;
                        if size(c) < size(&e.0) {
                            e.0 = c.clone();
                            e.1 = what;
                        }
                    }
                    None => {
                        g.insert(class, (c.clone(), what, 1));
                    }
                }
            }
        }
    });
    for (class, (case, what, n)) in failures.into_inner().unwrap() {
        ctx.count(&format!("failing_cases[{class}]"), n);
        ctx.violation(format!("{class}|{}", serde_json::to_string(&case).unwrap()), format!("[{class}; {n} failing cases in the class] {what}"), serde_json::to_value(&case).unwrap());
    }
}

fn replay(v: &Value) -> Result<(), String> {
    let c: Case = serde_json::from_value(v.clone()).map_err(|e| format!("bad case: {e}"))?;
    let mut st = Stats::default();
    mc_core::catch(|| run_case(&c, &mut st)).unwrap_or_else(Err)
}

fn main() {
    mc_core::quiet_panics();
    run_check(
        "C52",
        Level::Exploration,
        "every table reference (1-3 parts) / column name from the enumerated identifier sets: (resolve) CREATE TABLE + INSERT + SELECT written with to_quoted_string() on a fresh session holding \
         sibling tables that differ only by letter case or dot placement - the SELECT returns the inserted row, the table exists under the exact parts, no sibling is touched; (column) SELECT \
         quoted_flat_name() returns the field with exactly that name among case/dot siblings; (table/pcolumn) quote-then-parse round trip with the sqlparser-based identifier parser; \
         non-trivial = at least one part needs quoting or is a keyword (registered as distinct for all SQL cases and for parse cases with <= 2 parts)",
        explore,
        replay,
    );
}
