//! `ChunkStore`: a read-only in-memory `ObjectStore` written for the checks.
//! Every GET answers with the requested byte range cut into chunks of a chosen
//! size (0 = one chunk), optionally followed by one empty chunk (the shape
//! `object_store::chunked::ChunkedStore` produces at exhaustion).  Nothing in
//! here shares code with DataFusion.
use async_trait::async_trait;
use bytes::Bytes;
use futures::StreamExt;
use futures::stream::BoxStream;
use object_store::path::Path;
use object_store::{
    Attributes, CopyOptions, Error, GetOptions, GetRange, GetResult, GetResultPayload, ListResult, MultipartUpload,
    ObjectMeta, ObjectStore, PutMultipartOptions, PutOptions, PutPayload, PutResult, Result,
};
use std::collections::BTreeMap;
use std::fmt;
use std::sync::atomic::{AtomicU64, Ordering};

#[derive(Debug)]
pub struct ChunkStore {
    pub files: BTreeMap<Path, Bytes>,
    pub chunk: usize,
    pub trailing_empty: bool,
    pub gets: AtomicU64,
}

impl ChunkStore {
    pub fn new(files: impl IntoIterator<Item = (Path, Bytes)>, chunk: usize, trailing_empty: bool) -> Self {
        ChunkStore { files: files.into_iter().collect(), chunk, trailing_empty, gets: AtomicU64::new(0) }
    }
    #[allow(dead_code)]
    pub fn gets(&self) -> u64 {
        self.gets.load(Ordering::Relaxed)
    }
    fn meta(&self, p: &Path, b: &Bytes) -> ObjectMeta {
        ObjectMeta {
            location: p.clone(),
            last_modified: chrono::DateTime::<chrono::Utc>::from_timestamp(1_000_000, 0).unwrap(),
            size: b.len() as u64,
            e_tag: None,
            version: None,
        }
    }
}

impl fmt::Display for ChunkStore {
    fn fmt(&self, f: &mut fmt::Formatter<'_>) -> fmt::Result {
        write!(f, "ChunkStore(chunk={})", self.chunk)
    }
}

fn not_impl(op: &str) -> Error {
    Error::NotImplemented { operation: op.to_string(), implementer: "ChunkStore".to_string() }
}

fn generic(msg: String) -> Error {
    Error::Generic { store: "ChunkStore", source: msg.into() }
}

#[async_trait]
impl ObjectStore for ChunkStore {
    async fn put_opts(&self, _: &Path, _: PutPayload, _: PutOptions) -> Result<PutResult> {
        Err(not_impl("put_opts"))
    }
    async fn put_multipart_opts(&self, _: &Path, _: PutMultipartOptions) -> Result<Box<dyn MultipartUpload>> {
        Err(not_impl("put_multipart_opts"))
    }
    async fn get_opts(&self, location: &Path, options: GetOptions) -> Result<GetResult> {
        self.gets.fetch_add(1, Ordering::Relaxed);
        let data = self
            .files
            .get(location)
            .ok_or_else(|| Error::NotFound { path: location.to_string(), source: "no such object".into() })?;
        let len = data.len() as u64;
        let meta = self.meta(location, data);
        let range = match &options.range {
            None => 0..len,
            Some(GetRange::Bounded(r)) => {
                if r.start >= r.end {
                    return Err(generic(format!("inconsistent range {}..{}", r.start, r.end)));
                }
                if r.start >= len {
                    return Err(generic(format!("range start {} beyond object length {}", r.start, len)));
                }
                r.start..r.end.min(len)
            }
            Some(GetRange::Offset(o)) => {
                if *o >= len {
                    return Err(generic(format!("offset {o} beyond object length {len}")));
                }
                *o..len
            }
            Some(GetRange::Suffix(n)) => len.saturating_sub(*n)..len,
        };
        let mut chunks: Vec<Result<Bytes>> = vec![];
        if !options.head {
            let body = data.slice(range.start as usize..range.end as usize);
            if self.chunk == 0 || self.chunk >= body.len() {
                chunks.push(Ok(body));
            } else {
                let mut i = 0;
                while i < body.len() {
                    let j = (i + self.chunk).min(body.len());
                    chunks.push(Ok(body.slice(i..j)));
                    i = j;
                }
            }
            if self.trailing_empty {
                chunks.push(Ok(Bytes::new()));
            }
        }
        Ok(GetResult {
            payload: GetResultPayload::Stream(futures::stream::iter(chunks).boxed()),
            meta,
            range,
            attributes: Attributes::default(),
        })
    }
    fn delete_stream(&self, _: BoxStream<'static, Result<Path>>) -> BoxStream<'static, Result<Path>> {
        futures::stream::iter(vec![Err(not_impl("delete_stream"))]).boxed()
    }
    fn list(&self, prefix: Option<&Path>) -> BoxStream<'static, Result<ObjectMeta>> {
        let root = Path::default();
        let prefix = prefix.unwrap_or(&root);
        let v: Vec<Result<ObjectMeta>> = self
            .files
            .iter()
            // like the stock stores: an object is listed under a prefix only if
            // the prefix is a strict directory prefix of its path
            .filter(|(p, _)| p.prefix_match(prefix).map(|mut it| it.next().is_some()).unwrap_or(false))
            .map(|(p, b)| Ok(self.meta(p, b)))
            .collect();
        futures::stream::iter(v).boxed()
    }
    async fn list_with_delimiter(&self, prefix: Option<&Path>) -> Result<ListResult> {
        let root = Path::default();
        let prefix = prefix.unwrap_or(&root);
        let mut common = std::collections::BTreeSet::new();
        let mut objects = vec![];
        for (p, b) in &self.files {
            let Some(mut parts) = p.prefix_match(prefix) else { continue };
            let Some(first) = parts.next() else { continue };
            if parts.next().is_some() {
                common.insert(prefix.clone().join(first));
            } else {
                objects.push(self.meta(p, b));
            }
        }
        Ok(ListResult { common_prefixes: common.into_iter().collect(), objects })
    }
    async fn copy_opts(&self, _: &Path, _: &Path, _: CopyOptions) -> Result<()> {
        Err(not_impl("copy_opts"))
    }
}
