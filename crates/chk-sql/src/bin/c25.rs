//! C25 — written files read back to the data that was written.
//!
//! A small table (a BIGINT NULL-able, s VARCHAR NULL-able with separator / quote
//! / newline / unicode strings, p VARCHAR partition value with characters that
//! need escaping, n BIGINT) is written through `COPY TO`, `INSERT INTO` an
//! external table or `DataFrame::write_*` as Parquet, CSV, NDJSON or Arrow IPC
//! into an `InMemory` object store — as a single file, a directory, a directory
//! with one row per file, or hive-partitioned by 1–2 columns — and read back
//! through a listing table in a *fresh* session.
//!
//! Oracle: the rows read back are exactly the multiset of rows written (the
//! harness keeps them as plain Rust values); for CSV, NULL and '' of a string
//! column are identified (the format has one encoding for both).
use arrow::array::{Array, ArrayRef, Int64Array, RecordBatch, StringArray};
use arrow::datatypes::{DataType, Field, Schema, SchemaRef};
use chk_sql::sqlmc::engine::block_on;
use datafusion::dataframe::DataFrameWriteOptions;
use datafusion::datasource::MemTable;
use datafusion::datasource::file_format::options::ArrowReadOptions;
use datafusion::prelude::{CsvReadOptions, JsonReadOptions, ParquetReadOptions, SessionConfig, SessionContext};
use datafusion_common::config::CsvOptions;
use mc_core::serde_json::{Value as Json, json};
use mc_core::{Ctx, Level, rayon::prelude::*, run_check};
use object_store::memory::InMemory;
use serde::{Deserialize, Serialize};
use std::sync::Arc;

#[derive(Serialize, Deserialize, Clone, Debug, Hash, PartialEq, Eq, PartialOrd, Ord)]
struct Row {
    a: Option<i64>,
    s: Option<String>,
    p: String,
    n: i64,
}

#[derive(Serialize, Deserialize, Clone, Copy, Debug, Hash, PartialEq, Eq)]
enum Fmt {
    Parquet,
    Csv { header: bool, semicolon: bool },
    Json,
    Arrow,
}

#[derive(Serialize, Deserialize, Clone, Debug, Hash, PartialEq, Eq)]
enum Mode {
    /// one named file
    Single,
    /// a directory
    Dir,
    /// a directory, soft_max_rows_per_output_file = 1
    DirOneRowPerFile,
    /// hive partitioned by these columns
    Part(Vec<String>),
}

#[derive(Serialize, Deserialize, Clone, Copy, Debug, Hash, PartialEq, Eq)]
enum Route {
    Copy,
    Insert,
    DataFrame,
}

#[derive(Serialize, Deserialize, Clone, Debug, Hash)]
struct Case {
    rows: Vec<Row>,
    fmt: Fmt,
    mode: Mode,
    route: Route,
}

fn src_schema() -> SchemaRef {
    Arc::new(Schema::new(vec![
        Field::new("a", DataType::Int64, true),
        Field::new("s", DataType::Utf8, true),
        Field::new("p", DataType::Utf8, true),
        Field::new("n", DataType::Int64, true),
    ]))
}

fn ext(f: Fmt) -> &'static str {
    match f {
        Fmt::Parquet => "parquet",
        Fmt::Csv { .. } => "csv",
        Fmt::Json => "json",
        Fmt::Arrow => "arrow",
    }
}

fn stored_as(f: Fmt) -> &'static str {
    match f {
        Fmt::Parquet => "PARQUET",
        Fmt::Csv { .. } => "CSV",
        Fmt::Json => "JSON",
        Fmt::Arrow => "ARROW",
    }
}

fn sql_type(dt: &DataType) -> &'static str {
    match dt {
        DataType::Int64 => "BIGINT",
        _ => "VARCHAR",
    }
}

fn part_cols(m: &Mode) -> Vec<String> {
    match m {
        Mode::Part(c) => c.clone(),
        _ => vec![],
    }
}

fn format_options(f: Fmt, reading: bool) -> Vec<(String, String)> {
    let mut o = vec![];
    if let Fmt::Csv { header, semicolon } = f {
        o.push(("format.has_header".to_string(), header.to_string()));
        if semicolon {
            o.push(("format.delimiter".to_string(), ";".to_string()));
        }
        if reading {
            // documented requirement for reading quoted values that contain line breaks
            o.push(("format.newlines_in_values".to_string(), "true".to_string()));
        }
    }
    o
}

fn options_clause(o: &[(String, String)]) -> String {
    if o.is_empty() {
        String::new()
    } else {
        format!("OPTIONS ({})", o.iter().map(|(k, v)| format!("'{k}' '{v}'")).collect::<Vec<_>>().join(", "))
    }
}

fn new_ctx(store: &Arc<InMemory>, mode: &Mode) -> SessionContext {
    let mut cfg = SessionConfig::new().with_target_partitions(2);
    if *mode == Mode::DirOneRowPerFile {
        cfg = cfg.set_str("datafusion.execution.soft_max_rows_per_output_file", "1");
    }
    let ctx = SessionContext::new_with_config(cfg);
    ctx.register_object_store(&url::Url::parse("mem://b").unwrap(), store.clone());
    ctx
}

fn location(c: &Case) -> String {
    match c.mode {
        Mode::Single => format!("mem://b/out/x.{}", ext(c.fmt)),
        _ => "mem://b/out/".to_string(),
    }
}

fn ddl(c: &Case, reading: bool) -> String {
    let sch = src_schema();
    let cols: Vec<String> = sch.fields().iter().map(|f| format!("{} {}", f.name(), sql_type(f.data_type()))).collect();
    let pc = part_cols(&c.mode);
    let part = if pc.is_empty() { String::new() } else { format!("PARTITIONED BY ({})", pc.join(", ")) };
    format!(
        "CREATE EXTERNAL TABLE dst ({}) STORED AS {} {} LOCATION '{}' {}",
        cols.join(", "),
        stored_as(c.fmt),
        part,
        location(c),
        options_clause(&format_options(c.fmt, reading))
    )
}

async fn write(c: &Case, store: &Arc<InMemory>) -> Result<(), String> {
    let ctx = new_ctx(store, &c.mode);
    let sch = src_schema();
    let batch = RecordBatch::try_new(
        sch.clone(),
        vec![
            Arc::new(Int64Array::from(c.rows.iter().map(|r| r.a).collect::<Vec<_>>())) as ArrayRef,
            Arc::new(StringArray::from(c.rows.iter().map(|r| r.s.clone()).collect::<Vec<_>>())),
            Arc::new(StringArray::from(c.rows.iter().map(|r| Some(r.p.clone())).collect::<Vec<_>>())),
            Arc::new(Int64Array::from(c.rows.iter().map(|r| Some(r.n)).collect::<Vec<_>>())),
        ],
    )
    .map_err(|e| e.to_string())?;
    ctx.register_table("src", Arc::new(MemTable::try_new(sch, vec![vec![batch]]).map_err(|e| e.to_string())?)).map_err(|e| e.to_string())?;
    let pc = part_cols(&c.mode);
    match c.route {
        Route::Copy => {
            let part = if pc.is_empty() { String::new() } else { format!("PARTITIONED BY ({})", pc.join(", ")) };
            let q = format!(
                "COPY (SELECT a, s, p, n FROM src) TO '{}' STORED AS {} {} {}",
                location(c),
                stored_as(c.fmt),
                part,
                options_clause(&format_options(c.fmt, false))
            );
            ctx.sql(&q).await.map_err(|e| format!("{q}: {e}"))?.collect().await.map_err(|e| format!("{q}: {e}"))?;
        }
        Route::Insert => {
            let d = ddl(c, false);
            ctx.sql(&d).await.map_err(|e| format!("{d}: {e}"))?.collect().await.map_err(|e| format!("{d}: {e}"))?;
            let q = "INSERT INTO dst (a, s, p, n) SELECT a, s, p, n FROM src";
            ctx.sql(q).await.map_err(|e| format!("{q}: {e}"))?.collect().await.map_err(|e| format!("{q}: {e}"))?;
        }
        Route::DataFrame => {
            let df = ctx.table("src").await.map_err(|e| e.to_string())?;
            let mut o = DataFrameWriteOptions::new().with_partition_by(pc.clone());
            if c.mode == Mode::Single {
                o = o.with_single_file_output(true);
            }
            let loc = location(c);
            let r = match c.fmt {
                Fmt::Parquet => df.write_parquet(&loc, o, None).await,
                Fmt::Csv { header, semicolon } => {
                    let mut co = CsvOptions::default().with_has_header(header);
                    if semicolon {
                        co = co.with_delimiter(b';');
                    }
                    df.write_csv(&loc, o, Some(co)).await
                }
                Fmt::Json => df.write_json(&loc, o, None).await,
                Fmt::Arrow => return Err("bad case: no DataFrame writer for Arrow".into()),
            };
            r.map_err(|e| format!("DataFrame::write_{}({loc}): {e}", ext(c.fmt)))?;
        }
    }
    Ok(())
}

/// Read back in a fresh session through the read-options API (explicit file
/// schema for the formats that carry none, inferred for Parquet / Arrow).
async fn read_back(c: &Case, store: &Arc<InMemory>, via_ddl: bool, arrow_explicit_schema: bool) -> Result<Vec<Row>, String> {
    let ctx = new_ctx(store, &Mode::Dir);
    let pc = part_cols(&c.mode);
    let sch = src_schema();
    let file_schema = Schema::new(sch.fields().iter().filter(|f| !pc.contains(f.name())).map(|f| f.as_ref().clone()).collect::<Vec<_>>());
    let pcols: Vec<(String, DataType)> = pc.iter().map(|n| (n.clone(), sch.field_with_name(n).unwrap().data_type().clone())).collect();
    let loc = location(c);
    let table = if via_ddl {
        let d = ddl(c, true);
        ctx.sql(&d).await.map_err(|e| format!("{d}: {e}"))?.collect().await.map_err(|e| format!("{d}: {e}"))?;
        "dst"
    } else {
        match c.fmt {
            Fmt::Parquet => ctx.register_parquet("r", &loc, ParquetReadOptions::default().table_partition_cols(pcols)).await,
            Fmt::Csv { header, semicolon } => {
                let o = CsvReadOptions::new()
                    .has_header(header)
                    .delimiter(if semicolon { b';' } else { b',' })
                    .newlines_in_values(true)
                    .schema(&file_schema)
                    .table_partition_cols(pcols);
                ctx.register_csv("r", &loc, o).await
            }
            Fmt::Json => ctx.register_json("r", &loc, JsonReadOptions::default().schema(&file_schema).table_partition_cols(pcols)).await,
            Fmt::Arrow => {
                let mut o = ArrowReadOptions::default().table_partition_cols(pcols);
                if arrow_explicit_schema {
                    o = o.schema(&file_schema);
                }
                ctx.register_arrow("r", &loc, o).await
            }
        }
        .map_err(|e| format!("register read-back table at {loc}: {e}"))?;
        "r"
    };
    let q = format!("SELECT a, s, p, n FROM {table}");
    let batches = ctx.sql(&q).await.map_err(|e| format!("read back: {e}"))?.collect().await.map_err(|e| format!("read back: {e}"))?;
    let mut out = vec![];
    for b in &batches {
        let col = |i: usize, dt: &DataType| arrow::compute::cast(b.column(i), dt).map_err(|e| format!("read back column {i}: {e}"));
        let a = col(0, &DataType::Int64)?;
        let s = col(1, &DataType::Utf8)?;
        let p = col(2, &DataType::Utf8)?;
        let n = col(3, &DataType::Int64)?;
        let (a, s, p, n) = (
            a.as_any().downcast_ref::<Int64Array>().unwrap(),
            s.as_any().downcast_ref::<StringArray>().unwrap(),
            p.as_any().downcast_ref::<StringArray>().unwrap(),
            n.as_any().downcast_ref::<Int64Array>().unwrap(),
        );
        for r in 0..b.num_rows() {
            let p_null_ok = matches!(c.fmt, Fmt::Csv { .. }) && !pc.contains(&"p".to_string());
            if (p.is_null(r) && !p_null_ok) || n.is_null(r) {
                return Err(format!("read back: NULL in column p or n (row {r})"));
            }
            out.push(Row {
                a: if a.is_null(r) { None } else { Some(a.value(r)) },
                s: if s.is_null(r) { None } else { Some(s.value(r).to_string()) },
                // CSV: a NULL string is the format's encoding of ''
                p: if p.is_null(r) { String::new() } else { p.value(r).to_string() },
                n: n.value(r),
            });
        }
    }
    Ok(out)
}

/// marks the root-cause class "Arrow files written by DataFusion cannot have
/// their schema inferred when they come from an object store as a stream"
const ARROW_INFER_MARK: &str = "[arrow-schema-inference]";
const ROOT_CAUSE_ARROW: &str = "C25:ArrowFormat::infer_schema:stream-inference-fails-on-files-written-by-ArrowFileSink";

fn canon(rows: &[Row], fmt: Fmt) -> Vec<Row> {
    let mut v: Vec<Row> = rows
        .iter()
        .map(|r| {
            let mut r = r.clone();
            if matches!(fmt, Fmt::Csv { .. }) && r.s.is_none() {
                // CSV has a single encoding for NULL and ''
                r.s = Some(String::new());
            }
            r
        })
        .collect();
    v.sort();
    v
}

fn run_case(c: &Case) -> Result<usize, String> {
    let store = Arc::new(InMemory::new());
    block_on(async {
        write(c, &store).await?;
        let files = {
            use futures::TryStreamExt;
            use object_store::ObjectStore;
            store.list(None).try_collect::<Vec<_>>().await.map_err(|e| e.to_string())?
        };
        let listing: Vec<String> = files.iter().map(|m| m.location.to_string()).collect();
        let want = canon(&c.rows, c.fmt);
        // (via DDL, explicit Arrow schema)
        let mut routes = vec![(false, c.fmt == Fmt::Arrow)];
        if c.route == Route::Insert {
            routes.push((true, false));
            if c.fmt == Fmt::Arrow {
                // the table's DDL (VARCHAR -> Utf8View) is the schema the files were
                // written in; an explicit Utf8 schema would not describe them
                routes.remove(0);
            }
        }
        for (via_ddl, explicit) in routes {
            let got = read_back(c, &store, via_ddl, explicit).await.map_err(|e| format!("{e}; files written: {listing:?}"))?;
            let got = canon(&got, c.fmt);
            if got != want {
                return Err(format!("read back {got:?}, written {want:?}; files written: {listing:?}"));
            }
        }
        if c.fmt == Fmt::Arrow {
            // the data round-trips with an explicit schema; now let the reader infer it
            match read_back(c, &store, false, false).await {
                Ok(got) => {
                    let got = canon(&got, c.fmt);
                    if got != want {
                        return Err(format!("read back (inferred schema) {got:?}, written {want:?}; files written: {listing:?}"));
                    }
                }
                Err(e) => return Err(format!("{ARROW_INFER_MARK}: the files read back correctly with an explicit schema, but with schema inference: {e}; files written: {listing:?}")),
            }
        }
        Ok(files.len())
    })
}

// ---------------------------------------------------------------------------

const S_VALUES: [Option<&str>; 9] = [None, Some(""), Some("a"), Some("a,b"), Some("q\"q"), Some("l\nl"), Some("é"), Some(" "), Some("a;b")];
const P_VALUES: [&str; 8] = ["a", "a/b", "x=y", "50%", " sp", "", "é", "a b"];

fn datasets(thorough: bool) -> Vec<Vec<Row>> {
    let mut out = vec![];
    for s in S_VALUES {
        for p in P_VALUES {
            let r1 = Row { a: Some(1), s: s.map(|x| x.to_string()), p: p.to_string(), n: 1 };
            out.push(vec![r1.clone()]);
            // a second row in the same partition / in another partition
            out.push(vec![r1.clone(), Row { a: None, s: Some("a".into()), p: p.to_string(), n: 10 }]);
            out.push(vec![r1.clone(), Row { a: Some(2), s: s.map(|x| x.to_string()), p: "a".into(), n: 1 }]);
            if thorough {
                out.push(vec![
                    r1.clone(),
                    Row { a: None, s: None, p: p.to_string(), n: 1 },
                    Row { a: Some(3), s: Some("l\nl".into()), p: "x=y".into(), n: 10 },
                ]);
            }
        }
    }
    out
}

fn explore(ctx: &Ctx) {
    let ds = datasets(ctx.thorough());
    let fmts = vec![
        Fmt::Parquet,
        Fmt::Csv { header: true, semicolon: false },
        Fmt::Csv { header: false, semicolon: false },
        Fmt::Csv { header: true, semicolon: true },
        Fmt::Json,
        Fmt::Arrow,
    ];
    let st = |v: &[&str]| v.iter().map(|s| s.to_string()).collect::<Vec<_>>();
    let modes = vec![Mode::Single, Mode::Dir, Mode::DirOneRowPerFile, Mode::Part(st(&["p"])), Mode::Part(st(&["p", "n"])), Mode::Part(st(&["n", "p"]))];
    ctx.set_extra(
        "bounds",
        json!({"datasets": ds.len(), "rows": "1..=2 (thorough: ..=3): row 1 = every (s, p) pair, companions in the same / another partition",
               "s_values": S_VALUES, "p_values": P_VALUES,
               "formats": "Parquet, CSV (header / no header / ';' delimiter), NDJSON, Arrow IPC; default compression of each format",
               "modes": "single file, directory, directory with soft_max_rows_per_output_file=1, PARTITIONED BY (p), (p,n), (n,p)",
               "routes": "COPY TO, INSERT INTO external table (directory and partitioned modes), DataFrame::write_parquet/csv/json",
               "read_back": "fresh session, read-options API (explicit file schema for CSV/NDJSON, inferred for Parquet/Arrow); INSERT route also through the table's DDL"}),
    );
    let mut cases = vec![];
    for rows in &ds {
        for &fmt in &fmts {
            for mode in &modes {
                for route in [Route::Copy, Route::Insert, Route::DataFrame] {
                    if route == Route::Insert && *mode == Mode::Single {
                        continue;
                    }
                    if route == Route::DataFrame && fmt == Fmt::Arrow {
                        continue;
                    }
                    cases.push(Case { rows: rows.clone(), fmt, mode: mode.clone(), route });
                }
            }
        }
    }
    let arrow_class: std::sync::Mutex<Vec<(String, String)>> = std::sync::Mutex::new(vec![]);
    cases.par_iter().for_each(|c| {
        if ctx.should_stop() {
            return;
        }
        ctx.eval();
        match mc_core::catch(|| run_case(c)).unwrap_or_else(Err) {
            Ok(nfiles) => {
                // non-trivial: some written value needs escaping / quoting in this format or path
                let tricky_s = c.rows.iter().any(|r| matches!(r.s.as_deref(), Some(x) if x.chars().any(|ch| ",;\"\n ".contains(ch)) || !x.is_ascii()) || r.s.is_none());
                let tricky_p = !part_cols(&c.mode).is_empty() && c.rows.iter().any(|r| r.p.chars().any(|ch| "/=% ".contains(ch)) || r.p.is_empty() || !r.p.is_ascii());
                if tricky_s || tricky_p {
                    ctx.nontrivial(c);
                }
                if nfiles > 1 {
                    ctx.count("cases_with_several_output_files", 1);
                }
                if tricky_p && c.rows.len() == 2 && ctx.want_sample() {
                    ctx.sample(json!({"case": c, "files_written": nfiles}));
                }
            }
            Err(what) => {
                let j = serde_json::to_value(c).unwrap();
                if what.starts_with(ARROW_INFER_MARK) {
                    ctx.count("violations_of_class_arrow_schema_inference", 1);
                    arrow_class.lock().unwrap().push((j.to_string(), what));
                } else {
                    ctx.violation(format!("{j}"), what, j);
                }
            }
        }
    });
    // one root cause, reported once by its smallest member under a stable key
    let mut v = arrow_class.into_inner().unwrap();
    v.sort_by(|a, b| (a.0.len(), &a.0).cmp(&(b.0.len(), &b.0)));
    if let Some((j, what)) = v.first() {
        ctx.violation(ROOT_CAUSE_ARROW, what.clone(), serde_json::from_str(j).unwrap());
    }
}

fn replay(v: &Json) -> Result<(), String> {
    let c: Case = serde_json::from_value(v.clone()).map_err(|e| format!("bad case: {e}"))?;
    mc_core::catch(|| run_case(&c)).unwrap_or_else(Err).map(|_| ())
}

fn main() {
    mc_core::quiet_panics();
    run_check(
        "C25",
        Level::Exploration,
        "every (dataset, format, output mode, write route) in the stated lists: write into an InMemory object store, read back in a fresh session, compare multisets; \
         non-trivial = distinct cases in which a string value needs quoting / escaping / is NULL, or a partition value used in a directory name needs escaping or is empty",
        explore,
        replay,
    );
}
