//! C48 — DataFrame operations compute the same results as the equivalent SQL.
//!
//! Enumerated: every grammar query (tier list; families F1–F6, F8, F9 and the F12 compositions
//! that are expressible) is rendered a second time, from the same AST, as a chain of
//! `DataFrame` calls, in two styles:
//!   * `direct`: `ctx.table` / `alias` / `join_on` / `filter` / `aggregate` / `select` (window
//!     functions as `Expr`s inside the projection) / `distinct` / `distinct_on` / `union` /
//!     `union_distinct` / `intersect[_distinct]` / `except[_distinct]` / `sort` / `limit`;
//!   * `alt`: the same meaning through the other builder methods wherever they apply —
//!     `join` on key columns + residual filter instead of `join_on`, successive `filter` calls
//!     for a conjunction, projections through `with_column` / `with_column_renamed` /
//!     `drop_columns` / `select_columns`, window functions through `DataFrame::window`,
//!     `DISTINCT` as `aggregate(all columns, [])`, `union_by_name[_distinct]` over a re-ordered,
//!     re-named right operand, `sort_by`, `limit` split into skip and fetch;
//! plus a hand-written supplement (unnest_columns, union_by_name with missing columns,
//! with_column replacing a column, drop_columns after a join, fill_null, count(), …)
//! × the 12 rich databases.  Oracle: the collected rows equal the rows of the SQL text
//! (`compare_engine_results` with the query's order spec); the DataFrame route may fail only
//! where the SQL route fails.  Queries that have no DataFrame rendering (subquery expressions,
//! table functions, recursive CTEs, VALUES, JOIN USING) are skipped and counted per reason; a
//! chain the builder refuses is counted per reason with an example (a loud refusal, not a wrong
//! answer).
//!
//! Debug helpers: `c48 --chains` lists every query with the operations of both styles,
//! `c48 --sql-id <id> [--db LABEL]` shows both routes' plans and rows for one grammar query.
use arrow::datatypes::DataType;
use chk_sql::sqlmc::ast as A;
use chk_sql::sqlmc::db::{self, Database};
use chk_sql::sqlmc::engine;
use chk_sql::sqlmc::grammar::{self, GenQuery, QueryFlags, Tier};
use chk_sql::sqlmc::value::{ColType, Row, Value, show_rows};
use chk_sql::sqlmc::{ContextOptions, OrderSpec, compare_engine_results, same_multiset};
use datafusion::common::{Column, JoinType, ScalarValue};
use datafusion::functions_aggregate as fa;
use datafusion::functions_window as fw;
use datafusion::logical_expr::expr::{Between, Case as CaseExpr, InList, Like, WindowFunction};
use datafusion::logical_expr::{
    Expr as DExpr, ExprFunctionExt, GroupingSet, Operator, SortExpr, WindowFrame, WindowFrameBound, WindowFrameUnits, WindowFunctionDefinition, binary_expr, cast, lit,
};
use datafusion::prelude::{DataFrame, SessionContext};
use mc_core::serde_json::{Value as Json, json};
use mc_core::{Ctx, Level, rayon::prelude::*, run_check};
use serde::{Deserialize, Serialize};
use std::collections::{BTreeMap, BTreeSet};
use std::sync::Mutex;

// ------------------------------------------------------------------ rendering

#[derive(Clone, Copy, Debug, PartialEq, Eq, Hash, Serialize, Deserialize, PartialOrd, Ord)]
enum Style {
    Direct,
    Alt,
}

impl Style {
    fn tag(&self) -> &'static str {
        match self {
            Style::Direct => "direct",
            Style::Alt => "alt",
        }
    }
}

/// Why a chain could not be produced.
#[derive(Debug, Clone)]
enum Stop {
    /// the query has no DataFrame rendering (reason)
    Skip(String),
    /// a DataFrame builder method refused the chain (method: message)
    Build(String),
}

type R<T> = Result<T, Stop>;

fn skip<T>(why: &str) -> R<T> {
    Err(Stop::Skip(why.to_string()))
}

/// replacement map: an AST expression that is available as an output column of the input
type Map = Vec<(A::Expr, DExpr)>;

struct Rend<'a> {
    sctx: &'a SessionContext,
    style: Style,
    ctes: Vec<(String, DataFrame)>,
    /// DataFrame methods called, in order
    ops: Vec<String>,
    /// diagnosis only: write the SQL default frame (RANGE UNBOUNDED PRECEDING .. CURRENT ROW) explicitly
    /// for window functions with ORDER BY and no frame
    explicit_default_frame: bool,
}

/// Detection demo switch (never set in a real run): `VERIF_C48_PLANT=1` renders LEFT JOIN as an inner join.
fn planted() -> bool {
    std::env::var("VERIF_C48_PLANT").map(|v| v == "1").unwrap_or(false)
}

fn column(rel: &Option<String>, name: &str) -> DExpr {
    match rel {
        Some(r) => DExpr::Column(Column::new(Some(r.as_str()), name)),
        None => DExpr::Column(Column::new_unqualified(name)),
    }
}

fn literal(v: &Value) -> DExpr {
    match v {
        Value::Null => lit(ScalarValue::Null),
        Value::Bool(b) => lit(*b),
        Value::Int(i) => lit(*i),
        Value::Float(f) => lit(*f),
        Value::Text(s) => lit(s.as_str()),
        other => lit(other.sql_literal()),
    }
}

fn operator(op: A::BinOp) -> Operator {
    match op {
        A::BinOp::Add => Operator::Plus,
        A::BinOp::Sub => Operator::Minus,
        A::BinOp::Mul => Operator::Multiply,
        A::BinOp::Div => Operator::Divide,
        A::BinOp::Mod => Operator::Modulo,
        A::BinOp::Eq => Operator::Eq,
        A::BinOp::NotEq => Operator::NotEq,
        A::BinOp::Lt => Operator::Lt,
        A::BinOp::LtEq => Operator::LtEq,
        A::BinOp::Gt => Operator::Gt,
        A::BinOp::GtEq => Operator::GtEq,
        A::BinOp::And => Operator::And,
        A::BinOp::Or => Operator::Or,
        A::BinOp::IsDistinctFrom => Operator::IsDistinctFrom,
        A::BinOp::IsNotDistinctFrom => Operator::IsNotDistinctFrom,
        A::BinOp::Concat => Operator::StringConcat,
    }
}

/// Arrow type a SQL `CAST(x AS <name>)` denotes under the default configuration.
fn cast_type(t: ColType) -> DataType {
    match t {
        ColType::Int => DataType::Int32,
        ColType::Float => DataType::Float64,
        ColType::Bool => DataType::Boolean,
        _ => DataType::Utf8View,
    }
}

fn sort_expr(e: DExpr, o: &A::OrderItem) -> SortExpr {
    SortExpr::new(e, !o.desc, o.nulls_first_effective())
}

fn conjuncts(e: &A::Expr, out: &mut Vec<A::Expr>) {
    match e {
        A::Expr::Bin(A::BinOp::And, l, r) => {
            conjuncts(l, out);
            conjuncts(r, out);
        }
        other => out.push(other.clone()),
    }
}

fn relations(f: &A::From, out: &mut Vec<String>) {
    match f {
        A::From::Table { name, alias } => out.push(alias.clone().unwrap_or_else(|| name.clone())),
        A::From::Subquery { alias, .. } | A::From::Series { alias, .. } => out.push(alias.clone()),
        A::From::Join { left, right, .. } => {
            relations(left, out);
            relations(right, out);
        }
    }
}

fn collect_nodes(e: &A::Expr, pick: &dyn Fn(&A::Expr) -> bool, out: &mut Vec<A::Expr>) {
    e.walk(&mut |x| {
        if pick(x) && !out.contains(x) {
            out.push(x.clone());
        }
    });
}

impl Rend<'_> {
    fn op<T>(&mut self, name: &str, r: datafusion::error::Result<T>) -> R<T> {
        self.ops.push(name.to_string());
        r.map_err(|e| Stop::Build(format!("{name}: {}", e.to_string().lines().next().unwrap_or(""))))
    }

    // ---------------------------------------------------------------- expressions

    fn exprs(&mut self, es: &[A::Expr], map: &Map) -> R<Vec<DExpr>> {
        es.iter().map(|e| self.ex(e, map)).collect()
    }

    fn order(&mut self, items: &[A::OrderItem], map: &Map) -> R<Vec<SortExpr>> {
        items.iter().map(|o| Ok(sort_expr(self.ex(&o.expr, map)?, o))).collect()
    }

    fn ex(&mut self, e: &A::Expr, map: &Map) -> R<DExpr> {
        if let Some((_, r)) = map.iter().find(|(k, _)| k == e) {
            return Ok(r.clone());
        }
        Ok(match e {
            A::Expr::Col { rel, name } => column(rel, name),
            A::Expr::Lit(v) => literal(v),
            A::Expr::Bin(op, l, r) => binary_expr(self.ex(l, map)?, operator(*op), self.ex(r, map)?),
            A::Expr::Not(x) => DExpr::Not(Box::new(self.ex(x, map)?)),
            A::Expr::Neg(x) => DExpr::Negative(Box::new(self.ex(x, map)?)),
            A::Expr::Is { e, test, negated } => {
                let x = Box::new(self.ex(e, map)?);
                match (test, negated) {
                    (A::IsTest::Null, false) => DExpr::IsNull(x),
                    (A::IsTest::Null, true) => DExpr::IsNotNull(x),
                    (A::IsTest::True, false) => DExpr::IsTrue(x),
                    (A::IsTest::True, true) => DExpr::IsNotTrue(x),
                    (A::IsTest::False, false) => DExpr::IsFalse(x),
                    (A::IsTest::False, true) => DExpr::IsNotFalse(x),
                    (A::IsTest::Unknown, false) => DExpr::IsUnknown(x),
                    (A::IsTest::Unknown, true) => DExpr::IsNotUnknown(x),
                }
            }
            A::Expr::InList { e, list, negated } => DExpr::InList(InList::new(Box::new(self.ex(e, map)?), self.exprs(list, map)?, *negated)),
            A::Expr::Between { e, lo, hi, negated } => DExpr::Between(Between::new(Box::new(self.ex(e, map)?), *negated, Box::new(self.ex(lo, map)?), Box::new(self.ex(hi, map)?))),
            A::Expr::Like { e, pattern, negated } => DExpr::Like(Like::new(*negated, Box::new(self.ex(e, map)?), Box::new(lit(pattern.as_str())), None, false)),
            A::Expr::Case { operand, whens, else_ } => {
                let operand = match operand {
                    Some(o) => Some(Box::new(self.ex(o, map)?)),
                    None => None,
                };
                let mut wt = vec![];
                for (w, t) in whens {
                    wt.push((Box::new(self.ex(w, map)?), Box::new(self.ex(t, map)?)));
                }
                let else_ = match else_ {
                    Some(x) => Some(Box::new(self.ex(x, map)?)),
                    None => None,
                };
                DExpr::Case(CaseExpr::new(operand, wt, else_))
            }
            A::Expr::Func(f, args) => {
                let args = self.exprs(args, map)?;
                use datafusion::functions as df;
                let udf = match f {
                    A::Func::Coalesce => df::core::coalesce(),
                    A::Func::NullIf => df::core::nullif(),
                    A::Func::Abs => df::math::abs(),
                    A::Func::Upper => df::string::upper(),
                    A::Func::Lower => df::string::lower(),
                    A::Func::ConcatFn => df::string::concat(),
                    A::Func::Length => df::unicode::character_length(),
                    A::Func::Greatest => df::core::greatest(),
                    A::Func::Least => df::core::least(),
                };
                udf.call(args)
            }
            A::Expr::Cast(x, t) => cast(self.ex(x, map)?, cast_type(*t)),
            A::Expr::Agg { f, arg, distinct, filter, order_by } => self.aggregate_call(*f, arg.as_deref(), *distinct, filter.as_deref(), order_by, map)?,
            A::Expr::Window { f, args, partition_by, order_by, frame } => self.window_call(*f, args, partition_by, order_by, frame.as_ref(), map)?,
            A::Expr::ScalarSubquery(_) | A::Expr::Exists { .. } | A::Expr::InSubquery { .. } | A::Expr::Quantified { .. } => return skip("subquery expression"),
        })
    }

    fn aggregate_call(&mut self, f: A::AggFn, arg: Option<&A::Expr>, distinct: bool, filter: Option<&A::Expr>, order_by: &[A::OrderItem], map: &Map) -> R<DExpr> {
        let plain = !distinct && filter.is_none() && order_by.is_empty();
        let a = match arg {
            Some(x) => Some(self.ex(x, map)?),
            None => None,
        };
        // the convenience constructors where the call has no modifier, the UDAF + ExprFunctionExt otherwise
        let base: DExpr = match (f, a) {
            (A::AggFn::Count, None) if plain => return Ok(fa::count::count_all()),
            (A::AggFn::Count, None) => fa::count::count_udaf().call(vec![lit(1i64)]),
            (A::AggFn::Count, Some(x)) if distinct && filter.is_none() && order_by.is_empty() => return Ok(fa::expr_fn::count_distinct(x)),
            (A::AggFn::Count, Some(x)) => fa::expr_fn::count(x),
            (A::AggFn::Sum, Some(x)) => fa::expr_fn::sum(x),
            (A::AggFn::Min, Some(x)) => fa::expr_fn::min(x),
            (A::AggFn::Max, Some(x)) => fa::expr_fn::max(x),
            (A::AggFn::Avg, Some(x)) => fa::expr_fn::avg(x),
            (A::AggFn::BoolAnd, Some(x)) => fa::expr_fn::bool_and(x),
            (A::AggFn::BoolOr, Some(x)) => fa::expr_fn::bool_or(x),
            (A::AggFn::ArrayAgg, Some(x)) => fa::expr_fn::array_agg(x),
            (A::AggFn::StringAgg, Some(x)) => fa::string_agg::string_agg_udaf().call(vec![x, lit(",")]),
            (A::AggFn::FirstValue, Some(x)) => fa::first_last::first_value_udaf().call(vec![x]),
            (A::AggFn::LastValue, Some(x)) => fa::first_last::last_value_udaf().call(vec![x]),
            (_, None) => return skip("aggregate without argument"),
        };
        if plain {
            return Ok(base);
        }
        let mut b = if distinct { base.distinct() } else { base.order_by(vec![]) };
        if !order_by.is_empty() {
            b = b.order_by(self.order(order_by, map)?);
        }
        if let Some(p) = filter {
            b = b.filter(self.ex(p, map)?);
        }
        b.build().map_err(|e| Stop::Build(format!("ExprFunctionExt::build: {e}")))
    }

    fn window_call(&mut self, f: A::WinFn, args: &[A::Expr], partition_by: &[A::Expr], order_by: &[A::OrderItem], frame: Option<&A::Frame>, map: &Map) -> R<DExpr> {
        let a = self.exprs(args, map)?;
        let def: WindowFunctionDefinition = match f {
            A::WinFn::RowNumber => fw::row_number::row_number_udwf().into(),
            A::WinFn::Rank => fw::rank::rank_udwf().into(),
            A::WinFn::DenseRank => fw::rank::dense_rank_udwf().into(),
            A::WinFn::PercentRank => fw::rank::percent_rank_udwf().into(),
            A::WinFn::CumeDist => fw::cume_dist::cume_dist_udwf().into(),
            A::WinFn::Ntile => fw::ntile::ntile_udwf().into(),
            A::WinFn::Lag => fw::lead_lag::lag_udwf().into(),
            A::WinFn::Lead => fw::lead_lag::lead_udwf().into(),
            A::WinFn::FirstValue => fw::nth_value::first_value_udwf().into(),
            A::WinFn::LastValue => fw::nth_value::last_value_udwf().into(),
            A::WinFn::NthValue => fw::nth_value::nth_value_udwf().into(),
            A::WinFn::Agg(g) => match g {
                A::AggFn::Count => fa::count::count_udaf().into(),
                A::AggFn::Sum => fa::sum::sum_udaf().into(),
                A::AggFn::Min => fa::min_max::min_udaf().into(),
                A::AggFn::Max => fa::min_max::max_udaf().into(),
                A::AggFn::Avg => fa::average::avg_udaf().into(),
                A::AggFn::BoolAnd => fa::bool_and_or::bool_and_udaf().into(),
                A::AggFn::BoolOr => fa::bool_and_or::bool_or_udaf().into(),
                A::AggFn::ArrayAgg => fa::array_agg::array_agg_udaf().into(),
                A::AggFn::FirstValue => fa::first_last::first_value_udaf().into(),
                A::AggFn::LastValue => fa::first_last::last_value_udaf().into(),
                A::AggFn::StringAgg => return skip("string_agg as a window function"),
            },
        };
        let a = if a.is_empty() && matches!(f, A::WinFn::Agg(A::AggFn::Count)) { vec![lit(1i64)] } else { a };
        let w = DExpr::from(WindowFunction::new(def, a));
        // a DataFrame user states exactly the clauses the SQL text states
        let mut b = w.partition_by(self.exprs(partition_by, map)?);
        if !order_by.is_empty() {
            b = b.order_by(self.order(order_by, map)?);
        }
        if let Some(fr) = frame {
            let units = match fr.units {
                A::FrameUnits::Rows => WindowFrameUnits::Rows,
                A::FrameUnits::Range => WindowFrameUnits::Range,
                A::FrameUnits::Groups => WindowFrameUnits::Groups,
            };
            // RANGE offsets: the type depends on the ORDER BY key; like the SQL planner, hand them over as text
            // (the analyzer coerces Utf8 offsets to the key's type; an offset of another numeric type is taken as is)
            let offset = |n: i64| if units == WindowFrameUnits::Range { ScalarValue::Utf8(Some(n.to_string())) } else { ScalarValue::UInt64(Some(n as u64)) };
            let bound = |b: &A::Bound| match b {
                A::Bound::UnboundedPreceding => WindowFrameBound::Preceding(ScalarValue::Null),
                A::Bound::Preceding(n) => WindowFrameBound::Preceding(offset(*n)),
                A::Bound::CurrentRow => WindowFrameBound::CurrentRow,
                A::Bound::Following(n) => WindowFrameBound::Following(offset(*n)),
                A::Bound::UnboundedFollowing => WindowFrameBound::Following(ScalarValue::Null),
            };
            b = b.window_frame(WindowFrame::new_bounds(units, bound(&fr.start), bound(&fr.end)));
        }
        if frame.is_none() && !order_by.is_empty() && self.explicit_default_frame {
            b = b.window_frame(WindowFrame::new(Some(false)));
        }
        b.build().map_err(|e| Stop::Build(format!("ExprFunctionExt::build: {e}")))
    }

    // ---------------------------------------------------------------- FROM

    fn from_clause(&mut self, f: &A::From) -> R<DataFrame> {
        match f {
            A::From::Table { name, alias } => {
                if let Some((_, df)) = self.ctes.iter().rev().find(|(n, _)| n == name) {
                    let df = df.clone();
                    let a = alias.clone().unwrap_or_else(|| name.clone());
                    return self.op("alias", df.alias(&a));
                }
                let sctx = self.sctx.clone();
                let n = name.clone();
                let df = self.op("table", engine::block_on(async move { sctx.table(n.as_str()).await }))?;
                match alias {
                    Some(a) => self.op("alias", df.alias(a)),
                    None => Ok(df),
                }
            }
            A::From::Subquery { q, alias } => {
                let df = self.query(q)?;
                self.op("alias", df.alias(alias))
            }
            A::From::Series { .. } => skip("table function (generate_series / range)"),
            A::From::Join { kind, left, right, cond } => {
                let l = self.from_clause(left)?;
                let r = self.from_clause(right)?;
                let jt = match kind {
                    A::JoinKind::Inner | A::JoinKind::Cross => JoinType::Inner,
                    // detection demo only: VERIF_C48_PLANT=1 builds a deliberately different frame for LEFT JOIN
                    A::JoinKind::Left => if planted() { JoinType::Inner } else { JoinType::Left },
                    A::JoinKind::Right => JoinType::Right,
                    A::JoinKind::Full => JoinType::Full,
                    A::JoinKind::LeftSemi => JoinType::LeftSemi,
                    A::JoinKind::LeftAnti => JoinType::LeftAnti,
                    A::JoinKind::RightSemi => JoinType::RightSemi,
                    A::JoinKind::RightAnti => JoinType::RightAnti,
                };
                match cond {
                    A::JoinCond::Using(_) => skip("JOIN USING (no DataFrame method with that meaning)"),
                    A::JoinCond::None => self.op("join_on[]", l.join_on(r, jt, Vec::<DExpr>::new())),
                    A::JoinCond::On(e) => {
                        if self.style == Style::Alt {
                            let (mut lr, mut rr) = (vec![], vec![]);
                            relations(left, &mut lr);
                            relations(right, &mut rr);
                            let mut cs = vec![];
                            conjuncts(e, &mut cs);
                            let (mut lk, mut rk, mut rest): (Vec<String>, Vec<String>, Vec<A::Expr>) = (vec![], vec![], vec![]);
                            for c in cs {
                                if let A::Expr::Bin(A::BinOp::Eq, x, y) = &c {
                                    if let (A::Expr::Col { rel: Some(xr), name: xn }, A::Expr::Col { rel: Some(yr), name: yn }) = (&**x, &**y) {
                                        if lr.contains(xr) && rr.contains(yr) {
                                            lk.push(format!("{xr}.{xn}"));
                                            rk.push(format!("{yr}.{yn}"));
                                            continue;
                                        }
                                        if lr.contains(yr) && rr.contains(xr) {
                                            lk.push(format!("{yr}.{yn}"));
                                            rk.push(format!("{xr}.{xn}"));
                                            continue;
                                        }
                                    }
                                }
                                rest.push(c);
                            }
                            if !lk.is_empty() {
                                let residual = match rest.into_iter().reduce(A::and) {
                                    Some(x) => Some(self.ex(&x, &vec![])?),
                                    None => None,
                                };
                                let lks: Vec<&str> = lk.iter().map(|s| s.as_str()).collect();
                                let rks: Vec<&str> = rk.iter().map(|s| s.as_str()).collect();
                                let name = if residual.is_some() { "join(keys,filter)" } else { "join(keys)" };
                                return self.op(name, l.join(r, jt, &lks, &rks, residual));
                            }
                        }
                        let on = self.ex(e, &vec![])?;
                        self.op("join_on", l.join_on(r, jt, vec![on]))
                    }
                }
            }
        }
    }

    // ---------------------------------------------------------------- SELECT

    /// Output column `i` of `df` as an expression.
    fn out_col(df: &DataFrame, i: usize) -> DExpr {
        let (q, f) = df.schema().qualified_field(i);
        DExpr::Column(Column::from((q, f.as_ref())))
    }

    fn field_names(df: &DataFrame) -> Vec<String> {
        df.schema().fields().iter().map(|f| f.name().clone()).collect()
    }

    fn names_unique(names: &[String]) -> bool {
        names.iter().collect::<BTreeSet<_>>().len() == names.len()
    }

    /// Renders one SELECT block.  `order_by` = the ORDER BY of the enclosing query when this block is
    /// its whole body (needed for aggregates in ORDER BY and for DISTINCT ON).  Returns the frame,
    /// the replacement map valid *below* the projection, and whether ORDER BY was consumed.
    fn select(&mut self, sel: &A::Select, order_by: &[A::OrderItem]) -> R<(DataFrame, Map, bool)> {
        let mut df = match &sel.from {
            Some(f) => self.from_clause(f)?,
            None => {
                let r = self.sctx.read_empty();
                self.op("read_empty", r)?
            }
        };
        let none: Map = vec![];
        if let Some(p) = &sel.where_ {
            let mut parts = vec![];
            if self.style == Style::Alt {
                conjuncts(p, &mut parts);
            } else {
                parts.push(p.clone());
            }
            for part in parts {
                let e = self.ex(&part, &none)?;
                df = self.op("filter", df.filter(e))?;
            }
        }
        // aggregation
        let mut map: Map = vec![];
        let mut agg_nodes: Vec<A::Expr> = vec![];
        let is_agg = |x: &A::Expr| matches!(x, A::Expr::Agg { .. });
        for it in &sel.items {
            collect_nodes(&it.expr, &is_agg, &mut agg_nodes);
        }
        if let Some(h) = &sel.having {
            collect_nodes(h, &is_agg, &mut agg_nodes);
        }
        for o in order_by {
            collect_nodes(&o.expr, &is_agg, &mut agg_nodes);
        }
        let grouped = !matches!(sel.group_by, A::GroupBy::None) || !agg_nodes.is_empty() || sel.having.is_some();
        if grouped {
            let mut group_exprs: Vec<DExpr> = vec![];
            let keyed = |this: &mut Self, es: &[A::Expr], map: &mut Map| -> R<Vec<DExpr>> {
                let mut out = vec![];
                for e in es {
                    let d = this.ex(e, &none)?;
                    if matches!(e, A::Expr::Col { .. }) {
                        out.push(d);
                    } else {
                        let name = format!("__g{}", map.len());
                        out.push(d.alias(&name));
                        map.push((e.clone(), DExpr::Column(Column::new_unqualified(name))));
                    }
                }
                Ok(out)
            };
            let only_columns = |es: &[A::Expr]| es.iter().all(|e| matches!(e, A::Expr::Col { .. }));
            match &sel.group_by {
                A::GroupBy::None => {}
                A::GroupBy::Exprs(es) => group_exprs = keyed(self, es, &mut map)?,
                A::GroupBy::Rollup(es) | A::GroupBy::Cube(es) => {
                    if !only_columns(es) {
                        return skip("grouping set over computed keys");
                    }
                    let d = self.exprs(es, &none)?;
                    group_exprs = vec![DExpr::GroupingSet(if matches!(sel.group_by, A::GroupBy::Rollup(_)) { GroupingSet::Rollup(d) } else { GroupingSet::Cube(d) })];
                }
                A::GroupBy::Sets(sets) => {
                    if !sets.iter().all(|s| only_columns(s)) {
                        return skip("grouping set over computed keys");
                    }
                    let mut d = vec![];
                    for s in sets {
                        d.push(self.exprs(s, &none)?);
                    }
                    group_exprs = vec![DExpr::GroupingSet(GroupingSet::GroupingSets(d))];
                }
            }
            let mut aggr_exprs = vec![];
            for (i, a) in agg_nodes.iter().enumerate() {
                let name = format!("__agg{i}");
                let d = self.ex(a, &none)?;
                // count_all() comes with its own alias
                let d = match d {
                    DExpr::Alias(al) => *al.expr,
                    other => other,
                };
                aggr_exprs.push(d.alias(&name));
                map.push((a.clone(), DExpr::Column(Column::new_unqualified(name))));
            }
            df = self.op("aggregate", df.aggregate(group_exprs, aggr_exprs))?;
            if let Some(h) = &sel.having {
                let e = self.ex(h, &map)?;
                df = self.op("filter", df.filter(e))?;
            }
        }
        // DISTINCT ON consumes the projection and the ORDER BY
        if let A::Distinct::On(on) = &sel.distinct {
            let on_e = self.exprs(on, &map)?;
            let mut items = vec![];
            for it in &sel.items {
                let e = self.ex(&it.expr, &map)?;
                items.push(match &it.alias {
                    Some(a) => e.alias(a),
                    None => e,
                });
            }
            let sort = if order_by.is_empty() { None } else { Some(self.order(order_by, &map)?) };
            let df = self.op("distinct_on", df.distinct_on(on_e, items, sort))?;
            return Ok((df, map, true));
        }
        // projection
        if !sel.items.is_empty() {
            df = self.project(df, sel, &map, grouped)?;
        }
        if matches!(sel.distinct, A::Distinct::All) {
            if self.style == Style::Alt {
                let keys: Vec<DExpr> = (0..df.schema().fields().len()).map(|i| Self::out_col(&df, i)).collect();
                df = self.op("aggregate(all columns, [])", df.aggregate(keys, vec![]))?;
            } else {
                df = self.op("distinct", df.distinct())?;
            }
        }
        Ok((df, map, false))
    }

    fn project_direct(&mut self, df: DataFrame, sel: &A::Select, map: &Map) -> R<DataFrame> {
        let mut items = vec![];
        for it in &sel.items {
            let e = self.ex(&it.expr, map)?;
            items.push(match &it.alias {
                Some(a) => e.alias(a),
                None => e,
            });
        }
        self.op("select", df.select(items))
    }

    fn project(&mut self, df: DataFrame, sel: &A::Select, map: &Map, grouped: bool) -> R<DataFrame> {
        if self.style == Style::Direct || grouped {
            return self.project_direct(df, sel, map);
        }
        let input_names = Self::field_names(&df);
        let has_window = sel.items.iter().any(|i| i.expr.contains_window());
        // (a) window functions through DataFrame::window, one call per function
        if has_window {
            let mut wins: Vec<A::Expr> = vec![];
            let is_win = |x: &A::Expr| matches!(x, A::Expr::Window { .. });
            for it in &sel.items {
                collect_nodes(&it.expr, &is_win, &mut wins);
            }
            let mut m: Map = map.clone();
            let mut df = df;
            for (i, w) in wins.iter().enumerate() {
                let name = format!("__w{i}");
                let e = self.ex(w, map)?.alias(&name);
                df = self.op("window", df.window(vec![e]))?;
                m.push((w.clone(), DExpr::Column(Column::new_unqualified(name))));
            }
            return self.project_direct(df, sel, &m);
        }
        let all_cols = sel.items.iter().all(|i| matches!(i.expr, A::Expr::Col { .. }));
        let aliases: Vec<&String> = sel.items.iter().filter_map(|i| i.alias.as_ref()).collect();
        let aliases_fresh = aliases.iter().all(|a| !input_names.contains(a)) && aliases.iter().collect::<BTreeSet<_>>().len() == aliases.len();
        let out_names: Vec<String> = sel
            .items
            .iter()
            .map(|i| match (&i.alias, &i.expr) {
                (Some(a), _) => a.clone(),
                (None, A::Expr::Col { name, .. }) => name.clone(),
                _ => String::new(),
            })
            .collect();
        // the final column list, by (qualifier of the source column, output name)
        let final_cols: Vec<DExpr> = sel
            .items
            .iter()
            .zip(&out_names)
            .map(|(i, n)| match (&i.expr, &i.alias) {
                (A::Expr::Col { rel, .. }, _) => column(rel, n),
                _ => DExpr::Column(Column::new_unqualified(n.clone())),
            })
            .collect();
        let finish = |this: &mut Self, df: DataFrame| -> R<DataFrame> {
            let names = Self::field_names(&df);
            if names == out_names {
                return Ok(df);
            }
            if Self::names_unique(&names) && Self::names_unique(&out_names) {
                // a subsequence in order: drop the others; else select by name
                let mut it = names.iter();
                let subsequence = out_names.iter().all(|n| it.any(|x| x == n));
                if subsequence {
                    let drop: Vec<&str> = names.iter().filter(|n| !out_names.contains(n)).map(|s| s.as_str()).collect();
                    return this.op("drop_columns", df.drop_columns(&drop));
                }
                let keep: Vec<&str> = out_names.iter().map(|s| s.as_str()).collect();
                return this.op("select_columns", df.select_columns(&keep));
            }
            this.op("select", df.select(final_cols.clone()))
        };
        // (b) only columns, some renamed: with_column_renamed
        if all_cols && !aliases.is_empty() && aliases_fresh {
            let refs: Vec<&A::Expr> = sel.items.iter().map(|i| &i.expr).collect();
            let distinct_refs = refs.iter().enumerate().all(|(i, r)| !refs[..i].contains(r));
            if distinct_refs {
                let mut df = df;
                for it in &sel.items {
                    if let (A::Expr::Col { rel, name }, Some(a)) = (&it.expr, &it.alias) {
                        let old = match rel {
                            Some(r) => format!("{r}.{name}"),
                            None => name.clone(),
                        };
                        df = self.op("with_column_renamed", df.with_column_renamed(old, a))?;
                    }
                }
                return finish(self, df);
            }
        }
        // (c) columns kept as they are + computed, aliased expressions: with_column
        let shape_ok = sel.items.iter().all(|i| match (&i.expr, &i.alias) {
            (A::Expr::Col { .. }, None) => true,
            (A::Expr::Col { .. }, Some(_)) => false,
            (_, Some(_)) => true,
            (_, None) => false,
        });
        if shape_ok && !aliases.is_empty() && aliases_fresh && Self::names_unique(&out_names) {
            let mut df = df;
            for it in &sel.items {
                if let (false, Some(a)) = (matches!(it.expr, A::Expr::Col { .. }), &it.alias) {
                    let e = self.ex(&it.expr, map)?;
                    df = self.op("with_column", df.with_column(a, e))?;
                }
            }
            return finish(self, df);
        }
        self.project_direct(df, sel, map)
    }

    // ---------------------------------------------------------------- set operations / queries

    fn set(&mut self, s: &A::SetExpr) -> R<DataFrame> {
        match s {
            A::SetExpr::Select(sel) => Ok(self.select(sel, &[])?.0),
            A::SetExpr::Query(q) => self.query(q),
            A::SetExpr::Values(_) => skip("VALUES"),
            A::SetExpr::SetOp { op, all, left, right } => {
                let l = self.set(left)?;
                let r = self.set(right)?;
                match (op, all) {
                    (A::SetOp::Union, _) => {
                        if self.style == Style::Alt {
                            let (ln, rn) = (Self::field_names(&l), Self::field_names(&r));
                            if ln.len() == rn.len() && Self::names_unique(&ln) && Self::names_unique(&rn) {
                                // the right operand renamed to the left's names and its columns reversed: by-name matching must undo both
                                let renamed: Vec<DExpr> = (0..rn.len()).rev().map(|i| Self::out_col(&r, i).alias(&ln[i])).collect();
                                let r2 = self.op("select", r.select(renamed))?;
                                return if *all { self.op("union_by_name", l.union_by_name(r2)) } else { self.op("union_by_name_distinct", l.union_by_name_distinct(r2)) };
                            }
                        }
                        if *all { self.op("union", l.union(r)) } else { self.op("union_distinct", l.union_distinct(r)) }
                    }
                    (A::SetOp::Intersect, true) => self.op("intersect", l.intersect(r)),
                    (A::SetOp::Intersect, false) => self.op("intersect_distinct", l.intersect_distinct(r)),
                    (A::SetOp::Except, true) => self.op("except", l.except(r)),
                    (A::SetOp::Except, false) => self.op("except_distinct", l.except_distinct(r)),
                }
            }
        }
    }

    fn query(&mut self, q: &A::Query) -> R<DataFrame> {
        let n_ctes = self.ctes.len();
        for c in &q.with {
            if c.recursive {
                return skip("recursive CTE");
            }
            if !c.columns.is_empty() {
                return skip("CTE with a column list");
            }
            let df = self.query(&c.query)?;
            self.ctes.push((c.name.clone(), df));
        }
        let r = self.query_body(q);
        self.ctes.truncate(n_ctes);
        r
    }

    fn query_body(&mut self, q: &A::Query) -> R<DataFrame> {
        let (mut df, map, consumed, items): (DataFrame, Map, bool, Vec<A::SelectItem>) = match &q.body {
            A::SetExpr::Select(sel) => {
                let (df, map, consumed) = self.select(sel, &q.order_by)?;
                (df, map, consumed, sel.items.clone())
            }
            other => (self.set(other)?, vec![], false, vec![]),
        };
        if !q.order_by.is_empty() && !consumed {
            let mut keys = vec![];
            for o in &q.order_by {
                // an output position, an output alias, a projected expression, or any expression over the input
                let hit = match &o.expr {
                    A::Expr::Lit(Value::Int(k)) if *k >= 1 && (*k as usize) <= df.schema().fields().len() => Some(*k as usize - 1),
                    e => items.iter().position(|i| matches!((e, &i.alias), (A::Expr::Col { rel: None, name }, Some(a)) if a == name)).or_else(|| items.iter().position(|i| &i.expr == e)),
                };
                let e = match hit {
                    Some(i) => Self::out_col(&df, i),
                    None => self.ex(&o.expr, &map)?,
                };
                keys.push((e, o));
            }
            let all_default = q.order_by.iter().all(|o| !o.desc && !o.nulls_first_effective());
            if self.style == Style::Alt && all_default {
                df = self.op("sort_by", df.sort_by(keys.into_iter().map(|k| k.0).collect()))?;
            } else {
                df = self.op("sort", df.sort(keys.into_iter().map(|(e, o)| sort_expr(e, o)).collect()))?;
            }
        }
        if q.limit.is_some() || q.offset.is_some() {
            let (skip_n, fetch) = (q.offset.unwrap_or(0) as usize, q.limit.map(|l| l as usize));
            if self.style == Style::Alt && skip_n > 0 && fetch.is_some() {
                df = self.op("limit(skip)", df.limit(skip_n, None))?;
                df = self.op("limit(fetch)", df.limit(0, fetch))?;
            } else {
                df = self.op("limit", df.limit(skip_n, fetch))?;
            }
        }
        Ok(df)
    }
}

/// Render `q` in `style`: the frame (or why not) and the operations used.
fn render(sctx: &SessionContext, q: &A::Query, style: Style) -> (R<DataFrame>, Vec<String>) {
    render_with(sctx, q, style, false)
}

fn render_with(sctx: &SessionContext, q: &A::Query, style: Style, explicit_default_frame: bool) -> (R<DataFrame>, Vec<String>) {
    let mut r = Rend { sctx, style, ctes: vec![], ops: vec![], explicit_default_frame };
    let out = mc_core::catch(|| r.query(q)).unwrap_or_else(|p| Err(Stop::Build(format!("panic in a builder method: {p}"))));
    (out, r.ops)
}

// ------------------------------------------------------------------ supplement

struct Extra {
    name: &'static str,
    sql: &'static str,
    /// ordered comparison on these output columns (None = multiset)
    build: fn(&SessionContext) -> datafusion::error::Result<DataFrame>,
}

fn table(sctx: &SessionContext, name: &str) -> datafusion::error::Result<DataFrame> {
    let sctx = sctx.clone();
    let n = name.to_string();
    engine::block_on(async move { sctx.table(n.as_str()).await })
}

fn c(name: &str) -> DExpr {
    DExpr::Column(Column::from_qualified_name(name))
}

fn extras() -> Vec<Extra> {
    use datafusion::functions_nested::expr_fn::make_array;
    vec![
        Extra { name: "unnest_columns", sql: "SELECT a, unnest(make_array(b, 10)) AS x FROM t", build: |s| table(s, "t")?.select(vec![c("a"), make_array(vec![c("b"), lit(10i64)]).alias("x")])?.unnest_columns(&["x"]) },
        Extra {
            name: "unnest_columns_after_aggregate",
            sql: "SELECT s.a, unnest(s.l) AS x FROM (SELECT a, array_agg(b) AS l FROM t GROUP BY a) AS s",
            build: |s| table(s, "t")?.aggregate(vec![c("a")], vec![fa::expr_fn::array_agg(c("b")).alias("l")])?.unnest_columns(&["l"])?.with_column_renamed("l", "x"),
        },
        Extra {
            name: "union_by_name_missing_columns",
            sql: "SELECT a, b, NULL AS c FROM t UNION ALL SELECT a, NULL AS b, c FROM u",
            build: |s| table(s, "t")?.union_by_name(table(s, "u")?),
        },
        Extra {
            name: "union_by_name_distinct_missing_columns",
            sql: "SELECT a, b, NULL AS c FROM t UNION SELECT a, NULL AS b, c FROM u",
            build: |s| table(s, "t")?.union_by_name_distinct(table(s, "u")?),
        },
        Extra { name: "with_column_replaces", sql: "SELECT a, a + b AS b FROM t", build: |s| table(s, "t")?.with_column("b", c("a") + c("b")) },
        Extra { name: "with_column_appends_then_filter", sql: "SELECT a, b, a * 2 AS d FROM t WHERE a * 2 > 2", build: |s| table(s, "t")?.with_column("d", c("a") * lit(2i64))?.filter(c("d").gt(lit(2i64))) },
        Extra {
            name: "drop_columns_after_join",
            sql: "SELECT t.a, t.b, u.c FROM t JOIN u ON t.a = u.a",
            build: |s| table(s, "t")?.join(table(s, "u")?, JoinType::Inner, &["t.a"], &["u.a"], None)?.drop_columns(&["u.a"]),
        },
        Extra {
            name: "join_keys_given_right_side_first",
            sql: "SELECT t.a, t.b, u.a, u.c FROM t RIGHT JOIN u ON t.a = u.a",
            build: |s| table(s, "t")?.join(table(s, "u")?, JoinType::Right, &["u.a"], &["t.a"], None),
        },
        Extra { name: "drop_columns_unqualified", sql: "SELECT x, a FROM w", build: |s| table(s, "w")?.drop_columns(&["f"]) },
        Extra { name: "select_columns_reordered", sql: "SELECT b, a FROM t", build: |s| table(s, "t")?.select_columns(&["b", "a"]) },
        Extra { name: "with_column_renamed_then_filter", sql: "SELECT a AS k, b FROM t WHERE a > 1", build: |s| table(s, "t")?.with_column_renamed("a", "k")?.filter(c("k").gt(lit(1i64))) },
        Extra {
            name: "fill_null_float",
            sql: "SELECT coalesce(x, 0.0) AS x, f, a FROM w",
            build: |s| table(s, "w")?.fill_null(&ScalarValue::Float64(Some(0.0)), &["x"]),
        },
        Extra {
            name: "fill_null_int_all_columns",
            sql: "SELECT coalesce(a, 7) AS a, coalesce(b, 7) AS b FROM t",
            build: |s| table(s, "t")?.fill_null(&ScalarValue::Int32(Some(7)), &[]),
        },
        Extra {
            name: "left_join_keys_same_name",
            sql: "SELECT t.a, t.b, u.a, u.c FROM t LEFT JOIN u ON t.a = u.a AND t.b > 1",
            build: |s| table(s, "t")?.join(table(s, "u")?, JoinType::Left, &["a"], &["a"], Some(c("t.b").gt(lit(1i64)))),
        },
        Extra {
            name: "aggregate_then_sort_limit",
            sql: "SELECT a, sum(b) AS s FROM t GROUP BY a ORDER BY a ASC NULLS FIRST LIMIT 2",
            build: |s| table(s, "t")?.aggregate(vec![c("a")], vec![fa::expr_fn::sum(c("b")).alias("s")])?.sort(vec![c("a").sort(true, true)])?.limit(0, Some(2)),
        },
        Extra {
            name: "distinct_on_with_sort",
            sql: "SELECT DISTINCT ON (a) a, b FROM t ORDER BY a ASC, b DESC",
            build: |s| table(s, "t")?.distinct_on(vec![c("a")], vec![c("a"), c("b")], Some(vec![c("a").sort(true, false), c("b").sort(false, true)])),
        },
        Extra {
            name: "intersect_then_except",
            sql: "(SELECT a FROM t INTERSECT SELECT a FROM u) EXCEPT SELECT a FROM w",
            build: |s| table(s, "t")?.select(vec![c("a")])?.intersect_distinct(table(s, "u")?.select(vec![c("a")])?)?.except_distinct(table(s, "w")?.select(vec![c("a")])?),
        },
        Extra { name: "select_exprs", sql: "SELECT a + b AS s, a FROM t", build: |s| table(s, "t")?.select_exprs(&["a + b AS s", "a"]) },
        Extra { name: "alias_then_self_join", sql: "SELECT x.a, y.b FROM t AS x JOIN t AS y ON x.b = y.a", build: |s| table(s, "t")?.alias("x")?.join_on(table(s, "t")?.alias("y")?, JoinType::Inner, vec![c("x.b").eq(c("y.a"))])?.select(vec![c("x.a"), c("y.b")]) },
    ]
}

fn extra_flags(e: &Extra) -> QueryFlags {
    match e.name {
        "aggregate_then_sort_limit" => QueryFlags { ordered: true, has_limit: true, may_fail: false, order_key_cols: Some(vec![0]) },
        "distinct_on_with_sort" => QueryFlags { ordered: true, has_limit: false, may_fail: false, order_key_cols: Some(vec![0, 1]) },
        _ => QueryFlags::default(),
    }
}

// ------------------------------------------------------------------ cases

#[derive(Serialize, Deserialize, Clone, Debug)]
struct Case {
    id: String,
    sql: String,
    /// grammar query (None for a supplement chain, identified by `id`)
    ast: Option<A::Query>,
    style: Style,
    db_label: String,
    db: Database,
    flags: QueryFlags,
    #[serde(default)]
    cause: Option<String>,
}

enum Verdict {
    Skipped(String),
    BuildRefused(String),
    Same { rows: Vec<Row>, ops: Vec<String> },
    BothFail,
    OnlySqlFails,
    Violation { kind: &'static str, what: String, ops: Vec<String> },
}

fn normalise_error(e: &str) -> String {
    let mut first = e.lines().next().unwrap_or("").to_string();
    for wrapper in ["Error during planning: ", "Execution error: ", "DataFusion error: ", "This feature is not implemented: ", "Schema error: ", "Internal error: "] {
        first = first.replace(wrapper, "");
    }
    let mut out = String::new();
    let mut in_digits = false;
    for ch in first.chars() {
        if ch.is_ascii_digit() {
            if !in_digits {
                out.push('N');
            }
            in_digits = true;
            continue;
        }
        in_digits = false;
        out.push(ch);
    }
    out.trim().chars().take(120).collect()
}

fn judge(sctx: &SessionContext, sql_res: &Result<Vec<Row>, String>, chain: (R<DataFrame>, Vec<String>), spec: &OrderSpec) -> Verdict {
    let (df, ops) = chain;
    let df = match df {
        Ok(d) => d,
        Err(Stop::Skip(w)) => return Verdict::Skipped(w),
        Err(Stop::Build(w)) => return Verdict::BuildRefused(normalise_error(&w)),
    };
    let _ = sctx;
    let got = engine::run_df(df).map(|r| r.rows);
    match (got, sql_res) {
        (Ok(g), Ok(s)) => match compare_engine_results(&g, s, spec) {
            Ok(()) => Verdict::Same { rows: g, ops },
            Err(w) => Verdict::Violation { kind: "rows_differ", what: format!("DataFrame chain [{}] vs SQL: {w}", ops.join(" > ")), ops },
        },
        (Err(_), Err(_)) => Verdict::BothFail,
        (Ok(_), Err(_)) => Verdict::OnlySqlFails,
        (Err(e), Ok(s)) => Verdict::Violation {
            kind: "dataframe_fails",
            what: format!("DataFrame chain [{}] fails with `{}` but the SQL route returns {}", ops.join(" > "), e.lines().next().unwrap_or(""), show_rows(s)),
            ops,
        },
    }
}

fn chain_for(sctx: &SessionContext, c: &Case) -> Result<(R<DataFrame>, Vec<String>), String> {
    match &c.ast {
        Some(q) => Ok(render(sctx, q, c.style)),
        None => {
            let e = extras().into_iter().find(|e| e.name == c.id).ok_or_else(|| format!("unknown supplement chain {}", c.id))?;
            let r = mc_core::catch(|| (e.build)(sctx)).unwrap_or_else(|p| Err(datafusion::error::DataFusionError::Execution(format!("panic: {p}"))));
            Ok((r.map_err(|e| Stop::Build(e.to_string())), vec![e.name.to_string()]))
        }
    }
}

fn run_case(c: &Case) -> Result<(), String> {
    let sctx = engine::make_context(&c.db, &ContextOptions::default())?;
    let sql_res = engine::run_sql(&sctx, &c.sql).map(|r| r.rows);
    let chain = chain_for(&sctx, c)?;
    match judge(&sctx, &sql_res, chain, &(&c.flags).into()) {
        Verdict::Violation { what, .. } => Err(what),
        // a supplement chain is hand-written: the builder refusing it is a failure of the check's own chain
        Verdict::BuildRefused(w) if c.ast.is_none() => Err(format!("builder refused the supplement chain: {w}")),
        _ => Ok(()),
    }
}

/// Root-cause key of a violation.
fn cause_of(q: Option<&GenQuery>, style: Style, kind: &str, ops: &[String], id: &str, explained_by_explicit_frame: bool) -> String {
    let Some(q) = q else { return format!("supplement:{id}:{kind}") };
    // the operations that distinguish the styles, else the family
    let special: Vec<&str> = ops
        .iter()
        .map(|s| s.as_str())
        .filter(|o| !matches!(*o, "table" | "alias" | "select" | "filter" | "sort" | "limit" | "read_empty"))
        .collect::<BTreeSet<_>>()
        .into_iter()
        .collect();
    // exact attribution: the same chain with the SQL default frame written out agrees with SQL
    if explained_by_explicit_frame {
        return "window_with_order_by_and_no_frame".into();
    }
    format!("{}:{kind}:F{}:{}", style.tag(), q.family, special.join("+"))
}

// ------------------------------------------------------------------ exploration

fn explore(ctx: &Ctx) {
    let tier = ctx.pick(Tier::Quick, Tier::Thorough);
    let qs: Vec<GenQuery> = grammar::queries(tier);
    let dbs = db::rich_databases();
    let ex = extras();
    // static pass on the empty database: which queries render, with which operations
    let empty = Database::empty();
    let esctx = engine::make_context(&empty, &ContextOptions::default()).expect("context");
    let mut skip_reasons: BTreeMap<String, (usize, String)> = BTreeMap::new();
    let mut renderable: Vec<bool> = vec![false; qs.len()];
    let mut alt_differs: Vec<bool> = vec![false; qs.len()];
    let mut op_cover: BTreeMap<String, usize> = BTreeMap::new();
    let mut per_family: BTreeMap<String, (usize, usize)> = BTreeMap::new();
    for (i, q) in qs.iter().enumerate() {
        let fam = per_family.entry(format!("F{:02}", q.family)).or_insert((0, 0));
        fam.0 += 1;
        let (d, dops) = render(&esctx, &q.ast, Style::Direct);
        match d {
            Err(Stop::Skip(w)) => {
                let e = skip_reasons.entry(w).or_insert((0, q.sql.clone()));
                e.0 += 1;
                continue;
            }
            _ => {
                renderable[i] = true;
                fam.1 += 1;
            }
        }
        let (_, aops) = render(&esctx, &q.ast, Style::Alt);
        alt_differs[i] = aops != dops;
        let mut used: BTreeSet<&String> = dops.iter().collect();
        if alt_differs[i] {
            used.extend(aops.iter());
        }
        for o in used {
            *op_cover.entry(o.clone()).or_insert(0) += 1;
        }
    }
    let empty_res: Vec<Option<Vec<Row>>> = qs.iter().map(|q| engine::run_sql(&esctx, &q.sql).ok().map(|r| r.rows)).collect();
    ctx.set_extra(
        "bounds",
        json!({
            "queries": qs.len(), "renderable": renderable.iter().filter(|x| **x).count(), "with_a_distinct_alt_chain": alt_differs.iter().filter(|x| **x).count(),
            "per_family (queries, renderable)": per_family.iter().map(|(k, v)| (k.clone(), json!([v.0, v.1]))).collect::<BTreeMap<_, _>>(),
            "supplement_chains": ex.iter().map(|e| e.name).collect::<Vec<_>>(),
            "databases": dbs.iter().map(|d| d.0.clone()).collect::<Vec<_>>(),
            "layout": "1 partition, 1 batch", "config": "default, target_partitions=1",
        }),
    );
    ctx.set_extra("not_expressible", json!(skip_reasons.iter().map(|(k, (n, ex))| json!({"reason": k, "queries": n, "example": ex})).collect::<Vec<_>>()));
    ctx.set_extra("dataframe_methods_exercised (queries using them)", json!(op_cover));
    for (k, (n, _)) in &skip_reasons {
        ctx.count(&format!("skipped_queries:{k}"), *n as u64);
    }

    // work: (query or supplement, database)
    let mut work: Vec<(usize, usize)> = vec![];
    for qi in 0..qs.len() + ex.len() {
        if qi < qs.len() && !renderable[qi] {
            continue;
        }
        for di in 0..dbs.len() {
            work.push((qi, di));
        }
    }
    if ctx.seed != 0 {
        let s = ctx.seed;
        work.sort_by_key(|w| mc_core::stable_hash(&(s, w)));
    }
    type Rank = (usize, usize, usize);
    let fails: Mutex<BTreeMap<String, (Rank, String, Case, u64)>> = Mutex::new(BTreeMap::new());
    let refused: Mutex<BTreeMap<String, (u64, String)>> = Mutex::new(BTreeMap::new());
    work.par_iter().for_each(|&(qi, di)| {
        if ctx.out_of_time() {
            return;
        }
        let (label, dbv) = &dbs[di];
        let sctx = match engine::make_context(dbv, &ContextOptions::default()) {
            Ok(c) => c,
            Err(e) => {
                ctx.machinery_error(format!("cannot build context: {e}"));
                return;
            }
        };
        let (id, sql, ast, flags, gq): (String, String, Option<A::Query>, QueryFlags, Option<&GenQuery>) = if qi < qs.len() {
            let q = &qs[qi];
            (q.id.clone(), q.sql.clone(), Some(q.ast.clone()), q.flags.clone(), Some(q))
        } else {
            let e = &ex[qi - qs.len()];
            (e.name.to_string(), e.sql.to_string(), None, extra_flags(e), None)
        };
        let spec: OrderSpec = (&flags).into();
        let sql_res = engine::run_sql(&sctx, &sql).map(|r| r.rows);
        let styles: Vec<Style> = if qi < qs.len() && alt_differs[qi] { vec![Style::Direct, Style::Alt] } else { vec![Style::Direct] };
        for style in styles {
            let case = Case { id: id.clone(), sql: sql.clone(), ast: ast.clone(), style, db_label: label.clone(), db: dbv.clone(), flags: flags.clone(), cause: None };
            let chain = match chain_for(&sctx, &case) {
                Ok(c) => c,
                Err(e) => {
                    ctx.machinery_error(e);
                    return;
                }
            };
            let record = |kind: &'static str, what: String, ops: &[String], explained: bool| {
                let cause = cause_of(gq, style, kind, ops, &id, explained);
                let rank: Rank = (qi, style as usize, di);
                let mut c2 = case.clone();
                c2.cause = Some(cause.clone());
                let mut f = fails.lock().unwrap();
                match f.get_mut(&cause) {
                    Some(e) => {
                        e.3 += 1;
                        if rank < e.0 {
                            *e = (rank, what, c2, e.3);
                        }
                    }
                    None => {
                        f.insert(cause, (rank, what, c2, 1));
                    }
                }
            };
            match judge(&sctx, &sql_res, chain, &spec) {
                Verdict::Skipped(_) => ctx.count("skipped_at_run_time", 1),
                Verdict::BuildRefused(w) => {
                    if gq.is_none() {
                        ctx.eval();
                        record("supplement_chain_refused", format!("builder refused the hand-written chain: {w}"), &[], false);
                    } else {
                        ctx.count(&format!("builder_refused:{}", style.tag()), 1);
                        let mut r = refused.lock().unwrap();
                        let e = r.entry(format!("{} | {}", style.tag(), w)).or_insert((0, sql.clone()));
                        e.0 += 1;
                    }
                }
                Verdict::Same { rows, ops } => {
                    ctx.eval();
                    ctx.count(&format!("evals:{}", style.tag()), 1);
                    let differs_from_empty = if qi < qs.len() { empty_res[qi].as_ref().map(|e| !same_multiset(e, &rows)).unwrap_or(true) } else { true };
                    if !rows.is_empty() && differs_from_empty {
                        ctx.nontrivial(&(&id, style, label));
                        ctx.count(&format!("nontrivial:{}", style.tag()), 1);
                        if ctx.want_sample() && style == Style::Alt && ops.len() >= 5 {
                            ctx.sample(json!({"sql": sql, "style": style.tag(), "chain": ops, "db": label, "rows": show_rows(&rows)}));
                        }
                    }
                }
                Verdict::BothFail => {
                    ctx.eval();
                    ctx.count("both_fail", 1);
                }
                Verdict::OnlySqlFails => {
                    ctx.eval();
                    ctx.count("only_sql_fails", 1);
                }
                Verdict::Violation { kind, what, ops } => {
                    ctx.eval();
                    // SQL does not determine the answer of this query on this database (e.g. last_value among
                    // tied peers, whose order depends on how the plan happens to sort): two different answers of
                    // the two styles are then both admissible, and the comparison says nothing
                    if kind == "rows_differ"
                        && let Some(q) = &ast
                        && let chk_sql::sqlmc::reference::RefOutcome::Ambiguous(why) = chk_sql::sqlmc::reference::evaluate(dbv, q)
                    {
                        ctx.count(&format!("skipped: SQL leaves the result open ({why})"), 1);
                        continue;
                    }
                    // is the difference explained exactly by the default frame of window functions with ORDER BY?
                    let explained = kind == "rows_differ"
                        && match (&ast, &sql_res) {
                            (Some(q), Ok(s)) => match render_with(&sctx, q, style, true).0 {
                                Ok(df) => match engine::run_df(df) {
                                    Ok(r) => {
                                        let c = compare_engine_results(&r.rows, s, &spec);
                                        if std::env::var_os("VERIF_C48_DEBUG").is_some() {
                                            eprintln!("explicit-frame chain: {:?} -> {:?}", show_rows(&r.rows), c.as_ref().err());
                                        }
                                        c.is_ok()
                                    }
                                    Err(e) => {
                                        if std::env::var_os("VERIF_C48_DEBUG").is_some() {
                                            eprintln!("explicit-frame chain fails to run: {e:?}");
                                        }
                                        false
                                    }
                                },
                                Err(e) => {
                                    if std::env::var_os("VERIF_C48_DEBUG").is_some() {
                                        eprintln!("explicit-frame chain refused: {e:?}");
                                    }
                                    false
                                }
                            },
                            _ => false,
                        };
                    let what = if explained { format!("{what}\n(the same chain with `.window_frame(RANGE UNBOUNDED PRECEDING .. CURRENT ROW)` written out agrees with SQL)") } else { what };
                    record(kind, what, &ops, explained);
                }
            }
        }
    });
    let rf = refused.into_inner().unwrap();
    ctx.set_extra("builder_refusals", json!(rf.iter().map(|(k, (n, ex))| json!({"style | reason": k, "cases": n, "example": ex})).collect::<Vec<_>>()));
    for (cause, (_, what, case, n)) in fails.into_inner().unwrap() {
        ctx.count(&format!("cases_attributed_to:{cause}"), n);
        ctx.violation(cause, format!("{} [{}] on {}: {what}\n[{n} case(s) share this key; this is the smallest]", case.sql, case.style.tag(), case.db_label), serde_json::to_value(&case).unwrap());
    }
}

fn replay(v: &Json) -> Result<(), String> {
    let c: Case = serde_json::from_value(v.clone()).map_err(|e| format!("bad case: {e}"))?;
    run_case(&c)
}

// ------------------------------------------------------------------ debug helpers

fn debug_main(args: &[String]) -> bool {
    let tier = if std::env::args().any(|a| a == "thorough") { Tier::Thorough } else { Tier::Quick };
    if args.iter().any(|a| a == "--chains") {
        let sctx = engine::make_context(&Database::empty(), &ContextOptions::default()).unwrap();
        for q in grammar::queries(tier) {
            println!("{}\t{}", q.id, q.sql);
            for style in [Style::Direct, Style::Alt] {
                let (r, ops) = render(&sctx, &q.ast, style);
                match r {
                    Ok(_) => println!("    {}: {}", style.tag(), ops.join(" > ")),
                    Err(e) => println!("    {}: {:?}   after {}", style.tag(), e, ops.join(" > ")),
                }
            }
        }
        return true;
    }
    if let Some(p) = args.iter().position(|a| a == "--sql-id") {
        let id = args.get(p + 1).cloned().unwrap_or_default();
        let label = args.iter().position(|a| a == "--db").and_then(|i| args.get(i + 1)).cloned().unwrap_or("all_distinct".into());
        let dbv = db::rich_databases().into_iter().find(|(l, _)| *l == label).map(|x| x.1).unwrap_or_else(Database::empty);
        let sctx = engine::make_context(&dbv, &ContextOptions::default()).unwrap();
        println!("db: {}", dbv.show());
        for q in grammar::queries(tier).into_iter().filter(|q| q.id == id || q.sql == id) {
            println!("{}", q.sql);
            if let Ok(p) = engine::plan_sql(&sctx, &q.sql) {
                println!("SQL plan:\n{}", p.display_indent());
            }
            match engine::run_sql(&sctx, &q.sql) {
                Ok(r) => println!("  SQL -> {}", show_rows(&r.rows)),
                Err(e) => println!("  SQL -> ERROR {e}"),
            }
            for style in [Style::Direct, Style::Alt] {
                let (r, ops) = render(&sctx, &q.ast, style);
                println!("{}: {}", style.tag(), ops.join(" > "));
                match r {
                    Ok(df) => {
                        println!("{}", df.logical_plan().display_indent());
                        match engine::run_df(df) {
                            Ok(r) => println!("  -> {}", show_rows(&r.rows)),
                            Err(e) => println!("  -> ERROR {e}"),
                        }
                    }
                    Err(e) => println!("  {e:?}"),
                }
            }
        }
        return true;
    }
    false
}

fn main() {
    if debug_main(&mc_core::extra_args()) {
        return;
    }
    mc_core::quiet_panics();
    run_check(
        "C48",
        Level::Exploration,
        "every grammar query that has a DataFrame rendering (families F1-F6, F8, F9, expressible F12; not: subquery expressions, table functions, recursive CTEs, VALUES, JOIN USING) \
         rendered from its AST as a chain of DataFrame calls in two styles (direct: table/alias/join_on/filter/aggregate/select/distinct/distinct_on/union*/intersect*/except*/sort/limit; \
         alt: join on key columns + filter, split filters, with_column/with_column_renamed/drop_columns/select_columns, DataFrame::window, DISTINCT as aggregate, union_by_name* over a \
         reversed + renamed operand, sort_by, split limit) plus hand-written supplement chains (unnest_columns, union_by_name with missing columns, fill_null, ...) x 12 rich databases; \
         oracle = rows of the SQL text (multiset / order-key sequence per the query's order spec), the DataFrame route may fail only where SQL fails; \
         non-trivial = distinct (query, style, database) whose result is non-empty and differs from the query's result on the empty database",
        explore,
        replay,
    );
}
