//! C40 (part b, query level) — the file metadata cache, the file statistics
//! cache and the list-files cache honour their validity rules when a
//! `ListingTable` is queried while its files change.
//!
//! Style H: breadth-first search over operation histories on a real
//! `SessionContext` whose `RuntimeEnv` has all three caches enabled (the
//! list-files cache is a real `DefaultCache` with a TTL, stamped by a mock
//! `TimeProvider`), over `CREATE EXTERNAL TABLE t … LOCATION 'hmem://b/t/'`
//! (Parquet and CSV) on a harness `ObjectStore` (`store::HStore`) whose
//! `last_modified` is a logical counter and which logs every LIST / GET / HEAD.
//!
//! Alphabet: three queries (`SELECT x`, `count(*)`, `min/max` — the last two
//! answered from statistics for Parquet), four rewrites of file f1 ({same,
//! different} size × {same, newer} mtime), add / delete file f2, advance the
//! clock by less / more than the TTL, `DROP TABLE` + `CREATE EXTERNAL TABLE`
//! (spelled `t` or `public.t`).
//!
//! Oracle (exactly the documented validity rules, nothing more):
//! * list-files cache (`CacheManagerConfig::list_files_cache_ttl`: "the duration
//!   the list files cache will consider an entry valid after insertion";
//!   `SessionContext::invalidate_caches` on DROP TABLE): a directory listing that
//!   the engine obtained from the store (an *observed* LIST call) may be used by
//!   a query iff it is not older than the TTL and the table was not dropped since;
//!   otherwise the query must see the current file set with the current sizes /
//!   mtimes.
//! * statistics / file-metadata caches (`CachedFileMetadata::is_valid_for`,
//!   `CachedFileMetadataEntry::is_valid_for`: size AND last_modified unchanged):
//!   for a file listed with (size, mtime), information cached from an earlier
//!   version of that path may be used iff the engine could have seen that
//!   version under exactly that (size, mtime); otherwise the current bytes count.
//! The permitted answers of a query are therefore a *set*: one per permitted
//! listing × per-file permitted version.  In the two cases where staleness is
//! allowed (same size and same mtime; listing within its TTL) both the fresh and
//! the stale answers are members; everywhere else the set is the singleton
//! "reference over the current files".  When a permitted *stale listing* names a
//! file that has since been deleted or changed size, reading it is outside what
//! the caches document (the engine reads with a wrong length); any outcome is
//! accepted there and counted (`undefined_reads`).
//!
//! Root-cause attribution: a second reference model (`alt`) differs from the
//! documented one in a single point — `DROP TABLE public.t` does not end the life
//! of listings cached for `t`.  An answer the documented model forbids but `alt`
//! permits is recorded under one stable root-cause key (shortest history kept);
//! an answer both forbid is reported per history.
//!
//! De-duplication key: current files (content, mtime rank), the oracle's
//! knowledge (seen versions, live listing snapshots with remaining lifetime) and
//! the *real* contents of the three caches read through `list_entries()`
//! (paths, sizes, mtime ranks, cached statistics, remaining lifetime).

#[path = "c40q/store.rs"]
mod store;

use arrow::array::{Array, Int64Array};
use arrow::datatypes::{DataType, Field, Schema};
use arrow::record_batch::RecordBatch;
use bytes::Bytes;
use chk_sql::sqlmc::engine::block_on;
use datafusion::execution::runtime_env::RuntimeEnvBuilder;
use datafusion::prelude::{SessionConfig, SessionContext};
use datafusion_common::instant::Instant;
use datafusion_execution::cache::cache_manager::{CacheManagerConfig, CachedFileList};
use datafusion_execution::cache::default_cache::{DefaultCache, TimeProvider};
use datafusion_execution::cache::{Cache, TableScopedPath};
use mc_core::serde_json::{Value as Json, json};
use mc_core::{Ctx, Level, rayon::prelude::*, run_check};
use serde::{Deserialize, Serialize};
use std::collections::{BTreeMap, BTreeSet, HashSet};
use std::sync::atomic::{AtomicU64, Ordering};
use std::sync::{Arc, OnceLock};
use std::time::Duration;
use store::{EPOCH, HStore};

// ------------------------------------------------------------------ constants

/// TTL of the list-files cache (logical seconds).
const TTL: u64 = 10;
/// "less than the TTL" / "more than the TTL".  No sum of these equals the TTL, so
/// the boundary `now == stamp + ttl` (not pinned down by the documentation) is
/// never visited.
const ADV_LT: u64 = 4;
const ADV_GT: u64 = 11;

const F1: &str = "f1";
const F2: &str = "f2";

#[derive(Serialize, Deserialize, Clone, Copy, Debug, PartialEq, Eq, Hash, PartialOrd, Ord)]
enum Format {
    Parquet,
    Csv,
}

impl Format {
    fn ext(self) -> &'static str {
        match self {
            Format::Parquet => "parquet",
            Format::Csv => "csv",
        }
    }
    fn create_sql(self) -> String {
        match self {
            Format::Parquet => "CREATE EXTERNAL TABLE t (x BIGINT NOT NULL) STORED AS PARQUET LOCATION 'hmem://b/t/'".into(),
            Format::Csv => "CREATE EXTERNAL TABLE t (x BIGINT NOT NULL) STORED AS CSV LOCATION 'hmem://b/t/' OPTIONS ('format.has_header' 'true')".into(),
        }
    }
}

/// Content ids.  f1 holds one of A0/A1 (2 rows) or B0/B1 (3 rows); f2 one of
/// C0/C1 (1 row).  Contents of one class have the same byte size and the same
/// physical layout (asserted at start-up), contents of different classes have
/// different sizes.
type Content = u8;
const ROWS: [&[i64]; 6] = [&[1, 2], &[5, 7], &[10, 20, 30], &[11, 21, 31], &[100], &[200]];
const CONTENT_NAMES: [&str; 6] = ["A0[1,2]", "A1[5,7]", "B0[10,20,30]", "B1[11,21,31]", "C0[100]", "C1[200]"];

fn parquet_bytes(rows: &[i64]) -> Bytes {
    use parquet::arrow::ArrowWriter;
    use parquet::basic::{Compression, Encoding};
    use parquet::file::properties::{EnabledStatistics, WriterProperties};
    let schema = Arc::new(Schema::new(vec![Field::new("x", DataType::Int64, false)]));
    let batch = RecordBatch::try_new(schema.clone(), vec![Arc::new(Int64Array::from(rows.to_vec()))]).unwrap();
    let props = WriterProperties::builder()
        .set_compression(Compression::UNCOMPRESSED)
        .set_dictionary_enabled(false)
        .set_encoding(Encoding::PLAIN)
        .set_statistics_enabled(EnabledStatistics::Chunk)
        .set_created_by("c40q".to_string())
        .build();
    let mut buf = vec![];
    let mut w = ArrowWriter::try_new(&mut buf, schema, Some(props)).unwrap();
    w.write(&batch).unwrap();
    w.close().unwrap();
    Bytes::from(buf)
}

fn csv_bytes(rows: &[i64]) -> Bytes {
    let mut s = String::from("x\n");
    for r in rows {
        s.push_str(&format!("{r}\n"));
    }
    Bytes::from(s)
}

fn file_bytes(fmt: Format, c: Content) -> Bytes {
    static TABLE: OnceLock<Vec<Vec<Bytes>>> = OnceLock::new();
    let t = TABLE.get_or_init(|| {
        let t: Vec<Vec<Bytes>> = [Format::Parquet, Format::Csv]
            .iter()
            .map(|f| {
                ROWS.iter()
                    .map(|r| match f {
                        Format::Parquet => parquet_bytes(r),
                        Format::Csv => csv_bytes(r),
                    })
                    .collect()
            })
            .collect();
        for per in &t {
            // same class => same size; different class => different size
            assert_eq!(per[0].len(), per[1].len(), "A0/A1 must have equal size");
            assert_eq!(per[2].len(), per[3].len(), "B0/B1 must have equal size");
            assert_eq!(per[4].len(), per[5].len(), "C0/C1 must have equal size");
            assert_ne!(per[0].len(), per[2].len(), "A/B must differ in size");
        }
        t
    });
    t[fmt as usize][c as usize].clone()
}

fn size_of(fmt: Format, c: Content) -> u64 {
    file_bytes(fmt, c).len() as u64
}

// ------------------------------------------------------------------ alphabet

#[derive(Serialize, Deserialize, Clone, Copy, Debug, PartialEq, Eq, Hash, PartialOrd, Ord)]
enum Op {
    /// `SELECT x FROM t`
    QStar,
    /// `SELECT count(*) FROM t`
    QCount,
    /// `SELECT min(x), max(x) FROM t`
    QMinMax,
    /// rewrite f1: other content of the same size, mtime kept
    RwSameSizeSameMtime,
    /// rewrite f1: other content of the same size, newer mtime
    RwSameSizeNewer,
    /// rewrite f1: content of the other size class, mtime kept
    RwDiffSizeSameMtime,
    /// rewrite f1: content of the other size class, newer mtime
    RwDiffSizeNewer,
    /// create f2 (enabled when absent): contents alternate C0, C1, newer mtime
    AddF2,
    /// delete f2 (enabled when present)
    DelF2,
    AdvanceLtTtl,
    AdvanceGtTtl,
    /// `DROP TABLE t` then `CREATE EXTERNAL TABLE t …`
    DropCreate,
    /// `DROP TABLE public.t` then `CREATE EXTERNAL TABLE t …`
    DropQualifiedCreate,
}

const ALL_OPS: [Op; 13] = [
    Op::QStar,
    Op::QCount,
    Op::QMinMax,
    Op::RwSameSizeSameMtime,
    Op::RwSameSizeNewer,
    Op::RwDiffSizeSameMtime,
    Op::RwDiffSizeNewer,
    Op::AddF2,
    Op::DelF2,
    Op::AdvanceLtTtl,
    Op::AdvanceGtTtl,
    Op::DropCreate,
    Op::DropQualifiedCreate,
];

impl Op {
    fn sql(self) -> &'static str {
        match self {
            Op::QStar => "SELECT x FROM t",
            Op::QCount => "SELECT count(*) FROM t",
            Op::QMinMax => "SELECT min(x), max(x) FROM t",
            _ => "",
        }
    }
}

// ------------------------------------------------------------------ clock

struct Clock {
    base: Instant,
    secs: AtomicU64,
    /// detection demo: the cache's time source ignores `advance`
    frozen: bool,
}

impl TimeProvider for Clock {
    fn now(&self) -> Instant {
        let s = if self.frozen { 0 } else { self.secs.load(Ordering::SeqCst) };
        self.base + Duration::from_secs(s)
    }
}

// ------------------------------------------------------------------ reference model

/// A result, normalised: rows sorted; cells are `Option<i64>`.
type Answer = Vec<Vec<Option<i64>>>;

#[derive(Clone, Copy, Debug, PartialEq, Eq, Hash, PartialOrd, Ord)]
struct Ver {
    content: Content,
    mtime: i64,
}

#[derive(Clone, Debug)]
struct Snap {
    /// logical time of the LIST call
    at: u64,
    files: BTreeMap<&'static str, Ver>,
}

#[derive(Clone, Debug)]
struct Model {
    fmt: Format,
    files: BTreeMap<&'static str, Ver>,
    /// per path: (content, size, mtime) associations the engine has had the
    /// opportunity to form: `content` was the current bytes of the path during an
    /// engine event in which a permitted listing named the path with (size, mtime)
    seen: BTreeMap<&'static str, BTreeSet<(Content, u64, i64)>>,
    /// listings the engine obtained from the store (observed LIST calls) since the
    /// table was last dropped
    snaps: Vec<Snap>,
    now: u64,
    next_mtime: i64,
    next_f2: Content,
}

struct Permitted {
    fresh: Answer,
    answers: BTreeSet<Answer>,
    /// a permitted stale listing names a file that is gone or has another size
    undefined: bool,
}

fn answer_for(q: Op, contents: &[Content]) -> Answer {
    let mut xs: Vec<i64> = contents.iter().flat_map(|c| ROWS[*c as usize].iter().copied()).collect();
    xs.sort();
    match q {
        Op::QStar => xs.into_iter().map(|x| vec![Some(x)]).collect(),
        Op::QCount => vec![vec![Some(xs.len() as i64)]],
        Op::QMinMax => vec![vec![xs.first().copied(), xs.last().copied()]],
        _ => unreachable!(),
    }
}

impl Model {
    fn new(fmt: Format) -> Model {
        let mut files = BTreeMap::new();
        files.insert(F1, Ver { content: 0, mtime: 1 });
        Model { fmt, files, seen: BTreeMap::new(), snaps: vec![], now: 0, next_mtime: 2, next_f2: 4 }
    }
    fn size(&self, c: Content) -> u64 {
        size_of(self.fmt, c)
    }
    /// copy the environment part (files, clock, counters) of another model
    fn sync_files_from(&mut self, o: &Model) {
        self.files = o.files.clone();
        self.now = o.now;
        self.next_mtime = o.next_mtime;
        self.next_f2 = o.next_f2;
    }
    fn live_snaps(&self) -> impl Iterator<Item = &Snap> {
        self.snaps.iter().filter(|s| self.now - s.at <= TTL)
    }
    /// the listings a query may be planned from: the current one and every live snapshot
    fn listings(&self) -> Vec<BTreeMap<&'static str, Ver>> {
        let mut v = vec![self.files.clone()];
        for s in self.live_snaps() {
            if !v.contains(&s.files) {
                v.push(s.files.clone());
            }
        }
        v
    }
    /// An engine event (CREATE or query) happens now: record what the engine may
    /// associate with which (size, mtime).
    fn engine_event(&mut self) {
        for l in self.listings() {
            for (name, listed) in &l {
                if let Some(cur) = self.files.get(name) {
                    if self.size(cur.content) == self.size(listed.content) {
                        let sz = self.size(listed.content);
                        self.seen.entry(name).or_default().insert((cur.content, sz, listed.mtime));
                    }
                }
            }
        }
    }
    fn permitted(&self, q: Op, no_stale_allowance: bool) -> Permitted {
        let fresh = answer_for(q, &self.files.values().map(|v| v.content).collect::<Vec<_>>());
        let mut answers = BTreeSet::new();
        let mut undefined = false;
        if no_stale_allowance {
            answers.insert(fresh.clone());
            return Permitted { fresh, answers, undefined };
        }
        for l in self.listings() {
            let mut per_file: Vec<Vec<Content>> = vec![];
            let mut dead = false;
            for (name, listed) in &l {
                let lsize = self.size(listed.content);
                let mut alts: BTreeSet<Content> = BTreeSet::new();
                if let Some(seen) = self.seen.get(name) {
                    for (c, s, m) in seen {
                        if *s == lsize && *m == listed.mtime {
                            alts.insert(*c);
                        }
                    }
                }
                match self.files.get(name) {
                    Some(cur) if self.size(cur.content) == lsize => {
                        alts.insert(cur.content);
                    }
                    _ => undefined = true,
                }
                if alts.is_empty() {
                    dead = true;
                }
                per_file.push(alts.into_iter().collect());
            }
            if dead {
                continue;
            }
            // product of the per-file alternatives
            let mut combos: Vec<Vec<Content>> = vec![vec![]];
            for alts in &per_file {
                combos = combos
                    .into_iter()
                    .flat_map(|c| {
                        alts.iter().map(move |a| {
                            let mut c2 = c.clone();
                            c2.push(*a);
                            c2
                        })
                    })
                    .collect();
            }
            for c in combos {
                answers.insert(answer_for(q, &c));
            }
        }
        Permitted { fresh, answers, undefined }
    }
}

// ------------------------------------------------------------------ case / run

#[derive(Serialize, Deserialize, Clone, Debug, Default, PartialEq, Eq)]
struct Plant {
    /// store keeps the old mtime on a "newer mtime" rewrite (the model believes it is newer):
    /// what a validity rule that ignores last_modified would look like from outside
    #[serde(default)]
    store_keeps_mtime: bool,
    /// DROP TABLE + CREATE is not issued to the engine (the model believes it was):
    /// what a list cache that survives DROP TABLE would look like
    #[serde(default)]
    skip_drop: bool,
    /// the cache's TimeProvider never advances: a TTL that is not honoured
    #[serde(default)]
    frozen_cache_clock: bool,
    /// oracle weakened in the other direction: no stale answer is ever allowed
    #[serde(default)]
    oracle_no_stale_allowance: bool,
}

#[derive(Serialize, Deserialize, Clone, Debug)]
struct Case {
    format: Format,
    history: Vec<Op>,
    #[serde(default)]
    plant: Plant,
}

#[derive(Default, Clone, Debug)]
struct QueryFacts {
    /// the query did no LIST: the list-files cache answered
    list_hit: bool,
    /// the query listed again although an earlier listing of this table had been taken and differs
    /// from the current files (TTL expiry / DROP invalidated it)
    list_refreshed_after_change: bool,
    /// some listed file was not read at all (no GET): statistics / metadata came from a cache
    file_not_read: bool,
    /// a file was read again although an older version of the path had been cached under another (size, mtime)
    file_reread_after_change: bool,
    /// the answer differs from the reference over the current files (a permitted stale answer)
    stale_served: bool,
    undefined_read: bool,
    /// the engine panicked during an undefined read (accepted, but reported as a counter)
    undefined_panic: bool,
}

struct Outcome {
    key: String,
    last: Option<QueryFacts>,
    trace: Vec<Json>,
    /// answers forbidden by the documented rules but explained exactly by a recorded root cause
    causes: Vec<(&'static str, String)>,
}

enum RunResult {
    Ok(Outcome),
    Disabled,
}

fn rows_of(batches: &[RecordBatch]) -> Result<Answer, String> {
    let mut out: Answer = vec![];
    for b in batches {
        let cols: Vec<Int64Array> = b
            .columns()
            .iter()
            .map(|c| {
                let c = arrow::compute::cast(c, &DataType::Int64).map_err(|e| format!("cast: {e}"))?;
                Ok(c.as_any().downcast_ref::<Int64Array>().unwrap().clone())
            })
            .collect::<Result<_, String>>()?;
        for r in 0..b.num_rows() {
            out.push(cols.iter().map(|c| if c.is_null(r) { None } else { Some(c.value(r)) }).collect());
        }
    }
    out.sort();
    Ok(out)
}

fn exec(ctx: &SessionContext, sql: &str) -> Result<Answer, String> {
    mc_core::catch(|| {
        block_on(async {
            let df = ctx.sql(sql).await.map_err(|e| format!("plan error: {e}"))?;
            let batches = df.collect().await.map_err(|e| format!("execution error: {e}"))?;
            rows_of(&batches)
        })
    })
    .unwrap_or_else(|p| Err(format!("panic: {p}")))
}

struct Subject {
    ctx: SessionContext,
    store: Arc<HStore>,
    clock: Arc<Clock>,
}

fn make_subject(plant: &Plant) -> Result<Subject, String> {
    let clock = Arc::new(Clock { base: Instant::now(), secs: AtomicU64::new(0), frozen: plant.frozen_cache_clock });
    let store = Arc::new(HStore::new());
    let list_cache: Arc<dyn Cache<TableScopedPath, CachedFileList>> = Arc::new(
        DefaultCache::<TableScopedPath, CachedFileList>::new_with_ttl(1 << 20, Some(Duration::from_secs(TTL)))
            .with_name("c40q-list-files")
            .with_time_provider(clock.clone() as Arc<dyn TimeProvider>),
    );
    // statistics cache and file-metadata cache: the defaults CacheManager creates (both enabled)
    let cm = CacheManagerConfig::default().with_list_files_cache(Some(list_cache)).with_list_files_cache_ttl(Some(Duration::from_secs(TTL)));
    let rt = RuntimeEnvBuilder::new().with_cache_manager(cm).build_arc().map_err(|e| format!("runtime env: {e}"))?;
    rt.register_object_store(&url::Url::parse("hmem://b").unwrap(), store.clone());
    let cfg = SessionConfig::new().with_target_partitions(1);
    let ctx = SessionContext::new_with_config_rt(cfg, rt);
    Ok(Subject { ctx, store, clock })
}

fn path_of(fmt: Format, name: &str) -> String {
    format!("t/{name}.{}", fmt.ext())
}


/// Digest of the real cache contents (and of the oracle's knowledge) with mtimes replaced by ranks.
fn canonical(s: &Subject, m: &Model, alt: &Model) -> String {
    let cmgr = &s.ctx.runtime_env().cache_manager;
    let now = s.clock.now();
    // (mtime occurrences collected first)
    let mut mt: BTreeSet<i64> = BTreeSet::new();
    for mm in [m, alt] {
        for v in mm.files.values() {
            mt.insert(v.mtime);
        }
        for set in mm.seen.values() {
            for (_, _, t) in set {
                mt.insert(*t);
            }
        }
        for sn in mm.live_snaps() {
            for v in sn.files.values() {
                mt.insert(v.mtime);
            }
        }
    }
    let lm = |meta: &object_store::ObjectMeta| meta.last_modified.timestamp() - EPOCH;
    let list_entries = cmgr.get_list_files_cache().map(|c| c.list_entries()).unwrap_or_default();
    let stat_entries = cmgr.get_file_statistic_cache().map(|c| c.list_entries()).unwrap_or_default();
    let meta_entries = cmgr.get_file_metadata_cache().list_entries();
    for e in list_entries.values() {
        for f in e.value.files.iter() {
            mt.insert(lm(f));
        }
    }
    for e in stat_entries.values() {
        mt.insert(lm(&e.value.meta));
    }
    for e in meta_entries.values() {
        mt.insert(lm(&e.value.meta));
    }
    let rank: BTreeMap<i64, usize> = mt.into_iter().enumerate().map(|(i, t)| (t, i)).collect();
    let mut out = String::new();
    out.push_str(&format!("{:?}|files:", m.fmt));
    for (n, v) in &m.files {
        out.push_str(&format!("{n}={}@{};", v.content, rank[&v.mtime]));
    }
    out.push_str(&format!("|nextf2:{}", m.next_f2));
    let knowledge = |mm: &Model| -> String {
        let mut out = String::from("|seen:");
        for (n, set) in &mm.seen {
            for (c, sz, t) in set {
                out.push_str(&format!("{n}:{c}/{sz}@{};", rank[t]));
            }
        }
        out.push_str("|snaps:");
        let mut sn: BTreeMap<String, u64> = BTreeMap::new();
        for s in mm.live_snaps() {
            let k = s.files.iter().map(|(n, v)| format!("{n}={}@{}", v.content, rank[&v.mtime])).collect::<Vec<_>>().join(",");
            let remaining = TTL - (mm.now - s.at);
            let e = sn.entry(k).or_insert(0);
            *e = (*e).max(remaining);
        }
        for (k, r) in sn {
            out.push_str(&format!("[{k}]+{r};"));
        }
        out
    };
    let km = knowledge(m);
    let ka = knowledge(alt);
    out.push_str(&km);
    if ka != km {
        out.push_str("|ALT");
        out.push_str(&ka);
    }
    out.push_str("|LIST:");
    let mut l: Vec<String> = list_entries
        .iter()
        .map(|(k, e)| {
            let life = match e.expires {
                None => "inf".to_string(),
                Some(x) => match x.checked_duration_since(now) {
                    Some(d) => format!("+{}", d.as_secs()),
                    None => "expired".to_string(),
                },
            };
            let mut fs: Vec<String> = e.value.files.iter().map(|f| format!("{}:{}@{}", f.location, f.size, rank[&lm(f)])).collect();
            fs.sort();
            format!("{:?}/{}={}{}", k.table.as_ref().map(|t| t.to_string()), k.path, fs.join(","), life)
        })
        .collect();
    l.sort();
    out.push_str(&l.join(";"));
    out.push_str("|STATS:");
    let mut l: Vec<String> = stat_entries
        .iter()
        .map(|(k, e)| {
            let st = &e.value.statistics;
            let cs = st.column_statistics.first().map(|c| format!("{:?}/{:?}", c.min_value, c.max_value)).unwrap_or_default();
            format!("{:?}/{}:{}@{}={:?}/{}", k.table.as_ref().map(|t| t.to_string()), k.path, e.value.meta.size, rank[&lm(&e.value.meta)], st.num_rows, cs)
        })
        .collect();
    l.sort();
    out.push_str(&l.join(";"));
    out.push_str("|META:");
    let mut l: Vec<String> = meta_entries.iter().map(|(k, e)| format!("{}:{}@{}", k, e.value.meta.size, rank[&lm(&e.value.meta)])).collect();
    l.sort();
    out.push_str(&l.join(";"));
    out
}

fn show(a: &Answer) -> String {
    format!("{a:?}").replace("Some(", "").replace(")", "")
}

/// Root cause recorded for answers that the documented rules forbid but that are explained
/// *exactly* by "DROP TABLE spelled with a qualified name does not invalidate the listing cached
/// under the name the table was created with".
const CAUSE_QUALIFIED_DROP: &str =
    "list-files-cache-survives-DROP-TABLE-spelled-with-another-qualification:SessionContext::invalidate_caches(compares the unresolved TableReference with the cache key)";

/// Replay `case.history` on a fresh subject; check every query against the oracle.
///
/// Two reference models run side by side: `m` follows the documented rules; `alt` differs in one
/// point only — `DROP TABLE public.t` does not end the life of earlier listings.  An answer that
/// `m` rejects and `alt` permits is attributed to `CAUSE_QUALIFIED_DROP`; one that both reject is
/// an unexplained violation (`Err`).
fn run_case(case: &Case) -> Result<RunResult, String> {
    let fmt = case.format;
    let s = make_subject(&case.plant)?;
    let mut m = Model::new(fmt);
    let mut alt = Model::new(fmt);
    s.store.put(&path_of(fmt, F1), 0, file_bytes(fmt, 0), 1);
    let mut trace: Vec<Json> = vec![];
    let mut causes: Vec<(&'static str, String)> = vec![];
    // ever-listed snapshots (any age, also before a drop): only used to classify non-trivial cases
    let mut ever_listed: Vec<BTreeMap<&'static str, Ver>> = vec![];

    // drain the store log after an engine statement; LIST calls become snapshots
    let absorb = |m: &mut Model, alt: &mut Model, ever: &mut Vec<BTreeMap<&'static str, Ver>>| -> store::Calls {
        let calls = s.store.take_calls();
        for _l in &calls.lists {
            // files do not change while a statement runs, so the listing the engine received is the
            // model's current file set (the store may have been told to lie about an mtime in a
            // detection demo; the snapshot records what the model believes)
            ever.push(m.files.clone());
            m.snaps.push(Snap { at: m.now, files: m.files.clone() });
            alt.snaps.push(Snap { at: alt.now, files: alt.files.clone() });
        }
        calls
    };
    let create = |m: &mut Model, alt: &mut Model, ever: &mut Vec<BTreeMap<&'static str, Ver>>| -> Result<usize, String> {
        exec(&s.ctx, &fmt.create_sql()).map_err(|e| format!("CREATE EXTERNAL TABLE failed: {e}"))?;
        let c = absorb(m, alt, ever);
        m.engine_event();
        alt.engine_event();
        Ok(c.lists.len())
    };
    create(&mut m, &mut alt, &mut ever_listed)?;
    let mut last: Option<QueryFacts> = None;

    for (k, op) in case.history.iter().enumerate() {
        last = None;
        match *op {
            Op::QStar | Op::QCount | Op::QMinMax => {
                let p = m.permitted(*op, case.plant.oracle_no_stale_allowance);
                let p_alt = alt.permitted(*op, case.plant.oracle_no_stale_allowance);
                let got = exec(&s.ctx, op.sql());
                let calls = absorb(&mut m, &mut alt, &mut ever_listed);
                let mut facts = QueryFacts::default();
                facts.list_hit = calls.lists.is_empty();
                facts.list_refreshed_after_change =
                    !calls.lists.is_empty() && ever_listed[..ever_listed.len() - calls.lists.len()].iter().any(|l| *l != m.files);
                for (name, cur) in &m.files {
                    let path = path_of(fmt, name);
                    let read = calls.gets.iter().any(|g| *g == path);
                    let older = m.seen.get(name).map(|set| set.iter().any(|(_, sz, t)| (*sz, *t) != (m.size(cur.content), cur.mtime))).unwrap_or(false);
                    if !read {
                        facts.file_not_read = true;
                    } else if older {
                        facts.file_reread_after_change = true;
                    }
                }
                trace.push(json!({"op": format!("{op:?}"), "sql": op.sql(), "at": m.now,
                    "engine": match &got { Ok(a) => show(a), Err(e) => format!("error: {}", e.lines().next().unwrap_or("")) },
                    "reference_current_files": show(&p.fresh),
                    "permitted": p.answers.iter().map(show).collect::<Vec<_>>(),
                    "store_calls": {"LIST": calls.lists.len(), "GET": calls.gets, "HEAD": calls.heads}}));
                let verdict = |p: &Permitted| -> Result<(bool, bool), String> {
                    match &got {
                        Ok(a) if p.answers.contains(a) => Ok((*a != p.fresh, false)),
                        Err(e) if e.starts_with("panic:") && !p.undefined => Err(format!("step {k} `{}` panicked: {e}", op.sql())),
                        _ if p.undefined => Ok((false, true)),
                        Ok(a) => Err(format!(
                            "step {k} `{}` at t={}: engine answered {} but the validity rules only permit {} (reference over the current files: {}); files now: {}",
                            op.sql(),
                            m.now,
                            show(a),
                            p.answers.iter().map(show).collect::<Vec<_>>().join(" | "),
                            show(&p.fresh),
                            describe_files(&m),
                        )),
                        Err(e) => Err(format!(
                            "step {k} `{}` at t={}: engine failed ({}) although every file named by a permitted listing is readable; permitted answers {}; files now: {}",
                            op.sql(),
                            m.now,
                            e.lines().next().unwrap_or(""),
                            p.answers.iter().map(show).collect::<Vec<_>>().join(" | "),
                            describe_files(&m),
                        )),
                    }
                };
                match verdict(&p) {
                    Ok((stale, undef)) => {
                        facts.stale_served = stale;
                        facts.undefined_read = undef;
                        facts.undefined_panic = undef && matches!(&got, Err(e) if e.starts_with("panic:"));
                    }
                    Err(what) => match verdict(&p_alt) {
                        Ok(_) => causes.push((CAUSE_QUALIFIED_DROP, what)),
                        Err(_) => return Err(what),
                    },
                }
                m.engine_event();
                alt.engine_event();
                last = Some(facts);
            }
            Op::RwSameSizeSameMtime | Op::RwSameSizeNewer | Op::RwDiffSizeSameMtime | Op::RwDiffSizeNewer => {
                let cur = m.files[F1];
                let content = match *op {
                    Op::RwSameSizeSameMtime | Op::RwSameSizeNewer => cur.content ^ 1,
                    _ => cur.content ^ 2,
                };
                let newer = matches!(*op, Op::RwSameSizeNewer | Op::RwDiffSizeNewer);
                let mtime = if newer {
                    m.next_mtime += 1;
                    m.next_mtime - 1
                } else {
                    cur.mtime
                };
                m.files.insert(F1, Ver { content, mtime });
                let store_mtime = if newer && case.plant.store_keeps_mtime { s.store.mtime_of(&path_of(fmt, F1)).unwrap() } else { mtime };
                s.store.put(&path_of(fmt, F1), content, file_bytes(fmt, content), store_mtime);
                trace.push(json!({"op": format!("{op:?}"), "f1": CONTENT_NAMES[content as usize], "size": m.size(content), "mtime": mtime}));
            }
            Op::AddF2 => {
                if m.files.contains_key(F2) {
                    return Ok(RunResult::Disabled);
                }
                let content = m.next_f2;
                m.next_f2 ^= 1;
                let mtime = m.next_mtime;
                m.next_mtime += 1;
                m.files.insert(F2, Ver { content, mtime });
                s.store.put(&path_of(fmt, F2), content, file_bytes(fmt, content), mtime);
                trace.push(json!({"op": "AddF2", "f2": CONTENT_NAMES[content as usize], "size": m.size(content), "mtime": mtime}));
            }
            Op::DelF2 => {
                if !m.files.contains_key(F2) {
                    return Ok(RunResult::Disabled);
                }
                m.files.remove(F2);
                s.store.delete(&path_of(fmt, F2));
                trace.push(json!({"op": "DelF2"}));
            }
            Op::AdvanceLtTtl | Op::AdvanceGtTtl => {
                let d = if *op == Op::AdvanceLtTtl { ADV_LT } else { ADV_GT };
                m.now += d;
                s.clock.secs.store(m.now, Ordering::SeqCst);
                s.store.set_now(m.now);
                trace.push(json!({"op": format!("{op:?}"), "now": m.now}));
            }
            Op::DropCreate | Op::DropQualifiedCreate => {
                // the table is dropped: no earlier listing may be used any more
                m.snaps.clear();
                if *op == Op::DropCreate {
                    alt.snaps.clear();
                }
                if case.plant.skip_drop {
                    trace.push(json!({"op": format!("{op:?}"), "planted": "not issued to the engine"}));
                } else {
                    let drop = if *op == Op::DropCreate { "DROP TABLE t" } else { "DROP TABLE public.t" };
                    exec(&s.ctx, drop).map_err(|e| format!("step {k} `{drop}` failed: {e}"))?;
                    let c = s.store.take_calls();
                    if !c.lists.is_empty() {
                        return Err(format!("harness assumption broken: `{drop}` listed the store"));
                    }
                    let left = s.ctx.runtime_env().cache_manager.get_list_files_cache().map(|c| c.len()).unwrap_or(0);
                    // the file ops are applied to `m` only; mirror them before the engine event
                    alt.sync_files_from(&m);
                    let lists = create(&mut m, &mut alt, &mut ever_listed).map_err(|e| format!("step {k}: {e}"))?;
                    trace.push(json!({"op": format!("{op:?}"), "sql": [drop, fmt.create_sql()],
                        "list_files_cache_entries_left_by_drop": left, "LIST_calls_by_create": lists}));
                }
            }
        }
        alt.sync_files_from(&m);
    }
    let key = canonical(&s, &m, &alt);
    Ok(RunResult::Ok(Outcome { key, last, trace, causes }))
}

fn describe_files(m: &Model) -> String {
    m.files.iter().map(|(n, v)| format!("{n}={} size {} mtime {}", CONTENT_NAMES[v.content as usize], m.size(v.content), v.mtime)).collect::<Vec<_>>().join(", ")
}

// ------------------------------------------------------------------ exploration

fn plant_from_env() -> Plant {
    let mut p = Plant::default();
    if let Ok(v) = std::env::var("VERIF_C40Q_PLANT") {
        for w in v.split(',') {
            match w.trim() {
                "store_keeps_mtime" => p.store_keeps_mtime = true,
                "skip_drop" => p.skip_drop = true,
                "frozen_cache_clock" => p.frozen_cache_clock = true,
                "oracle_no_stale_allowance" => p.oracle_no_stale_allowance = true,
                "" => {}
                other => panic!("unknown VERIF_C40Q_PLANT entry {other}"),
            }
        }
    }
    p
}

fn explore(ctx: &Ctx) {
    let plant = plant_from_env();
    let depth_parquet = ctx.pick(5usize, 7usize);
    let depth_csv = ctx.pick(4usize, 6usize);
    ctx.set_extra(
        "bounds",
        json!({
            "max_history": {"parquet": depth_parquet, "csv": depth_csv},
            "alphabet": ALL_OPS.iter().map(|o| format!("{o:?}")).collect::<Vec<_>>(),
            "queries": [Op::QStar.sql(), Op::QCount.sql(), Op::QMinMax.sql()],
            "list_files_cache_ttl_s": TTL, "advance_s": [ADV_LT, ADV_GT],
            "files": {"f1": ["A0", "A1", "B0", "B1"], "f2": ["absent", "C0", "C1"]},
            "contents": CONTENT_NAMES,
            "sizes": {"parquet": (0..6).map(|c| size_of(Format::Parquet, c)).collect::<Vec<_>>(), "csv": (0..6).map(|c| size_of(Format::Csv, c)).collect::<Vec<_>>()},
            "planted": mc_core::serde_json::to_value(&plant).unwrap(),
        }),
    );
    ctx.assume("single session, target_partitions = 1, collect_statistics = true (default), schema declared in CREATE EXTERNAL TABLE");
    ctx.assume("same-size contents have the same physical layout, so a cached Parquet footer of the permitted-stale version decodes the current bytes");
    let mut totals: BTreeMap<&'static str, u64> = BTreeMap::new();
    // root cause -> (shortest history showing it, what, number of histories)
    let mut cause_min: BTreeMap<&'static str, (Format, Vec<Op>, String, u64)> = BTreeMap::new();
    for (fmt, depth) in [(Format::Parquet, depth_parquet), (Format::Csv, depth_csv)] {
        let mut seen: HashSet<String> = HashSet::new();
        match run_case(&Case { format: fmt, history: vec![], plant: plant.clone() }) {
            Ok(RunResult::Ok(o)) => {
                seen.insert(o.key);
                ctx.add_states(1);
            }
            Ok(RunResult::Disabled) => unreachable!(),
            Err(w) => {
                ctx.violation(format!("{fmt:?}:<empty history>"), w, mc_core::serde_json::to_value(Case { format: fmt, history: vec![], plant: plant.clone() }).unwrap());
                continue;
            }
        }
        let mut frontier: Vec<Vec<Op>> = vec![vec![]];
        for _d in 1..=depth {
            if ctx.should_stop() {
                ctx.mark_capped("wall cap");
                break;
            }
            let work: Vec<Vec<Op>> = frontier
                .iter()
                .flat_map(|h| {
                    ALL_OPS.iter().map(move |op| {
                        let mut h2 = h.clone();
                        h2.push(*op);
                        h2
                    })
                })
                .collect();
            let results: Vec<(Vec<Op>, Option<Result<RunResult, String>>)> = work
                .into_par_iter()
                .map(|h| {
                    if ctx.out_of_time() {
                        return (h, None);
                    }
                    let case = Case { format: fmt, history: h.clone(), plant: plant.clone() };
                    let r = mc_core::catch(|| run_case(&case)).unwrap_or_else(|p| Err(format!("harness panic: {p}")));
                    (h, Some(r))
                })
                .collect();
            let mut next = vec![];
            for (h, r) in results {
                match r {
                    None => ctx.mark_capped("wall cap"),
                    Some(Ok(RunResult::Disabled)) => {}
                    Some(Ok(RunResult::Ok(o))) => {
                        ctx.eval();
                        ctx.add_transitions(1);
                        if let Some(f) = &o.last {
                            let flags = [
                                ("queries_list_cache_hit", f.list_hit),
                                ("queries_relisted_after_change", f.list_refreshed_after_change),
                                ("queries_file_not_read(stats/metadata cache hit)", f.file_not_read),
                                ("queries_file_reread_after_change", f.file_reread_after_change),
                                ("queries_stale_but_permitted_answer", f.stale_served),
                                ("queries_undefined_reads(accepted)", f.undefined_read),
                                ("queries_undefined_reads_that_panicked(accepted)", f.undefined_panic),
                            ];
                            let mut any = false;
                            for (n, b) in flags {
                                if b {
                                    *totals.entry(n).or_default() += 1;
                                    any = true;
                                }
                            }
                            *totals.entry("queries_checked").or_default() += 1;
                            if any {
                                ctx.nontrivial(&(fmt, &h));
                            }
                            if (f.stale_served || f.file_reread_after_change) && h.len() >= 3 && ctx.want_sample() {
                                ctx.sample(json!({"format": format!("{fmt:?}"), "history": h.iter().map(|o| format!("{o:?}")).collect::<Vec<_>>(), "trace": o.trace}));
                            }
                        }
                        for (cause, what) in o.causes {
                            match cause_min.get_mut(cause) {
                                Some(e) => e.3 += 1,
                                None => {
                                    // BFS order: the first history showing a cause is a shortest one
                                    cause_min.insert(cause, (fmt, h.clone(), what, 1));
                                }
                            }
                        }
                        if seen.insert(o.key) {
                            ctx.add_states(1);
                            next.push(h);
                        }
                    }
                    Some(Err(w)) => {
                        ctx.eval();
                        ctx.add_transitions(1);
                        let key = format!("{fmt:?}:{}", h.iter().map(|o| format!("{o:?}")).collect::<Vec<_>>().join(","));
                        ctx.violation(key, w, mc_core::serde_json::to_value(Case { format: fmt, history: h.clone(), plant: plant.clone() }).unwrap());
                    }
                }
            }
            frontier = next;
            if frontier.is_empty() {
                break;
            }
        }
    }
    for (n, v) in totals {
        ctx.count(n, v);
    }
    for (cause, (fmt, hist, what, n)) in cause_min {
        ctx.count(&format!("histories_attributed_to:{cause}"), n);
        ctx.violation(
            cause,
            format!("{fmt:?} history [{}]: {what} [{n} explored histories show this root cause; this is a shortest one]", hist.iter().map(|o| format!("{o:?}")).collect::<Vec<_>>().join(", ")),
            mc_core::serde_json::to_value(Case { format: fmt, history: hist, plant: plant.clone() }).unwrap(),
        );
    }
}

fn replay(v: &Json) -> Result<(), String> {
    let c: Case = mc_core::serde_json::from_value(v.clone()).map_err(|e| format!("bad case: {e}"))?;
    match mc_core::catch(|| run_case(&c)).unwrap_or_else(|p| Err(format!("harness panic: {p}")))? {
        RunResult::Ok(o) => {
            if std::env::var("VERIF_C40Q_TRACE").is_ok() {
                for t in &o.trace {
                    eprintln!("trace: {t}");
                }
            }
            match o.causes.first() {
            Some((cause, what)) => Err(format!("[{cause}] {what}")),
                None => Ok(()),
            }
        }
        RunResult::Disabled => Err("history contains a disabled operation".into()),
    }
}

fn main() {
    mc_core::quiet_panics();
    run_check(
        "C40",
        Level::ModelChecking,
        "BFS over histories of {3 queries, 4 rewrites of f1 ({same,different} size x {same,newer} mtime), add/delete f2, clock +4s/+11s (TTL 10s), DROP TABLE [public.]t + CREATE EXTERNAL TABLE} on a real SessionContext \
         (file-metadata, statistics and list-files caches enabled, mock TimeProvider) over a ListingTable (Parquet, CSV) on a logical-clock ObjectStore that logs LIST/GET/HEAD; states = distinct canonical (files, oracle knowledge, \
         real cache entries) keys, transitions = histories replayed on a fresh context with every query compared with the set of answers the validity rules permit; non-trivial = the last operation is a query during which a cache \
         was observably used (no LIST / a listed file not read / a permitted stale answer) or observably invalidated (re-listed or re-read after a change)",
        explore,
        replay,
    );
}
