//! C01 — SQL query results agree with reference relational semantics.
//!
//! Enumerated: grammar G (families F1..F12) × DB(n, D) (all canonical
//! multisets of rows of the tables a query reads, other tables empty), layout
//! fixed to 1 partition / 1 batch, default configuration with
//! target_partitions = 1.  Oracle: the independent reference interpreter
//! `sqlmc::reference` with the comparison rule of DESIGN §3.
//!
//! Debug helpers (not part of the check): `c01 --list` prints the query list of
//! the tier, `c01 --sql "<text>" [--db <rich database label>]` runs a statement
//! on the engine only and prints the canonical result.
use chk_sql::sqlmc::db::{self, Database, Domain};
use chk_sql::sqlmc::grammar::{self, GenQuery, Tier};
use chk_sql::sqlmc::reference;
use chk_sql::sqlmc::value::{Row, show_rows};
use chk_sql::sqlmc::oracle::{Verdict, check_one};
use chk_sql::sqlmc::{ContextOptions, ast::Query, engine};
use mc_core::serde_json::{Value as Json, json};
use mc_core::{Ctx, Level, rayon::prelude::*, run_check};
use serde::{Deserialize, Serialize};
use std::collections::BTreeMap;

#[derive(Serialize, Deserialize, Clone, Debug)]
struct Case {
    id: String,
    sql: String,
    ast: Query,
    db: Database,
}

fn run_case(c: &Case) -> Result<(), String> {
    let sctx = engine::make_context(&c.db, &ContextOptions::default())?;
    match check_one(&sctx, &c.sql, &c.ast, &c.db) {
        Verdict::Violation(w) => Err(w),
        Verdict::KnownCause { key, what } => Err(format!("[{key}] {what}")),
        Verdict::Unsupported(w) => Err(format!("reference does not support this query: {w}")),
        _ => Ok(()),
    }
}

/// Database bound of one group of queries: per-table max rows + total max rows.
#[derive(Clone, Debug, PartialEq, Eq, PartialOrd, Ord)]
struct DbBound {
    tables: Vec<String>,
    sizes: Vec<usize>,
    total: usize,
}

impl DbBound {
    fn refs(&self) -> Vec<&str> {
        self.tables.iter().map(|s| s.as_str()).collect()
    }
    fn count(&self, d: &Domain) -> usize {
        db::count_dbs_bounded(&self.refs(), &self.sizes, self.total, d)
    }
}

/// The bound for a query reading `tables` (sorted):
/// * one table: at most `n1` rows;
/// * two tables: at most 2 rows each and at most `total2` rows together;
/// * three tables: at most 1 row each;
/// then shrunk (total first, then the largest table, later tables first) until
/// the number of databases fits `budget`.
fn bound_for(tables: &[String], d: &Domain, n1: usize, total2: usize, budget: usize) -> DbBound {
    let mut b = match tables.len() {
        0 => DbBound { tables: vec![], sizes: vec![], total: 0 },
        1 => DbBound { tables: tables.to_vec(), sizes: vec![n1], total: n1 },
        2 => DbBound { tables: tables.to_vec(), sizes: vec![2, 2], total: total2 },
        k => DbBound { tables: tables.to_vec(), sizes: vec![1; k], total: k },
    };
    loop {
        if b.count(d) <= budget {
            return b;
        }
        let mx = *b.sizes.iter().max().unwrap_or(&0);
        if b.total > mx && b.tables.len() > 1 {
            b.total -= 1;
            continue;
        }
        if mx <= 1 {
            return b;
        }
        let k = (0..b.sizes.len()).rev().find(|i| b.sizes[*i] == mx).unwrap();
        b.sizes[k] -= 1;
        b.total = b.total.min(b.sizes.iter().sum());
    }
}

fn explore(ctx: &Ctx) {
    let tier = ctx.pick(Tier::Quick, Tier::Thorough);
    let d = ctx.pick(Domain::quick(), Domain::thorough());
    let (n1, total2, budget) = ctx.pick((2usize, 3usize, 3100usize), (3, 3, 5000));
    let qs: Vec<GenQuery> = grammar::queries(tier);
    // result on the empty database, for the non-triviality rule
    let empty_db = Database::empty();
    let empty_res: Vec<Option<Vec<Row>>> = qs.iter().map(|q| reference::evaluate_rows(&empty_db, &q.ast)).collect();
    // pre-flight on the empty database: a statement the engine rejects statically with an
    // honest "not implemented" (or the documented "correlated scalar subquery must be
    // aggregated") is outside the supported fragment: excluded and listed in the evidence.
    // Any other static rejection is a violation.
    let mut rejected: Vec<Json> = vec![];
    let mut excluded: Vec<bool> = vec![false; qs.len()];
    {
        let sctx = engine::make_context(&empty_db, &ContextOptions::default()).expect("context");
        for (i, q) in qs.iter().enumerate() {
            if let Err(e) = engine::run_sql(&sctx, &q.sql) {
                let honest = e.contains("This feature is not implemented") || e.contains("Correlated scalar subquery must be aggregated");
                if honest {
                    excluded[i] = true;
                    rejected.push(json!({"sql": q.sql, "error": e.lines().last().unwrap_or("").chars().take(160).collect::<String>()}));
                }
            }
        }
    }
    ctx.count("queries_rejected_statically_by_engine", rejected.len() as u64);
    ctx.set_extra("engine_rejected_queries", json!(rejected));
    // group queries by database bound
    let mut groups: BTreeMap<DbBound, Vec<usize>> = BTreeMap::new();
    let quick_sqls: std::collections::HashSet<String> = if ctx.thorough() { grammar::queries(Tier::Quick).into_iter().map(|q| q.sql).collect() } else { Default::default() };
    for (i, q) in qs.iter().enumerate() {
        if excluded[i] {
            continue;
        }
        let mut tables = q.tables.clone();
        tables.sort();
        let b = bound_for(&tables, &d, n1, total2, budget);
        groups.entry(b).or_default().push(i);
        // thorough: the quick list's two-table queries also get the full n <= 2 on both tables
        if ctx.thorough() && tables.len() == 2 && quick_sqls.contains(&q.sql) {
            let full = bound_for(&tables, &d, n1, 4, 25000);
            groups.entry(full).or_default().push(i);
        }
    }
    let mut per_family: BTreeMap<String, usize> = BTreeMap::new();
    for q in &qs {
        *per_family.entry(format!("F{:02}", q.family)).or_insert(0) += 1;
    }
    let group_desc: Vec<Json> = groups
        .iter()
        .map(|(b, v)| json!({"tables": b.tables, "max_rows_per_table": b.sizes, "max_rows_total": b.total, "databases": b.count(&d), "queries": v.len()}))
        .collect();
    ctx.set_extra(
        "bounds",
        json!({
            "queries": qs.len(), "queries_per_family": per_family, "domain": d,
            "max_rows_single_table": n1, "two_tables": format!("<= 2 rows each, <= {total2} together (thorough: quick-list queries also with <= 4 together)"), "three_tables": "<= 1 row each", "db_budget_per_query": budget,
            "layout": "1 partition, 1 batch", "config": "default, target_partitions=1",
            "groups": group_desc,
        }),
    );
    // work items: (group, database), smallest databases first
    let mut work: Vec<(usize, Database)> = vec![];
    let glist: Vec<(&DbBound, &Vec<usize>)> = groups.iter().collect();
    for (gi, (b, _)) in glist.iter().enumerate() {
        db::for_each_db_bounded(&b.refs(), &b.sizes, b.total, &d, |dbv| work.push((gi, dbv)));
    }
    work.sort_by_key(|(gi, dbv)| (dbv.total_rows(), *gi));
    if ctx.seed != 0 {
        // VERIF_SEED only permutes the visiting order
        let s = ctx.seed;
        work.sort_by_key(|(gi, dbv)| mc_core::stable_hash(&(s, *gi, dbv)));
    }
    // per query: (rank of the smallest failing database, what, case, number of failing databases)
    type Fail = ((usize, bool, String), String, Case, u64);
    let fails: std::sync::Mutex<BTreeMap<usize, Fail>> = std::sync::Mutex::new(BTreeMap::new());
    // per confirmed root cause: (rank = (query position, database rank), what, case, count)
    type CauseFail = ((usize, (usize, bool, String)), String, Case, u64);
    let cause_fails: std::sync::Mutex<BTreeMap<&'static str, CauseFail>> = std::sync::Mutex::new(BTreeMap::new());
    let quick_domain = Domain::quick();
    let in_quick_domain = |dbv: &Database| dbv.tables.iter().all(|t| t.rows.iter().all(|r| r.iter().zip(&t.cols).all(|(v, (_, ty))| quick_domain.of(*ty).contains(v))));
    work.par_iter().for_each(|(gi, dbv)| {
        if ctx.out_of_time() {
            return;
        }
        let sctx = match engine::make_context(dbv, &ContextOptions::default()) {
            Ok(c) => c,
            Err(e) => {
                ctx.machinery_error(format!("cannot build context: {e}"));
                return;
            }
        };
        for &qi in glist[*gi].1 {
            if ctx.out_of_time() {
                return;
            }
            let q = &qs[qi];
            ctx.eval();
            let fam = format!("evals_F{:02}", q.family);
            ctx.count(&fam, 1);
            let case = || Case { id: q.id.clone(), sql: q.sql.clone(), ast: q.ast.clone(), db: dbv.clone() };
            match check_one(&sctx, &q.sql, &q.ast, dbv) {
                Verdict::Match { rows } => {
                    let nontrivial = !rows.is_empty() && empty_res[qi].as_ref().map(|e| !chk_sql::sqlmc::same_multiset(e, &rows)).unwrap_or(true);
                    if nontrivial {
                        ctx.nontrivial(&(&q.sql, dbv));
                        ctx.count(&format!("nontrivial_F{:02}", q.family), 1);
                        if ctx.want_sample() && dbv.total_rows() >= 3 && q.size > 12 {
                            ctx.sample(json!({"id": q.id, "sql": q.sql, "db": dbv.show(), "result": show_rows(&rows)}));
                        }
                    }
                    // determinism guard on a 1/64 slice: fresh context, same verdict
                    if mc_core::stable_hash(&(&q.sql, dbv)) % 64 == 0 {
                        ctx.count("determinism_replays", 1);
                        if let Err(w) = run_case(&case()) {
                            ctx.machinery_error(format!("case passed with a shared context but fails with a fresh one: {} on {}: {w}", q.sql, dbv.show()));
                        }
                    }
                }
                Verdict::MayFail { engine_failed } => ctx.count(if engine_failed { "may_fail_engine_failed" } else { "may_fail_engine_succeeded" }, 1),
                Verdict::Ambiguous => ctx.count("ambiguous_skipped", 1),
                Verdict::Unsupported(w) => ctx.machinery_error(format!("reference cannot evaluate {}: {w}", q.sql)),
                Verdict::KnownCause { key, what } => {
                    let rank = (qi, (dbv.total_rows(), !in_quick_domain(dbv), dbv.show()));
                    let mut f = cause_fails.lock().unwrap();
                    match f.get_mut(key) {
                        Some(e) => {
                            e.3 += 1;
                            if rank < e.0 {
                                e.0 = rank;
                                e.1 = what;
                                e.2 = case();
                            }
                        }
                        None => {
                            f.insert(key, (rank, what, case(), 1));
                        }
                    }
                }
                Verdict::Violation(w) => {
                    // keep only the smallest failing database of each query (deterministic
                    // whatever the thread schedule): fewest rows, quick-domain values first, then text order
                    let rank = (dbv.total_rows(), !in_quick_domain(dbv), dbv.show());
                    let mut f = fails.lock().unwrap();
                    match f.get_mut(&qi) {
                        Some(e) => {
                            e.3 += 1;
                            if rank < e.0 {
                                e.0 = rank;
                                e.1 = w;
                                e.2 = case();
                            }
                        }
                        None => {
                            f.insert(qi, (rank, w, case(), 1));
                        }
                    }
                }
            }
        }
    });
    // one violation per confirmed root cause (fixed key), witnessed by the smallest failing case
    for (key, (_, what, case, n)) in cause_fails.into_inner().unwrap() {
        ctx.count(&format!("cases_attributed_to:{key}"), n);
        ctx.violation(key, format!("{} on {}: {what} [{n} case(s) explained exactly by this root cause; this is the smallest]", case.sql, case.db.show()), serde_json::to_value(&case).unwrap());
    }
    // one violation per failing query, simplest query first
    let fails = fails.into_inner().unwrap();
    ctx.count("failing_queries", fails.len() as u64);
    for (qi, (rank, what, case, n)) in fails {
        let key = format!("{} @ {}", qs[qi].sql, rank.2);
        ctx.count("failing_query_database_pairs", n);
        ctx.violation(key, format!("{what} [{n} failing database(s) for this query; this is the smallest]"), serde_json::to_value(&case).unwrap());
    }
}

fn replay(v: &Json) -> Result<(), String> {
    let c: Case = serde_json::from_value(v.clone()).map_err(|e| format!("bad case: {e}"))?;
    run_case(&c)
}

fn debug_main(args: &[String]) -> bool {
    if args.iter().any(|a| a == "--list") {
        let tier = if std::env::args().any(|a| a == "thorough") { Tier::Thorough } else { Tier::Quick };
        let qs = grammar::queries(tier);
        for q in &qs {
            println!("{}\t{}\t{}\t[{}]", q.id, q.size, q.sql, q.tags.join(" "));
        }
        eprintln!("{} queries", qs.len());
        return true;
    }
    if let Some(p) = args.iter().position(|a| a == "--sql") {
        let sql = args.get(p + 1).cloned().unwrap_or_default();
        let label = args.iter().position(|a| a == "--db").and_then(|i| args.get(i + 1)).cloned().unwrap_or("all_distinct".into());
        let dbv = db::rich_databases().into_iter().find(|(l, _)| *l == label).map(|x| x.1).unwrap_or_else(Database::empty);
        println!("db: {}", dbv.show());
        let sctx = engine::make_context(&dbv, &ContextOptions::default()).unwrap();
        for stmt in sql.split(";;") {
            match engine::run_sql(&sctx, stmt) {
                Ok(r) => println!("{stmt}\n  -> {:?} {:?} {}", r.names, r.arrow_types, show_rows(&r.rows)),
                Err(e) => println!("{stmt}\n  -> ERROR {e}"),
            }
        }
        return true;
    }
    false
}

fn main() {
    if debug_main(&mc_core::extra_args()) {
        return;
    }
    mc_core::quiet_panics();
    run_check(
        "C01",
        Level::Exploration,
        "every query of grammar G (families F1..F12, tier-dependent menus) x every database DB(n,D) over the tables the query reads \
         (canonical row multisets, other tables empty), executed through SessionContext::sql().collect() on 1-partition/1-batch MemTables \
         and compared with the independent reference interpreter (multiset; sequence up to ties under ORDER BY; any tied choice under LIMIT); \
         non-trivial = distinct (query, database) pairs whose reference result is non-empty and differs from the same query's result on the empty database",
        explore,
        replay,
    );
}
