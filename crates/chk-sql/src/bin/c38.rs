//! C38 — SQL generated from a plan means the same as the plan.
//!
//! Enumerated: every grammar query (tier list) × {unoptimised, optimised} logical plan × the 12
//! rich databases.  Route: `plan_to_sql(plan)` (default dialect) → `Statement::to_string()` →
//! `SessionContext::sql(text)` in a *fresh* session with the same tables → collect.  Oracle: same
//! rows as the original plan (multiset; sequence up to ties under a top-level ORDER BY; row count
//! under LIMIT without a total order) and logically equivalent output types (string flavours,
//! binary flavours, dictionary vs value and list field names are not distinguished — everything
//! else is).  An unparser error is a counted rejection; text the unparser produced that the engine
//! cannot plan or run (while the original runs) is a violation.
//! For the other dialects (PostgreSQL, MySQL, SQLite, DuckDB, BigQuery, Snowflake) only
//! "sqlparser parses the generated text with that dialect" is demanded.
//!
//! Debug helper: `c38 --sql "<text>" [--opt] [--db LABEL]`.
use chk_sql::sqlmc::db::{self, Database};
use chk_sql::sqlmc::engine;
use chk_sql::sqlmc::grammar::{self, GenQuery, QueryFlags, Tier};
use chk_sql::sqlmc::value::show_rows;
use chk_sql::sqlmc::{ContextOptions, OrderSpec, compare_engine_results};
use datafusion::arrow::datatypes::DataType;
use datafusion::logical_expr::LogicalPlan;
use datafusion::prelude::SessionContext;
use datafusion::sql::sqlparser::dialect as sp;
use datafusion::sql::sqlparser::parser::Parser;
use datafusion::sql::unparser::dialect as ud;
use datafusion::sql::unparser::{Unparser, plan_to_sql};
use mc_core::serde_json::{Value as Json, json};
use mc_core::{Ctx, Level, rayon::prelude::*, run_check};
use serde::{Deserialize, Serialize};
use std::collections::BTreeMap;
use std::sync::Mutex;

#[derive(Serialize, Deserialize, Clone, Debug)]
struct Case {
    sql: String,
    optimized: bool,
    db_label: String,
    db: Database,
    flags: QueryFlags,
    /// `None`: the default-dialect execution route; `Some(d)`: parse check of dialect `d`
    #[serde(default)]
    dialect: Option<String>,
}

#[derive(Debug, Clone)]
struct Fail {
    cause: String,
    what: String,
}

#[derive(Debug, Default, Clone)]
struct Stats {
    planned: bool,
    unparser_rejected: Option<String>,
    nonempty: bool,
    both_failed: bool,
    rows: usize,
    generated: String,
    text_identical_to_input: bool,
}

fn normalise_error(e: &str) -> String {
    let mut first = e.lines().next().unwrap_or("").to_string();
    for wrapper in ["Error during planning: ", "DataFusion error: ", "General error: ", "Internal error: ", "plan error: ", "execution error: ", "Execution error: ", "This feature is not implemented: ", "SQL error: ", "ParserError(\"", "sql parser error: "] {
        first = first.replace(wrapper, "");
    }
    let mut out = String::new();
    let mut in_digits = false;
    let mut quote: Option<char> = None;
    for ch in first.chars() {
        if let Some(q) = quote {
            if ch == q {
                quote = None;
                out.push('_');
                out.push(ch);
            }
            continue;
        }
        if ch == '\'' || ch == '"' || ch == '`' {
            quote = Some(ch);
            out.push(ch);
            continue;
        }
        if ch.is_ascii_digit() {
            if !in_digits {
                out.push('N');
            }
            in_digits = true;
        } else {
            in_digits = false;
            out.push(ch);
        }
    }
    out.chars().take(110).collect()
}

fn build_plan(ctx: &SessionContext, sql: &str, optimized: bool) -> Result<LogicalPlan, String> {
    let plan = engine::plan_sql(ctx, sql)?;
    if optimized { mc_core::catch(|| ctx.state().optimize(&plan).map_err(|e| format!("optimizer error: {e}"))).unwrap_or_else(Err) } else { Ok(plan) }
}

/// "Logically equivalent" Arrow types: physical encodings of the same logical type are not
/// distinguished; value ranges, precision, units, time zones and structure are.
fn logically_equivalent(a: &DataType, b: &DataType) -> bool {
    use DataType::*;
    match (a, b) {
        (Dictionary(_, v), o) | (o, Dictionary(_, v)) => logically_equivalent(v, o),
        (RunEndEncoded(_, v), o) | (o, RunEndEncoded(_, v)) => logically_equivalent(v.data_type(), o),
        (Utf8 | LargeUtf8 | Utf8View, Utf8 | LargeUtf8 | Utf8View) => true,
        (Binary | LargeBinary | BinaryView, Binary | LargeBinary | BinaryView) => true,
        (List(x) | LargeList(x) | ListView(x) | LargeListView(x), List(y) | LargeList(y) | ListView(y) | LargeListView(y)) => logically_equivalent(x.data_type(), y.data_type()),
        (FixedSizeList(x, n), FixedSizeList(y, m)) => n == m && logically_equivalent(x.data_type(), y.data_type()),
        (Struct(x), Struct(y)) => x.len() == y.len() && x.iter().zip(y.iter()).all(|(f, g)| f.name() == g.name() && logically_equivalent(f.data_type(), g.data_type())),
        (Map(x, _), Map(y, _)) => logically_equivalent(x.data_type(), y.data_type()),
        (x, y) => x == y,
    }
}

fn demo() -> Option<String> {
    std::env::var("C38_DEMO").ok()
}

/// DETECTION DEMO: deterministic alteration of the generated SQL text.
fn corrupt(text: String, how: &str) -> String {
    match how {
        // "a lost alias / join kind": LEFT JOIN written as INNER JOIN
        "left_join_becomes_inner" => text.replace(" LEFT OUTER JOIN ", " INNER JOIN ").replace(" LEFT JOIN ", " INNER JOIN "),
        // "missing parentheses": the first parenthesised arithmetic / boolean group loses its brackets
        "drop_parentheses" => match (text.find(" ("), text.find(") ")) {
            (Some(p), Some(q)) if p < q && !text[p + 2..q].contains('(') && !text[p + 2..q].to_uppercase().contains("SELECT") => format!("{} {}{}", &text[..p], &text[p + 2..q], &text[q + 1..]),
            _ => text,
        },
        "distinct_lost" => text.replacen("SELECT DISTINCT ", "SELECT ", 1),
        _ => text,
    }
}

/// Confirmed root causes (triaged on the unchanged tree, see the final report): maps a failing
/// case to one fixed key per root cause in the unparser.  Rules are ordered, first match wins; a
/// failure matching none keeps its per-query default key.
fn attribute(sql: &str, generated: &str, optimized: bool) -> Option<&'static str> {
    let has = |s: &str| sql.contains(s);
    if has("generate_series(") || has("range(") {
        // TableScan of a table function is written as the table name "generate_series()"
        return Some("table_function_scan_unparsed_as_quoted_table_name");
    }
    if has(" INTERSECT ") || has(" EXCEPT ") {
        // set operations are planned as null-equal LeftSemi/LeftAnti joins (+ Distinct); the unparser writes
        // `[NOT] EXISTS (.. WHERE l.x = r.x)` with plain `=`, unqualified scopes and no multiset semantics
        return Some("set_operation_semi_anti_join_unparsed_as_exists_with_plain_equality");
    }
    if has("DISTINCT ON") && optimized {
        return Some("optimized_distinct_on_unparsed_as_first_value_group_by");
    }
    if sql.contains("(b ORDER BY") || sql.contains("(a ORDER BY") || sql.contains("(c ORDER BY") {
        if !generated.contains("(t.b ORDER BY") && !generated.contains("ORDER BY t.b") {
            return Some("aggregate_order_by_clause_dropped");
        }
    }
    if has("JOIN (") && !optimized {
        return Some("parenthesised_join_on_the_right_side_flattened");
    }
    if sql.starts_with("((SELECT") || (has(" LIMIT ") && has(" UNION ") && sql.find(" LIMIT ") < sql.find(" UNION ")) {
        return Some("order_by_limit_of_a_union_branch_hoisted_to_the_union");
    }
    if optimized && has(" OFFSET ") {
        // Limit(skip, fetch) over Sort/TableScan(fetch = skip + fetch): the inner fetch is written as the LIMIT
        return Some("optimized_limit_offset_written_with_the_pushed_down_fetch");
    }
    if optimized && has(" NOT IN (") {
        return Some("optimized_null_aware_anti_join_unparsed_as_not_exists");
    }
    if optimized && (has(" SEMI JOIN ") || has(" ANTI JOIN ") || has("EXISTS (")) {
        if generated.contains("__correlated_sq_") && generated.contains(" AS t2") {
            return Some("optimized_correlated_subquery_alias_mismatch");
        }
        return Some("optimized_semi_anti_join_filter_lost_or_misplaced");
    }
    if optimized && (has(" LEFT JOIN ") || has(" RIGHT JOIN ") || has(" FULL JOIN ")) && has(" WHERE ") {
        // a filter pushed into a TableScan under an outer join is written into the ON clause
        return Some("optimized_table_scan_filter_written_into_outer_join_on");
    }
    None
}

fn check(ctx_a: &SessionContext, ctx_b: &SessionContext, sql: &str, optimized: bool, flags: &QueryFlags) -> (Stats, Option<Fail>) {
    let mut st = Stats::default();
    let plan = match build_plan(ctx_a, sql, optimized) {
        Ok(p) => p,
        Err(_) => return (st, None),
    };
    st.planned = true;
    let stmt = match mc_core::catch(|| plan_to_sql(&plan)) {
        Ok(Ok(s)) => s,
        Ok(Err(e)) => {
            st.unparser_rejected = Some(normalise_error(&e.to_string()));
            return (st, None);
        }
        Err(p) => return (st, Some(Fail { cause: format!("unparser_panic:{}", normalise_error(&p)), what: format!("plan_to_sql panicked for the plan of {sql} (optimized={optimized}): {p}") })),
    };
    let text = match mc_core::catch(|| stmt.to_string()) {
        Ok(t) => t,
        Err(p) => return (st, Some(Fail { cause: "statement_display_panic".into(), what: format!("Statement::to_string panicked for the plan of {sql}: {p}") })),
    };
    let text = match demo() {
        Some(how) => corrupt(text, &how),
        None => text,
    };
    st.generated = text.clone();
    st.text_identical_to_input = text == sql;
    let plan_text = format!("{}", plan.display_indent());
    let r0 = engine::run_plan(ctx_a, plan);
    let r1 = engine::run_sql(ctx_b, &text);
    let mk = |default_key: String, what: String| -> Fail {
        let _ = &what;
        let cause = attribute(sql, &text, optimized).map(|s| s.to_string()).unwrap_or(default_key);
        Fail { cause, what: format!("{what}\ninput SQL:     {sql}\ngenerated SQL: {text}\nplan (optimized={optimized}):\n{plan_text}") }
    };
    let fail = match (r0, r1) {
        (Ok(a), Ok(b)) => {
            let spec: OrderSpec = flags.into();
            st.rows = a.rows.len();
            st.nonempty = !a.rows.is_empty();
            if let Err(w) = compare_engine_results(&a.rows, &b.rows, &spec) {
                Some(mk(format!("rows_changed:{sql}"), format!("the generated SQL returns different rows: {w}")))
            } else {
                // types: compare the Arrow types of the two results column by column
                let (ta, tb): (Vec<Option<DataType>>, Vec<Option<DataType>>) = (a.arrow_types.iter().map(|t| t.parse().ok()).collect(), b.arrow_types.iter().map(|t| t.parse().ok()).collect());
                let bad: Vec<String> = if ta.len() != tb.len() {
                    vec![format!("{} columns became {}", ta.len(), tb.len())]
                } else {
                    ta.iter()
                        .zip(&tb)
                        .zip(a.arrow_types.iter().zip(&b.arrow_types))
                        .filter(|((x, y), (sx, sy))| match (x, y) {
                            (Some(x), Some(y)) => !logically_equivalent(x, y),
                            _ => sx != sy,
                        })
                        .map(|(_, (sx, sy))| format!("{sx}->{sy}"))
                        .collect()
                };
                if bad.is_empty() {
                    None
                } else {
                    let mut sig = bad.clone();
                    sig.sort();
                    sig.dedup();
                    Some(mk(format!("output_types_changed:{}", sig.join(",")), format!("same rows but output types are not logically equivalent: {:?} became {:?}", a.arrow_types, b.arrow_types)))
                }
            }
        }
        (Err(_), Err(_)) => {
            st.both_failed = true;
            None
        }
        (Ok(a), Err(e)) => Some(mk(format!("generated_sql_fails:{}", normalise_error(&e)), format!("the plan returns {} but the generated SQL fails: {e}", show_rows(&a.rows)))),
        (Err(e), Ok(b)) => Some(mk(format!("only_original_fails:{}", normalise_error(&e)), format!("the plan fails ({e}) but the generated SQL returns {}", show_rows(&b.rows)))),
    };
    (st, fail)
}

/// One key per parse error class, whatever the dialect and position.
fn dialect_key(e: &str) -> String {
    let n = normalise_error(e);
    let n = n.split(" at Line").next().unwrap_or("").to_string();
    // Snowflake words the same failure differently
    let n = if n.contains("found: FROM") { "Expected: joined table, found: FROM".to_string() } else { n };
    format!("other_dialect_text_unparseable:{n}")
}

const DIALECTS: [&str; 6] = ["postgres", "mysql", "sqlite", "duckdb", "bigquery", "snowflake"];

/// Unparse with dialect `d` and parse the text back with sqlparser's dialect of the same name.
/// `Ok(None)`: unparser rejected; `Ok(Some(text))`: parsed; `Err`: generated text does not parse.
fn dialect_check(plan: &LogicalPlan, d: &str) -> Result<Option<String>, (String, String)> {
    let (pg, my, sq, dk, bq, sf) = (ud::PostgreSqlDialect {}, ud::MySqlDialect {}, ud::SqliteDialect {}, ud::DuckDBDialect::new(), ud::BigQueryDialect {}, ud::SnowflakeDialect::new());
    let u: &dyn ud::Dialect = match d {
        "postgres" => &pg,
        "mysql" => &my,
        "sqlite" => &sq,
        "duckdb" => &dk,
        "bigquery" => &bq,
        _ => &sf,
    };
    let text = match mc_core::catch(|| Unparser::new(u).plan_to_sql(plan).map(|s| s.to_string())) {
        Ok(Ok(t)) => t,
        Ok(Err(_)) => return Ok(None),
        Err(p) => return Err((String::new(), format!("unparser panicked: {p}"))),
    };
    let parsed = mc_core::catch(|| match d {
        "postgres" => Parser::parse_sql(&sp::PostgreSqlDialect {}, &text),
        "mysql" => Parser::parse_sql(&sp::MySqlDialect {}, &text),
        "sqlite" => Parser::parse_sql(&sp::SQLiteDialect {}, &text),
        "duckdb" => Parser::parse_sql(&sp::DuckDbDialect {}, &text),
        "bigquery" => Parser::parse_sql(&sp::BigQueryDialect {}, &text),
        _ => Parser::parse_sql(&sp::SnowflakeDialect {}, &text),
    });
    match parsed {
        Ok(Ok(stmts)) if stmts.len() == 1 => Ok(Some(text)),
        Ok(Ok(stmts)) => Err((text, format!("{} statements parsed", stmts.len()))),
        Ok(Err(e)) => Err((text, e.to_string())),
        Err(p) => Err((text, format!("parser panicked: {p}"))),
    }
}

fn sessions(dbv: &Database) -> Result<(SessionContext, SessionContext), String> {
    Ok((engine::make_context(dbv, &ContextOptions::default())?, engine::make_context(dbv, &ContextOptions::default())?))
}

fn run_case(c: &Case) -> Result<(), Fail> {
    let (a, b) = sessions(&c.db).map_err(|e| Fail { cause: "machinery".into(), what: e })?;
    match &c.dialect {
        None => match check(&a, &b, &c.sql, c.optimized, &c.flags).1 {
            Some(f) => Err(f),
            None => Ok(()),
        },
        Some(d) => {
            let plan = build_plan(&a, &c.sql, c.optimized).map_err(|e| Fail { cause: "machinery".into(), what: e })?;
            match dialect_check(&plan, d) {
                Err((text, e)) => Err(Fail { cause: dialect_key(&e), what: format!("{d}: generated `{text}` for {} does not parse: {e}", c.sql) }),
                Ok(_) => Ok(()),
            }
        }
    }
}

type FailMap = Mutex<BTreeMap<String, ((usize, bool, usize, String), String, Case, u64)>>;

fn record(fails: &FailMap, f: Fail, rank: (usize, bool, usize, String), case: Case) {
    let mut m = fails.lock().unwrap();
    match m.get_mut(&f.cause) {
        Some(e) => {
            e.3 += 1;
            if rank < e.0 {
                *e = (rank, f.what, case, e.3);
            }
        }
        None => {
            m.insert(f.cause, (rank, f.what, case, 1));
        }
    }
}

fn explore(ctx: &Ctx) {
    let tier = ctx.pick(Tier::Quick, Tier::Thorough);
    let qs: Vec<GenQuery> = grammar::queries(tier);
    let dbs = db::rich_databases();
    ctx.set_extra(
        "bounds",
        json!({"queries": qs.len(), "plan_forms": ["unoptimized", "optimized"], "databases": dbs.iter().map(|d| d.0.clone()).collect::<Vec<_>>(),
               "other_dialects_parse_only": DIALECTS, "config": "default, target_partitions=1; generated SQL runs in a fresh SessionContext with the same MemTables"}),
    );
    let fails: FailMap = Mutex::new(BTreeMap::new());
    let rejected: Mutex<BTreeMap<String, (u64, String)>> = Mutex::new(BTreeMap::new());
    let chunk = 24usize;
    let mut work: Vec<(usize, usize)> = vec![];
    for q0 in (0..qs.len()).step_by(chunk) {
        for di in 0..dbs.len() {
            work.push((di, q0));
        }
    }
    let samples = std::sync::atomic::AtomicUsize::new(0);
    work.par_iter().for_each(|(di, q0)| {
        if ctx.out_of_time() {
            return;
        }
        let (label, dbv) = &dbs[*di];
        let (a, b) = match sessions(dbv) {
            Ok(x) => x,
            Err(e) => {
                ctx.machinery_error(format!("cannot build sessions: {e}"));
                return;
            }
        };
        for qi in *q0..(*q0 + chunk).min(qs.len()) {
            let q = &qs[qi];
            for optimized in [false, true] {
                if ctx.out_of_time() {
                    return;
                }
                let case = |dialect: Option<String>| Case { sql: q.sql.clone(), optimized, db_label: label.clone(), db: dbv.clone(), flags: q.flags.clone(), dialect };
                let rank = (qi, optimized, dbv.total_rows(), label.clone());
                let (st, f) = check(&a, &b, &q.sql, optimized, &q.flags);
                if !st.planned {
                    ctx.count("plans_not_built_by_direct_route", 1);
                    continue;
                }
                ctx.eval();
                ctx.count(if optimized { "cases_optimized" } else { "cases_unoptimized" }, 1);
                // the other dialects: schema-level, so once per (query, plan form) — on the first database
                if *di == 0 {
                    if let Ok(plan) = build_plan(&a, &q.sql, optimized) {
                        for d in DIALECTS {
                            ctx.eval();
                            match dialect_check(&plan, d) {
                                Ok(Some(_)) => ctx.count(&format!("dialect_parsed[{d}]"), 1),
                                Ok(None) => ctx.count(&format!("dialect_unparser_rejected[{d}]"), 1),
                                Err((text, e)) => {
                                    ctx.count(&format!("dialect_unparseable[{d}]"), 1);
                                    record(
                                        &fails,
                                        Fail { cause: dialect_key(&e), what: format!("{d}: the text generated for {} (optimized={optimized}) does not parse with sqlparser's {d} dialect: {e}\ngenerated: {text}", q.sql) },
                                        rank.clone(),
                                        case(Some(d.to_string())),
                                    );
                                }
                            }
                        }
                    }
                }
                if let Some(f) = f {
                    ctx.count("cases_failed", 1);
                    record(&fails, f, rank, case(None));
                    continue;
                }
                if let Some(why) = st.unparser_rejected {
                    ctx.count("cases_unparser_rejected", 1);
                    let mut r = rejected.lock().unwrap();
                    let e = r.entry(why).or_insert((0, format!("{} (optimized={optimized})", q.sql)));
                    e.0 += 1;
                    continue;
                }
                ctx.count("cases_unparsed_replanned_and_compared", 1);
                if st.both_failed {
                    ctx.count("cases_both_routes_fail_at_run_time", 1);
                }
                if st.text_identical_to_input {
                    ctx.count("cases_generated_text_identical_to_input", 1);
                }
                if st.nonempty {
                    ctx.nontrivial(&(&q.sql, optimized, label));
                    if st.rows >= 2 && q.size > 14 && samples.fetch_add(1, std::sync::atomic::Ordering::Relaxed) < 4 {
                        ctx.sample(json!({"sql": q.sql, "optimized": optimized, "db": label, "generated_sql": st.generated, "result_rows": st.rows}));
                    }
                }
            }
        }
    });
    let rj = rejected.into_inner().unwrap();
    ctx.set_extra("unparser_rejections", json!(rj.iter().map(|(k, (n, ex))| json!({"reason": k, "cases": n, "example": ex})).collect::<Vec<_>>()));
    for (cause, (_, what, case, n)) in fails.into_inner().unwrap() {
        ctx.count(&format!("cases_attributed_to:{cause}"), n);
        ctx.violation(cause, format!("{what}\n[{n} case(s) share this key; this is the smallest]"), serde_json::to_value(&case).unwrap());
    }
}

fn replay(v: &Json) -> Result<(), String> {
    let c: Case = serde_json::from_value(v.clone()).map_err(|e| format!("bad case: {e}"))?;
    run_case(&c).map_err(|f| format!("[{}] {}", f.cause, f.what))
}

fn debug_main(args: &[String]) -> bool {
    if let Some(p) = args.iter().position(|a| a == "--sql") {
        let sql = args.get(p + 1).cloned().unwrap_or_default();
        let optimized = args.iter().any(|a| a == "--opt");
        let label = args.iter().position(|a| a == "--db").and_then(|i| args.get(i + 1)).cloned().unwrap_or("all_distinct".into());
        let dbv = db::rich_databases().into_iter().find(|(l, _)| *l == label).map(|x| x.1).unwrap_or_else(Database::empty);
        let (a, b) = sessions(&dbv).unwrap();
        let (st, f) = check(&a, &b, &sql, optimized, &QueryFlags::default());
        println!("generated: {}\nunparser_rejected={:?} rows={} both_failed={}", st.generated, st.unparser_rejected, st.rows, st.both_failed);
        if let Ok(plan) = build_plan(&a, &sql, optimized) {
            for d in DIALECTS {
                println!("{d}: {:?}", dialect_check(&plan, d));
            }
        }
        if let Some(f) = f {
            println!("FAIL [{}] {}", f.cause, f.what);
        }
        return true;
    }
    false
}

fn main() {
    if debug_main(&mc_core::extra_args()) {
        return;
    }
    mc_core::quiet_panics();
    run_check(
        "C38",
        Level::Exploration,
        "every grammar query x {unoptimized, optimized} logical plan x 12 rich databases: plan_to_sql (default dialect) -> text -> SessionContext::sql in a fresh session with the same tables -> collect: \
         same rows (multiset / sequence up to ties under ORDER BY / count under LIMIT) and logically equivalent output types; unparser errors are counted rejections; \
         for 6 other dialects the generated text must parse with sqlparser's dialect of the same name; \
         non-trivial = distinct (query, plan form, database) whose generated SQL was re-planned, executed and compared with a non-empty result",
        explore,
        replay,
    );
}
