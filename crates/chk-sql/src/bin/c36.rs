//! C36 — physical plans survive protobuf serialisation unchanged.
//!
//! Enumerated: every grammar query (tier list; plus a small supplement: unnest, constant-false
//! filter, 3-way union, EXPLAIN) × the session configurations below × the 12 rich databases.  For each the
//! engine's own physical plan (`SessionState::create_physical_plan`) is encoded with
//! `physical_plan_to_bytes`, decoded with `physical_plan_from_bytes` against the task context of a
//! *fresh* session (same configuration, no tables: MemTable scans travel inside the plan), and
//! * `displayable(plan).set_show_schema(true).indent(true)` must be equal,
//! * walking both trees in parallel, every node must agree on operator name, number of
//!   children, output partitioning, output ordering, boundedness, emission type, fetch and schema,
//! * executing the decoded plan must give the same result as executing the original.
//! An encoder error is a counted rejection; a decoder error after a successful encode, or any
//! silent change, is a violation.  Plans are serialised *before* anything is executed (execution
//! fills dynamic filters, which are displayed).
//!
//! Debug helper: `c36 --sql "<text>" [--conf NAME] [--db LABEL]`.
use chk_sql::sqlmc::db::{self, Database};
use chk_sql::sqlmc::engine::{self, Layout};
use chk_sql::sqlmc::grammar::{self, GenQuery, QueryFlags, Tier};
use chk_sql::sqlmc::value::show_rows;
use chk_sql::sqlmc::{ContextOptions, OrderSpec, QueryResult, compare_engine_results};
use datafusion::physical_plan::{ExecutionPlan, ExecutionPlanProperties, collect, displayable};
use datafusion::prelude::{SessionConfig, SessionContext};
use datafusion_proto::bytes::{physical_plan_from_bytes, physical_plan_to_bytes};
use mc_core::serde_json::{Value as Json, json};
use mc_core::{Ctx, Level, rayon::prelude::*, run_check};
use serde::{Deserialize, Serialize};
use std::collections::BTreeMap;
use std::sync::{Arc, Mutex};

// ------------------------------------------------------------------ configurations

#[derive(Serialize, Deserialize, Clone, Debug, PartialEq)]
struct Conf {
    name: String,
    target_partitions: usize,
    prefer_hash_join: bool,
    batch_size: usize,
    /// (partitions, rows per batch) of every MemTable; (1, 0) = one partition, one batch
    layout: (usize, usize),
    repartition_joins: bool,
}

fn confs(thorough: bool) -> Vec<Conf> {
    let mut v = vec![
        Conf { name: "default".into(), target_partitions: 1, prefer_hash_join: true, batch_size: 8192, layout: (1, 0), repartition_joins: true },
        Conf { name: "target_partitions_3".into(), target_partitions: 3, prefer_hash_join: true, batch_size: 8192, layout: (2, 2), repartition_joins: true },
        Conf { name: "sort_merge_join_batch_2".into(), target_partitions: 2, prefer_hash_join: false, batch_size: 2, layout: (2, 1), repartition_joins: true },
    ];
    if thorough {
        v.push(Conf { name: "collect_left_joins_tp4".into(), target_partitions: 4, prefer_hash_join: true, batch_size: 3, layout: (3, 1), repartition_joins: false });
        v.push(Conf { name: "single_partition_smj".into(), target_partitions: 1, prefer_hash_join: false, batch_size: 1, layout: (1, 1), repartition_joins: true });
    }
    v
}

impl Conf {
    fn session_config(&self) -> SessionConfig {
        engine::default_config()
            .with_target_partitions(self.target_partitions)
            .with_batch_size(self.batch_size)
            .with_repartition_joins(self.repartition_joins)
            .set_bool("datafusion.optimizer.prefer_hash_join", self.prefer_hash_join)
    }
    fn options(&self) -> ContextOptions {
        let layout = if self.layout == (1, 0) { Layout::Single } else { Layout::RoundRobin { partitions: self.layout.0, batch_rows: self.layout.1 } };
        ContextOptions { layout, config: self.session_config(), text: engine::TextEncoding::View }
    }
}

/// Statements outside the grammar that reach operators it does not (executed like the rest).
const SUPPLEMENT: [&str; 9] = [
    "SELECT a, b FROM t WHERE FALSE",
    "(SELECT a FROM t UNION ALL SELECT a FROM u) UNION ALL SELECT b FROM t",
    "SELECT unnest([1, 2, 3]) AS x",
    "SELECT a, unnest(make_array(b, 10)) AS x FROM t",
    "SELECT struct(a, b) AS s FROM t",
    "SELECT a, b FROM t ORDER BY a LIMIT 2 OFFSET 1",
    "SELECT a, count(DISTINCT b) AS n, min(b) FILTER (WHERE b > 1) AS m FROM t GROUP BY a",
    "SELECT a, first_value(b ORDER BY b DESC) AS f FROM t GROUP BY a",
    "SELECT t.a, u.c FROM t, u WHERE t.a < u.a",
];

// ------------------------------------------------------------------ cases

#[derive(Serialize, Deserialize, Clone, Debug)]
struct Case {
    sql: String,
    conf: Conf,
    db_label: String,
    db: Database,
    flags: QueryFlags,
    #[serde(default)]
    cause: Option<String>,
}

#[derive(Debug, Clone)]
struct Fail {
    cause: String,
    what: String,
}

#[derive(Debug, Default, Clone)]
struct Stats {
    planned: bool,
    encode_rejected: Option<String>,
    nonempty: bool,
    both_failed: bool,
    rows: usize,
    nodes: usize,
    operators: Vec<String>,
    eq_properties_text_differs: bool,
}

fn normalise_error(e: &str) -> String {
    let mut first = e.lines().next().unwrap_or("").to_string();
    for wrapper in ["Error during planning: ", "DataFusion error: ", "General error: ", "Internal error: ", "This feature is not implemented: "] {
        first = first.replace(wrapper, "");
    }
    let mut out = String::new();
    let mut in_digits = false;
    let mut quote: Option<char> = None;
    for ch in first.chars() {
        if let Some(q) = quote {
            if ch == q {
                quote = None;
                out.push('_');
                out.push(ch);
            }
            continue;
        }
        if ch == '\'' || ch == '"' {
            quote = Some(ch);
            out.push(ch);
            continue;
        }
        if ch.is_ascii_digit() {
            if !in_digits {
                out.push('N');
            }
            in_digits = true;
        } else {
            in_digits = false;
            out.push(ch);
        }
    }
    // Debug dumps of whole operators follow "Plan:" in some messages: keep the head only
    let out = out.split("Plan:").next().unwrap_or("").trim().to_string();
    out.chars().take(120).collect()
}

fn plan_text(p: &Arc<dyn ExecutionPlan>) -> String {
    displayable(p.as_ref()).set_show_schema(true).indent(true).to_string()
}

/// The node's own line of the verbose indented text.
fn node_line(p: &Arc<dyn ExecutionPlan>) -> String {
    plan_text(p).lines().next().unwrap_or("").to_string()
}

/// Parallel walk of the original and the decoded tree.  Per node: its own display line, and what
/// `properties()` promises to the parent (partitioning, ordering, boundedness, emission type),
/// plus fetch and schema.  Everything is derived bottom-up, so each difference is reported at the
/// *deepest* node showing it: a property difference where no child differs in the same property,
/// a display-line difference where no descendant differs in anything.  Returns the aspects that
/// differ at or below this node.
fn tree_fails(sql: &str, conf: &str, a: &Arc<dyn ExecutionPlan>, b: &Arc<dyn ExecutionPlan>, path: &str, st: &mut Stats, out: &mut Vec<Fail>) -> Vec<&'static str> {
    st.nodes += 1;
    if !st.operators.iter().any(|o| o == a.name()) {
        st.operators.push(a.name().to_string());
    }
    let here = format!("{path}/{}", a.name());
    let push = |out: &mut Vec<Fail>, aspect: &str, what: String| {
        let cause = format!("node_changed:{}:{aspect}", a.name());
        if !out.iter().any(|f| f.cause == cause) {
            out.push(Fail { cause, what });
        }
    };
    let (ca, cb) = (a.children(), b.children());
    let mut below: Vec<&'static str> = vec![];
    if a.name() != b.name() || ca.len() != cb.len() {
        // keyed by the parent whose child list changed
        let parent = path.rsplit('/').next().unwrap_or("").split('[').next().unwrap_or("").to_string();
        let cause = format!("node_changed:{}:children_shape", if parent.is_empty() { a.name().to_string() } else { parent });
        if !out.iter().any(|f| f.cause == cause) {
            out.push(Fail { cause, what: format!("node {here} ({} children) became {} ({} children) in the round trip of {sql} [{conf}]\noriginal subtree:\n{}\ndecoded subtree:\n{}", ca.len(), b.name(), cb.len(), plan_text(a), plan_text(b)) });
        }
        return vec!["shape"];
    }
    for (i, (x, y)) in ca.iter().zip(cb.iter()).enumerate() {
        for w in tree_fails(sql, conf, x, y, &format!("{here}[{i}]"), st, out) {
            if !below.contains(&w) {
                below.push(w);
            }
        }
    }
    let ord = |p: &Arc<dyn ExecutionPlan>| p.equivalence_properties().output_ordering().map(|o| format!("{o}")).unwrap_or_else(|| "none".into());
    let props: Vec<(&'static str, String, String)> = vec![
        ("output_partitioning", format!("{}", a.output_partitioning()), format!("{}", b.output_partitioning())),
        // the ordering the node's equivalence properties establish (what parents plan against)
        ("output_ordering", ord(a), ord(b)),
        ("boundedness", format!("{:?}", a.boundedness()), format!("{:?}", b.boundedness())),
        ("emission_type", format!("{:?}", a.pipeline_behavior()), format!("{:?}", b.pipeline_behavior())),
        ("fetch", format!("{:?}", a.fetch()), format!("{:?}", b.fetch())),
        ("schema", format!("{:?}", a.schema()), format!("{:?}", b.schema())),
    ];
    let anything_below = !below.is_empty();
    for (what, x, y) in props {
        if x != y && !below.contains(&what) {
            // derived bottom-up: with any difference below, this one is taken as its consequence
            if !anything_below {
                push(out, what, format!("{what} of node {here} changed in the round trip of {sql} [{conf}] (no child of it differs in {what}): `{x}` became `{y}`\nnode: {}", node_line(a)));
            }
            below.push(what);
        }
    }
    let (la, lb) = (node_line(a), node_line(b));
    if la != lb {
        if !anything_below && !below.iter().any(|w| *w != "text") {
            push(out, "text", format!("display line of node {here} changed in the round trip of {sql} [{conf}] (nothing below it differs): `{la}` became `{lb}`"));
        }
        if !below.contains(&"text") {
            below.push("text");
        }
    }
    if format!("{}", a.equivalence_properties()) != format!("{}", b.equivalence_properties()) {
        st.eq_properties_text_differs = true;
    }
    below
}

fn demo() -> Option<String> {
    std::env::var("C36_DEMO").ok()
}

/// DETECTION DEMO: deterministic corruption of the decoded plan.
fn corrupt(p: Arc<dyn ExecutionPlan>, how: &str) -> Arc<dyn ExecutionPlan> {
    use datafusion::common::tree_node::{Transformed, TreeNode};
    use datafusion::physical_plan::sorts::sort::SortExec;
    match how {
        // a SortExec loses its fetch (a field dropped by a to_proto): TopK becomes a full sort
        "drop_sort_fetch" => p
            .transform_up(|n| {
                if let Some(s) = n.downcast_ref::<SortExec>() {
                    if s.fetch().is_some() {
                        let ns = SortExec::new(s.expr().clone(), s.input().clone()).with_preserve_partitioning(s.preserve_partitioning());
                        return Ok(Transformed::yes(Arc::new(ns) as Arc<dyn ExecutionPlan>));
                    }
                }
                Ok(Transformed::no(n))
            })
            .unwrap()
            .data,
        // a sort loses "preserve_partitioning" (changes the promised partitioning, usually not the rows)
        "drop_preserve_partitioning" => p
            .transform_up(|n| {
                if let Some(s) = n.downcast_ref::<SortExec>() {
                    if s.preserve_partitioning() {
                        let ns = SortExec::new(s.expr().clone(), s.input().clone()).with_fetch(s.fetch());
                        return Ok(Transformed::yes(Arc::new(ns) as Arc<dyn ExecutionPlan>));
                    }
                }
                Ok(Transformed::no(n))
            })
            .unwrap()
            .data,
        _ => p,
    }
}

fn run_physical(plan: Arc<dyn ExecutionPlan>, ctx: &SessionContext) -> Result<QueryResult, String> {
    let schema = plan.schema();
    let task = ctx.task_ctx();
    mc_core::catch(|| engine::block_on(async { collect(plan, task).await.map_err(|e| format!("execution error: {e}")) }))
        .unwrap_or_else(Err)
        .map(|batches| engine::batches_to_result(schema.as_ref(), &batches))
}

fn check(ctx_a: &SessionContext, ctx_b: &SessionContext, sql: &str, conf: &Conf, flags: &QueryFlags) -> (Stats, Vec<Fail>) {
    let mut st = Stats::default();
    let mut fails: Vec<Fail> = vec![];
    let cn = conf.name.as_str();
    let logical = match engine::plan_sql(ctx_a, sql) {
        Ok(p) => p,
        Err(_) => return (st, fails),
    };
    let plan = match mc_core::catch(|| engine::block_on(ctx_a.state().create_physical_plan(&logical))) {
        Ok(Ok(p)) => p,
        _ => return (st, fails), // the direct route does not build a plan: C01/C02 own that
    };
    st.planned = true;
    let bytes = match mc_core::catch(|| physical_plan_to_bytes(plan.clone())) {
        Ok(Ok(b)) => b,
        Ok(Err(e)) => {
            st.encode_rejected = Some(normalise_error(&e.to_string()));
            return (st, fails);
        }
        Err(p) => {
            fails.push(Fail { cause: format!("encode_panic:{}", normalise_error(&p)), what: format!("physical_plan_to_bytes panicked for {sql} [{cn}]: {p}") });
            return (st, fails);
        }
    };
    let back = match mc_core::catch(|| physical_plan_from_bytes(&bytes, &ctx_b.task_ctx())) {
        Ok(Ok(p)) => p,
        Ok(Err(e)) => {
            fails.push(Fail {
                cause: format!("decode_error:{}", normalise_error(&e.to_string())),
                what: format!("physical_plan_to_bytes succeeded but physical_plan_from_bytes failed for {sql} [{cn}]: {}\noriginal plan:\n{}", e.to_string().chars().take(600).collect::<String>(), plan_text(&plan)),
            });
            return (st, fails);
        }
        Err(p) => {
            fails.push(Fail { cause: format!("decode_panic:{}", normalise_error(&p)), what: format!("physical_plan_from_bytes panicked for {sql} [{cn}]: {p}\noriginal plan:\n{}", plan_text(&plan)) });
            return (st, fails);
        }
    };
    let back = match demo() {
        Some(how) => corrupt(back, &how),
        None => back,
    };
    let aspects = tree_fails(sql, cn, &plan, &back, "", &mut st, &mut fails);
    let (t0, t1) = (plan_text(&plan), plan_text(&back));
    if t0 != t1 && fails.is_empty() {
        // safety net: the whole text differs although the walk located nothing
        fails.push(Fail { cause: "plan_text_changed:unlocated".into(), what: format!("indent(true) text differs after the round trip of {sql} [{cn}] (aspects {aspects:?})\noriginal:\n{t0}\ndecoded:\n{t1}") });
    }
    let r0 = run_physical(plan, ctx_a);
    let r1 = run_physical(back, ctx_b);
    let because = fails.last().map(|f| format!("{} (and the result changes)", f.cause));
    match (r0, r1) {
        (Ok(a), Ok(b)) => {
            let spec: OrderSpec = flags.into();
            if let Err(w) = compare_engine_results(&a.rows, &b.rows, &spec) {
                fails.push(Fail { cause: because.unwrap_or_else(|| "result_changed_although_plan_text_is_identical".into()), what: format!("decoded plan of {sql} [{cn}] returns a different result: {w}") });
            } else if a.arrow_types != b.arrow_types {
                fails.push(Fail { cause: because.unwrap_or_else(|| "result_types_changed_although_plan_text_is_identical".into()), what: format!("decoded plan of {sql} [{cn}] returns column types {:?}, the original {:?}", b.arrow_types, a.arrow_types) });
            }
            st.rows = a.rows.len();
            st.nonempty = !a.rows.is_empty();
        }
        (Err(_), Err(_)) => st.both_failed = true,
        (Ok(a), Err(e)) => fails.push(Fail { cause: format!("decoded_plan_fails:{}", normalise_error(&e)), what: format!("original plan of {sql} [{cn}] returns {} but the decoded plan fails: {e}", show_rows(&a.rows)) }),
        (Err(e), Ok(b)) => fails.push(Fail { cause: format!("only_original_fails:{}", normalise_error(&e)), what: format!("original plan of {sql} [{cn}] fails ({e}) but the decoded plan returns {}", show_rows(&b.rows)) }),
    }
    (st, fails)
}

fn sessions(dbv: &Database, conf: &Conf) -> Result<(SessionContext, SessionContext), String> {
    let a = engine::make_context(dbv, &conf.options())?;
    let b = SessionContext::new_with_config(conf.session_config());
    Ok((a, b))
}

fn run_case(c: &Case) -> Result<(), Fail> {
    let (a, b) = sessions(&c.db, &c.conf).map_err(|e| Fail { cause: "machinery".into(), what: e })?;
    let (_, fails) = check(&a, &b, &c.sql, &c.conf, &c.flags);
    let hit = match &c.cause {
        Some(k) => fails.into_iter().find(|f| &f.cause == k),
        None => fails.into_iter().next(),
    };
    match hit {
        Some(f) => Err(f),
        None => Ok(()),
    }
}

type FailMap = Mutex<BTreeMap<String, ((usize, usize, usize, String), String, Case, u64)>>;

fn explore(ctx: &Ctx) {
    let tier = ctx.pick(Tier::Quick, Tier::Thorough);
    let gq: Vec<GenQuery> = grammar::queries(tier);
    let mut qs: Vec<(String, QueryFlags, usize)> = gq.iter().map(|q| (q.sql.clone(), q.flags.clone(), q.size)).collect();
    let n_grammar = qs.len();
    qs.extend(SUPPLEMENT.iter().map(|s| (s.to_string(), QueryFlags::default(), 6)));
    qs[n_grammar + 5].1 = QueryFlags { ordered: true, has_limit: true, may_fail: false, order_key_cols: Some(vec![0]) };
    let dbs = db::rich_databases();
    let cfs = confs(ctx.thorough());
    ctx.set_extra(
        "bounds",
        json!({"queries": n_grammar, "supplement": SUPPLEMENT, "configurations": cfs, "databases": dbs.iter().map(|d| d.0.clone()).collect::<Vec<_>>(),
               "decoding_session": "fresh SessionContext with the same configuration and no tables (MemTable data is embedded in the plan)"}),
    );
    let fails: FailMap = Mutex::new(BTreeMap::new());
    let rejected: Mutex<BTreeMap<String, (u64, String)>> = Mutex::new(BTreeMap::new());
    let operators: Mutex<BTreeMap<String, u64>> = Mutex::new(BTreeMap::new());
    let chunk = 24usize;
    let mut work: Vec<(usize, usize, usize)> = vec![];
    for q0 in (0..qs.len()).step_by(chunk) {
        for ci in 0..cfs.len() {
            for di in 0..dbs.len() {
                work.push((ci, di, q0));
            }
        }
    }
    let samples = std::sync::atomic::AtomicUsize::new(0);
    work.par_iter().for_each(|(ci, di, q0)| {
        if ctx.out_of_time() {
            return;
        }
        let conf = &cfs[*ci];
        let (label, dbv) = &dbs[*di];
        let (a, b) = match sessions(dbv, conf) {
            Ok(x) => x,
            Err(e) => {
                ctx.machinery_error(format!("cannot build sessions: {e}"));
                return;
            }
        };
        for qi in *q0..(*q0 + chunk).min(qs.len()) {
            if ctx.out_of_time() {
                return;
            }
            let q = &qs[qi];
            let (st, fl) = check(&a, &b, &q.0, conf, &q.1);
            if !st.planned {
                ctx.count("no_physical_plan_on_the_direct_route", 1);
                continue;
            }
            ctx.eval();
            ctx.count(&format!("cases[{}]", conf.name), 1);
            if !fl.is_empty() {
                ctx.count("cases_failed", 1);
                for f in fl {
                    let case = Case { sql: q.0.clone(), conf: conf.clone(), db_label: label.clone(), db: dbv.clone(), flags: q.1.clone(), cause: Some(f.cause.clone()) };
                    let mut m = fails.lock().unwrap();
                    let rank = (qi, *ci, dbv.total_rows(), label.clone());
                    match m.get_mut(&f.cause) {
                        Some(e) => {
                            e.3 += 1;
                            if rank < e.0 {
                                *e = (rank, f.what, case, e.3);
                            }
                        }
                        None => {
                            m.insert(f.cause, (rank, f.what, case, 1));
                        }
                    }
                }
                continue;
            }
            if let Some(why) = st.encode_rejected {
                ctx.count("cases_encoder_rejected", 1);
                let mut r = rejected.lock().unwrap();
                let e = r.entry(why).or_insert((0, format!("{} [{}]", q.0, conf.name)));
                e.0 += 1;
                continue;
            }
            ctx.count("cases_round_tripped", 1);
            ctx.count("plan_nodes_compared", st.nodes as u64);
            if st.both_failed {
                ctx.count("cases_both_plans_fail_at_run_time", 1);
            }
            if st.eq_properties_text_differs {
                ctx.count("cases_with_different_equivalence_properties_text (informational)", 1);
            }
            if *di == 0 {
                let mut o = operators.lock().unwrap();
                for op in &st.operators {
                    *o.entry(op.clone()).or_insert(0) += 1;
                }
            }
            if st.nonempty {
                ctx.nontrivial(&(&q.0, &conf.name, label));
                if st.rows >= 2 && st.nodes >= 6 && samples.fetch_add(1, std::sync::atomic::Ordering::Relaxed) < 4 {
                    ctx.sample(json!({"sql": q.0, "configuration": conf.name, "db": label, "plan_nodes": st.nodes, "operators": st.operators, "result_rows": st.rows}));
                }
            }
        }
    });
    let rj = rejected.into_inner().unwrap();
    ctx.set_extra("encoder_rejections", json!(rj.iter().map(|(k, (n, ex))| json!({"reason": k, "cases": n, "example": ex})).collect::<Vec<_>>()));
    ctx.set_extra("operators_round_tripped (plans containing them, first database)", json!(operators.into_inner().unwrap()));
    for (cause, (_, what, case, n)) in fails.into_inner().unwrap() {
        ctx.count(&format!("cases_attributed_to:{cause}"), n);
        ctx.violation(cause, format!("{what}\n[{n} case(s) share this root-cause key; this is the smallest]"), serde_json::to_value(&case).unwrap());
    }
}

fn replay(v: &Json) -> Result<(), String> {
    let c: Case = serde_json::from_value(v.clone()).map_err(|e| format!("bad case: {e}"))?;
    run_case(&c).map_err(|f| format!("[{}] {}", f.cause, f.what))
}

fn debug_main(args: &[String]) -> bool {
    if let Some(p) = args.iter().position(|a| a == "--sql") {
        let sql = args.get(p + 1).cloned().unwrap_or_default();
        let cname = args.iter().position(|a| a == "--conf").and_then(|i| args.get(i + 1)).cloned().unwrap_or("default".into());
        let conf = confs(true).into_iter().find(|c| c.name == cname).expect("unknown configuration");
        let label = args.iter().position(|a| a == "--db").and_then(|i| args.get(i + 1)).cloned().unwrap_or("all_distinct".into());
        let dbv = db::rich_databases().into_iter().find(|(l, _)| *l == label).map(|x| x.1).unwrap_or_else(Database::empty);
        let (a, b) = sessions(&dbv, &conf).unwrap();
        if let Ok(l) = engine::plan_sql(&a, &sql) {
            match engine::block_on(a.state().create_physical_plan(&l)) {
                Ok(p) => {
                    println!("original:\n{}", plan_text(&p));
                    fn props(p: &Arc<dyn ExecutionPlan>, d: usize) {
                        println!("{}{} | part={} | ord={} | eq={}", "  ".repeat(d), p.name(), p.output_partitioning(), p.output_ordering().map(|o| o.to_string()).unwrap_or("none".into()), p.equivalence_properties());
                        for c in p.children() {
                            props(c, d + 1);
                        }
                    }
                    if args.iter().any(|a| a == "--props") {
                        props(&p, 0);
                        if let Ok(bytes) = physical_plan_to_bytes(p.clone()) {
                            if let Ok(back) = physical_plan_from_bytes(&bytes, &b.task_ctx()) {
                                println!("decoded properties:");
                                props(&back, 0);
                            }
                        }
                    }
                    match physical_plan_to_bytes(p.clone()) {
                        Ok(bytes) => match physical_plan_from_bytes(&bytes, &b.task_ctx()) {
                            Ok(back) => println!("decoded:\n{}", plan_text(&back)),
                            Err(e) => println!("decode error: {e}"),
                        },
                        Err(e) => println!("encode error: {e}"),
                    }
                }
                Err(e) => println!("physical planning error: {e}"),
            }
        }
        let (st, fl) = check(&a, &b, &sql, &conf, &QueryFlags::default());
        println!("stats: {st:?}");
        for f in fl {
            println!("FAIL [{}] {}", f.cause, f.what);
        }
        return true;
    }
    false
}

fn main() {
    if debug_main(&mc_core::extra_args()) {
        return;
    }
    mc_core::quiet_panics();
    run_check(
        "C36",
        Level::Exploration,
        "every grammar query (+ a 9-statement supplement) x session configurations (default; target_partitions=3 over 2-partition tables; sort-merge join with batch_size=2; thorough adds 2 more) \
         x 12 rich databases: the engine's physical plan is encoded with physical_plan_to_bytes and decoded with physical_plan_from_bytes in a fresh session; demanded: equal indent(verbose)+schema text, \
         equal per-node operator / partitioning / ordering / boundedness / emission type / fetch / schema, equal execution result; encoder errors are counted rejections; \
         non-trivial = distinct (query, configuration, database) whose plan round-trips and returns a non-empty result",
        explore,
        replay,
    );
}
