//! C53 — reported row-count metrics equal the rows actually produced.
//!
//! Enumerated: grammar G × the 12 rich databases × the walker's configuration
//! menu.  For every physical plan: (1) every node is executed standalone and
//! its rows are counted (sum over partitions); (2) a fresh copy of the WHOLE
//! plan is run to completion (all root partitions driven concurrently), and the
//! `output_rows` metric of every node of that copy is read afterwards.
//!
//! Oracle: for every node whose output is consumed in full in the whole-plan
//! run, `metrics().output_rows()` equals the standalone row count.
//! "Consumed in full" is decided structurally and conservatively, top-down:
//! the root is; a child is iff its parent is and the parent is an operator
//! that, by its join type / absence of a fetch, must read that input to the end
//! (see `drains`).  Everything under a LIMIT, a TopK sort, a fetch, the probe
//! side of a join that may finish early (inner / semi / left joins whose build
//! side can be empty …), the recursive term of a recursive query, or an
//! operator this file does not know, demands nothing.  A node that holds a
//! dynamic filter produced elsewhere or is a multi-partition TopK (whose
//! partitions prune each other), and its ancestors, demand nothing either
//! (their in-situ output legitimately depends on run-time pruning).
//!
//! Debug helper: `c53 --explain "<sql>" [--db <label>] [--config <name>]`.
#[path = "walker/mod.rs"]
mod walker;

use datafusion::common::JoinType;
use datafusion::physical_plan::{ExecutionPlan, ExecutionPlanProperties};
use datafusion::physical_plan::aggregates::AggregateExec;
use datafusion::physical_plan::coalesce_partitions::CoalescePartitionsExec;
use datafusion::physical_plan::filter::FilterExec;
use datafusion::physical_plan::limit::{GlobalLimitExec, LocalLimitExec};
use datafusion::physical_plan::joins::{CrossJoinExec, HashJoinExec, NestedLoopJoinExec, SortMergeJoinExec};
use datafusion::physical_plan::projection::ProjectionExec;
use datafusion::physical_plan::recursive_query::RecursiveQueryExec;
use datafusion::physical_plan::repartition::RepartitionExec;
use datafusion::physical_plan::scalar_subquery::ScalarSubqueryExec;
use datafusion::physical_plan::sorts::sort::SortExec;
use datafusion::physical_plan::sorts::sort_preserving_merge::SortPreservingMergeExec;
use datafusion::physical_plan::union::{InterleaveExec, UnionExec};
use datafusion::physical_plan::unnest::UnnestExec;
use datafusion::physical_plan::windows::{BoundedWindowAggExec, WindowAggExec};
use mc_core::serde_json::json;
use mc_core::{Ctx, Level, run_check};
use walker::{Case, Checker, ExploreOpts, Outcome, PlanRun};

/// Does `p`, when its own output is consumed in full, necessarily read its
/// `k`-th input to the end?  `None` = operator unknown to this check.
fn drains(p: &dyn ExecutionPlan, k: usize) -> Option<bool> {
    let no_fetch = p.fetch().is_none();
    if p.is::<ProjectionExec>() || p.is::<RepartitionExec>() || p.is::<UnionExec>() || p.is::<InterleaveExec>() || p.is::<WindowAggExec>() || p.is::<BoundedWindowAggExec>() || p.is::<UnnestExec>() {
        return Some(no_fetch);
    }
    if p.is::<FilterExec>() || p.is::<CoalescePartitionsExec>() || p.is::<SortPreservingMergeExec>() {
        return Some(no_fetch);
    }
    if let Some(s) = p.downcast_ref::<SortExec>() {
        // a sort with a fetch is a TopK: it may stop early on a sorted prefix and prunes its input dynamically
        return Some(s.fetch().is_none() && no_fetch);
    }
    if let Some(a) = p.downcast_ref::<AggregateExec>() {
        return Some(a.limit_options().is_none() && no_fetch);
    }
    if let Some(j) = p.downcast_ref::<HashJoinExec>() {
        // the build side (left) is always collected; the probe side is skipped when the build side
        // is empty unless every probe row must be examined whatever the build side holds
        return Some(match k {
            0 => no_fetch,
            _ => no_fetch && matches!(j.join_type(), JoinType::Right | JoinType::Full | JoinType::RightAnti | JoinType::RightMark),
        });
    }
    if let Some(j) = p.downcast_ref::<NestedLoopJoinExec>() {
        return Some(match k {
            0 => no_fetch,
            _ => no_fetch && matches!(j.join_type(), JoinType::Right | JoinType::Full | JoinType::RightAnti | JoinType::RightMark),
        });
    }
    if p.is::<CrossJoinExec>() {
        return Some(k == 0 && no_fetch);
    }
    if let Some(j) = p.downcast_ref::<SortMergeJoinExec>() {
        // a merge join stops when the side it does not have to preserve runs out
        return Some(match (k, j.join_type()) {
            (0, JoinType::Left | JoinType::Full) => no_fetch,
            (1, JoinType::Right | JoinType::Full) => no_fetch,
            _ => false,
        });
    }
    if p.is::<ScalarSubqueryExec>() {
        // main input is passed through; every subquery stream is read to its end (to detect a second row)
        return Some(true);
    }
    if p.is::<GlobalLimitExec>() || p.is::<LocalLimitExec>() {
        return Some(false);
    }
    if p.is::<RecursiveQueryExec>() {
        // the static term is read once to the end; the recursive term runs once per iteration
        return Some(k == 0);
    }
    None
}

fn check(case: &Case, run: &PlanRun, out: &mut Outcome) {
    // (2) the whole plan, fresh state, to completion
    let Some(copy) = run.whole_plan_copy() else {
        out.count("whole_plan_copy_could_not_be_built", 1);
        return;
    };
    // metrics of a file scan live in the (shared) file source and survive `reset_state`: the rows
    // the standalone runs recorded there are subtracted (reading before / after the whole run)
    let before: Vec<usize> = walker::flatten(&copy).iter().map(|n| n.plan.metrics().and_then(|m| m.output_rows()).unwrap_or(0)).collect();
    let whole = walker::execute_all(&copy, run.sctx.task_ctx());
    out.evals += 1;
    if !whole.complete() {
        out.count("whole_plan_runs_ending_in_an_error(nothing_demanded)", 1);
        return;
    }
    let executed = walker::flatten(&copy);
    if executed.len() != run.nodes.len() || executed.iter().zip(&run.nodes).any(|(a, b)| a.path != b.node.path || a.name != b.node.name) {
        out.count("whole_plan_copy_has_a_different_shape(nothing_demanded)", 1);
        return;
    }
    // structural decision, top-down (pre-order: parents come first)
    let n = executed.len();
    let mut consumed = vec![false; n];
    let mut why_not: Vec<&'static str> = vec![""; n];
    for i in 0..n {
        match executed[i].parent {
            None => consumed[i] = true,
            Some(p) => {
                if !consumed[p] {
                    why_not[i] = why_not[p];
                } else {
                    match drains(executed[p].plan.as_ref(), executed[i].child_no) {
                        Some(true) => consumed[i] = true,
                        Some(false) => why_not[i] = "under_an_operator_that_may_stop_reading_early",
                        None => why_not[i] = "under_an_operator_unknown_to_the_check",
                    }
                    if !consumed[i] && drains(executed[p].plan.as_ref(), executed[i].child_no).is_none() {
                        out.count(&format!("unknown_operator:{}", executed[p].name), 1);
                    }
                }
            }
        }
    }
    // a consumer of a dynamic filter, and everything above it, is data-dependent
    let mut dynamic = vec![false; n];
    for i in (0..n).rev() {
        if walker::node_consumes_dynamic_filter(executed[i].plan.as_ref()) {
            dynamic[i] = true;
        }
        // the partitions of a multi-partition TopK prune each other through a shared filter:
        // how many rows each emits depends on the order in which they are polled
        if let Some(s) = executed[i].plan.downcast_ref::<SortExec>() {
            if s.fetch().is_some() && executed[i].plan.output_partitioning().partition_count() > 1 {
                dynamic[i] = true;
            }
        }
        if dynamic[i] {
            if let Some(p) = executed[i].parent {
                dynamic[p] = true;
            }
        }
    }
    for i in 0..n {
        let name = &executed[i].name;
        if !consumed[i] {
            out.count(&format!("nodes_not_demanded:{}", why_not[i]), 1);
            continue;
        }
        if dynamic[i] {
            out.count("nodes_not_demanded:is_or_is_above_a_dynamic_filter_consumer_or_a_multi_partition_TopK", 1);
            continue;
        }
        let Some(standalone) = run.nodes[i].output() else {
            out.count("nodes_not_demanded:not_runnable_standalone", 1);
            continue;
        };
        if !standalone.complete() {
            out.count("nodes_not_demanded:standalone_run_failed", 1);
            continue;
        }
        let reported = match executed[i].plan.metrics() {
            None => {
                out.count(&format!("nodes_without_metrics:{name}"), 1);
                continue;
            }
            Some(m) => match m.output_rows() {
                None => {
                    out.count(&format!("nodes_without_an_output_rows_metric:{name}"), 1);
                    continue;
                }
                Some(r) => r.saturating_sub(before[i]),
            },
        };
        if before[i] > 0 {
            out.count("metrics_read_as_a_difference(metric_state_shared_between_plan_copies)", 1);
        }
        let produced = standalone.rows();
        out.count(&format!("metric_checked:{name}"), 1);
        if produced > 0 {
            out.nontrivial.push(format!("{:?}", executed[i].path));
            out.count(&format!("metric_checked_on_rows:{name}"), 1);
        }
        if reported != produced {
            out.finding(
                &run.nodes[i].node,
                "output_rows metric differs from the rows produced",
                format!("after the whole plan ran to completion metrics().output_rows() = {reported}, the node produces {produced} row(s) (per partition: {:?})", (0..standalone.parts.len()).map(|p| standalone.part_rows(p)).collect::<Vec<_>>()),
            );
        }
        if out.sample.is_none() && produced > 1 && executed[i].path.len() >= 2 {
            out.sample = Some(json!({
                "sql": case.sql, "db": case.db_label, "config": case.config, "node": executed[i].path, "node_text": walker::one_line(executed[i].plan.as_ref()),
                "output_rows_metric_after_whole_run": reported, "rows_produced_standalone": produced,
            }));
        }
    }
}

const CHECKER: Checker = Checker { check: &check, needs_all_nodes: true };

fn explore(ctx: &Ctx) {
    let configs: Vec<&str> = ctx.pick(vec!["default", "tp3", "smj_bs2", "parquet"], walker::ALL_CONFIGS.to_vec());
    walker::explore(ctx, &ExploreOpts { configs: &configs }, &CHECKER);
}

fn main() {
    if walker::debug_main(&mc_core::extra_args(), &CHECKER) {
        return;
    }
    mc_core::quiet_panics();
    run_check(
        "C53",
        Level::Exploration,
        "every query of grammar G (tier menus) x the 12 rich databases x the configuration menu (quick: default, target_partitions=3 over 2-partition tables, sort-merge join + batch_size 2, sorted Parquet files; \
         thorough adds declared-sorted MemTables): every node executed standalone (rows counted over all partitions) and a fresh copy of the whole plan run to completion; for every node whose \
         ancestors structurally must read their input to the end, metrics().output_rows() after the whole run must equal the standalone row count; evaluations = whole-plan runs; \
         non-trivial = distinct (query, database, configuration, node) whose metric was demanded and whose output has at least one row",
        explore,
        |v| walker::replay(v, &CHECKER),
    );
}
