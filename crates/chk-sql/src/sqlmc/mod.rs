//! `sqlmc` — the whole-engine SQL model-checking library (DESIGN §4.1).
//!
//! * [`ast`] query AST + builders, [`render`] AST -> SQL text,
//! * [`grammar`] the query grammar G (families F1..F12, quick / thorough lists, tags, flags),
//! * [`db`] schema, value domains, DB(n, D) enumerator, the 12 rich databases,
//! * [`engine`] SessionContext factory over MemTables + typed result canonicalisation,
//! * [`reference`] the independent reference interpreter,
//! * [`compare`] result comparison (multiset / ordered with ties / LIMIT over ties).
pub mod ast;
pub mod compare;
pub mod db;
pub mod engine;
pub mod grammar;
mod grammar2;
mod grammar3;
pub mod reference;
pub mod render;
pub mod value;

pub use compare::{OrderSpec, compare, compare_engine_results, same_multiset};
pub use db::{Database, Domain, Table, rich_databases};
pub use engine::{ContextOptions, Layout, QueryResult, TextEncoding, block_on, default_config, make_context, run_df, run_plan, run_sql};
pub use grammar::{GenQuery, QueryFlags, Tier, operator_cover, queries};
pub use reference::{Quirks, RefOutcome, RefResult, evaluate, evaluate_with};
pub use value::{ColType, Row, Value};
