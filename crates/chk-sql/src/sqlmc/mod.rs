//! `sqlmc` — the whole-engine SQL model-checking library (DESIGN §4.1).
//!
//! * [`ast`] query AST + builders, [`render`] AST -> SQL text,
//! * [`grammar`] the query grammar G (families F1..F12, quick / thorough lists, tags, flags),
//! * [`db`] schema, value domains, DB(n, D) enumerator, the 12 rich databases,
//! * [`engine`] SessionContext factory over MemTables + typed result canonicalisation,
//! * [`reference`] the independent reference interpreter,
//! * [`compare`] result comparison (multiset / ordered with ties / LIMIT over ties).
//!
//! Typical use from a check binary:
//! ```ignore
//! use chk_sql::sqlmc::{self, grammar, db, engine, oracle, compare};
//! let qs = grammar::queries(grammar::Tier::Quick);           // Vec<GenQuery>: sql, ast, tags, flags, tables
//! for (label, dbv) in db::rich_databases() {                  // or db::for_each_db_bounded(..)
//!     let ctx = engine::make_context(&dbv, &sqlmc::ContextOptions::default())?;   // layout / SessionConfig / text encoding
//!     for q in &qs {
//!         let direct = engine::run_sql(&ctx, &q.sql);         // Result<QueryResult, String>
//!         // metamorphic twin: engine::run_plan(&ctx, plan) / engine::run_df(df) / another context
//!         // compare::compare_engine_results(&a.rows, &b.rows, &(&q.flags).into())
//!         // or against the reference: oracle::check_one(&ctx, &q.sql, &q.ast, &dbv)
//!     }
//! }
//! ```
//! All engine calls run on a thread-local current-thread tokio runtime
//! ([`engine::block_on`]), so they can be issued from rayon workers.
pub mod ast;
pub mod compare;
pub mod db;
pub mod dml;
pub mod engine;
pub mod grammar;
pub mod oracle;
mod grammar2;
mod grammar3;
pub mod reference;
pub mod render;
pub mod value;

pub use compare::{OrderSpec, compare, compare_engine_results, same_multiset};
pub use db::{Database, Domain, Table, rich_databases};
pub use engine::{ContextOptions, Layout, QueryResult, TextEncoding, block_on, default_config, make_context, run_df, run_plan, run_sql};
pub use grammar::{GenQuery, QueryFlags, Tier, operator_cover, queries};
pub use reference::{Quirks, RefOutcome, RefResult, evaluate, evaluate_with};
pub use value::{ColType, Row, Value};
