//! Result comparison (DESIGN §3).
//!
//! * unordered query: multiset equality of typed rows;
//! * ORDER BY: the engine's sequence must be the reference sequence up to
//!   permutations *inside* tie groups (rows equal on every sort key);
//! * OFFSET/LIMIT: the window may cut a tie group — then any choice among the
//!   tied rows is accepted (sub-multiset of the group); without ORDER BY all
//!   rows tie, so any sub-multiset of the right size is accepted.
use super::reference::RefResult;
use super::value::{Row, canonical_rows, show_rows};
use std::collections::BTreeMap;

fn bag(rows: &[Row]) -> BTreeMap<&Row, usize> {
    let mut m = BTreeMap::new();
    for r in rows {
        *m.entry(r).or_insert(0) += 1;
    }
    m
}

/// Multiset equality of two row collections.
pub fn same_multiset(a: &[Row], b: &[Row]) -> bool {
    a.len() == b.len() && bag(a) == bag(b)
}

/// `a ⊆ b` as multisets.
pub fn sub_multiset(a: &[Row], b: &[Row]) -> bool {
    let bb = bag(b);
    bag(a).iter().all(|(r, n)| bb.get(*r).copied().unwrap_or(0) >= *n)
}

/// Does the engine's row sequence `got` agree with the reference answer?
pub fn compare(expected: &RefResult, got: &[Row]) -> Result<(), String> {
    let want_len = expected.expected_len();
    let describe = || {
        format!(
            "expected{} {}{}, got {}",
            if expected.ordered { " (ordered, ties may permute)" } else { " (multiset)" },
            show_rows(&expected.rows),
            match (expected.offset, expected.limit) {
                (0, None) => String::new(),
                (o, l) => format!(" then OFFSET {o} LIMIT {l:?}"),
            },
            show_rows(got)
        )
    };
    if got.len() != want_len {
        return Err(format!("row count {} != {}: {}", got.len(), want_len, describe()));
    }
    if let Some(w) = expected.rows.first().map(|r| r.len()) {
        if let Some(bad) = got.iter().find(|r| r.len() != w) {
            return Err(format!("column count {} != {}: {}", bad.len(), w, describe()));
        }
    }
    let n = expected.rows.len();
    let lo = expected.offset.min(n);
    let hi = lo + want_len;
    // walk the tie groups overlapping the window [lo, hi)
    let mut p = lo;
    while p < hi {
        let g = expected.tie_groups[p];
        // full extent of the group in the reference
        let mut gs = p;
        while gs > 0 && expected.tie_groups[gs - 1] == g {
            gs -= 1;
        }
        let mut ge = p;
        while ge < n && expected.tie_groups[ge] == g {
            ge += 1;
        }
        let win_e = ge.min(hi);
        let got_part = &got[p - lo..win_e - lo];
        let group_rows = &expected.rows[gs..ge];
        let ok = if gs >= lo && ge <= hi { same_multiset(got_part, group_rows) } else { sub_multiset(got_part, group_rows) };
        if !ok {
            return Err(format!("rows at positions {}..{} do not match tie group {}: {}", p - lo, win_e - lo, show_rows(group_rows), describe()));
        }
        p = win_e;
    }
    Ok(())
}

/// How two *engine* results of the same query are to be compared (metamorphic checks).
#[derive(Clone, Debug, Default)]
pub struct OrderSpec {
    /// `Some(keys)`: the query has a top-level ORDER BY whose every key is an
    /// output column: (column index, desc, nulls_first).  `None` with
    /// `ordered = true` means the keys are not visible in the output.
    pub key_cols: Option<Vec<usize>>,
    pub ordered: bool,
    pub has_limit: bool,
}

impl From<&super::grammar::QueryFlags> for OrderSpec {
    fn from(f: &super::grammar::QueryFlags) -> Self {
        OrderSpec { key_cols: f.order_key_cols.clone(), ordered: f.ordered, has_limit: f.has_limit }
    }
}

/// Compare two engine results of one query under two routes/configurations.
///
/// * no ORDER BY, no LIMIT: multiset equality;
/// * ORDER BY on visible keys: equal length, the sequences of key tuples are
///   equal, and (without LIMIT) rows agree as multisets inside each run of
///   equal keys; with LIMIT the last run may be cut, so only runs that are
///   followed by a different key are compared as multisets, and the last run
///   is not compared beyond its keys;
/// * ORDER BY on invisible keys: multiset equality without LIMIT, only the
///   row count with LIMIT;
/// * LIMIT without ORDER BY: only the row count.
pub fn compare_engine_results(a: &[Row], b: &[Row], spec: &OrderSpec) -> Result<(), String> {
    let fail = |why: &str| Err(format!("{why}: {} vs {}", show_rows(a), show_rows(b)));
    if a.len() != b.len() {
        return fail("row counts differ");
    }
    if !spec.ordered {
        if spec.has_limit {
            return Ok(());
        }
        return if same_multiset(a, b) { Ok(()) } else { fail("multisets differ") };
    }
    let keys = match &spec.key_cols {
        Some(k) => k,
        None => {
            if spec.has_limit {
                return Ok(());
            }
            return if same_multiset(a, b) { Ok(()) } else { fail("multisets differ") };
        }
    };
    let key = |r: &Row| -> Vec<super::value::Value> { keys.iter().map(|k| r[*k].clone()).collect() };
    let mut p = 0;
    while p < a.len() {
        if key(&a[p]) != key(&b[p]) {
            return fail("sort key sequences differ");
        }
        let mut e = p + 1;
        while e < a.len() && key(&a[e]) == key(&a[p]) {
            e += 1;
        }
        for q in p..e {
            if key(&b[q]) != key(&a[p]) {
                return fail("sort key sequences differ");
            }
        }
        let is_last_run = e == a.len();
        // OFFSET may cut the first run, LIMIT the last one
        if !(spec.has_limit && (is_last_run || p == 0)) && !same_multiset(&a[p..e], &b[p..e]) {
            return fail("rows inside a tie group differ");
        }
        p = e;
    }
    Ok(())
}

/// Canonical (sorted) form of a result for hashing / display.
pub fn canonical(rows: &[Row]) -> Vec<Row> {
    canonical_rows(rows)
}
