//! The real-engine side: build a `SessionContext` over MemTables holding a
//! [`Database`] in a requested physical layout, run SQL / plans / DataFrames
//! on a current-thread tokio runtime, and canonicalise Arrow results to typed
//! rows.
use super::db::{Database, Table};
use super::value::{ColType, Row, Value};
use arrow::array::{
    Array, ArrayRef, BooleanArray, BooleanBuilder, Float64Array, Float64Builder, Int32Builder, RecordBatch, StringBuilder,
    StringViewBuilder,
};
use arrow::datatypes::{DataType, Field, Schema, SchemaRef};
use datafusion::catalog::MemTable;
use datafusion::dataframe::DataFrame;
use datafusion::logical_expr::LogicalPlan;
use datafusion::prelude::{SessionConfig, SessionContext};
use serde::{Deserialize, Serialize};
use std::sync::Arc;

/// Physical layout of every registered table.
#[derive(Clone, Debug, PartialEq, Eq, Hash, Serialize, Deserialize)]
pub enum Layout {
    /// 1 partition, 1 batch (an empty table has 1 partition with no batch).
    Single,
    /// Row `i` goes to partition `i % partitions`; each partition is cut into
    /// batches of at most `batch_rows` rows (0 = one batch per partition).
    /// Partitions that receive no row still exist (empty).
    RoundRobin { partitions: usize, batch_rows: usize },
    /// Rows in table order cut into consecutive chunks: `cuts[p][b]` = number of
    /// rows in batch `b` of partition `p` (must sum to the table's row count;
    /// tables whose row count differs fall back to `Single`).
    Consecutive { cuts: Vec<Vec<usize>> },
}

/// How the TEXT column is stored.
#[derive(Clone, Copy, Debug, PartialEq, Eq, Hash, Serialize, Deserialize)]
pub enum TextEncoding {
    /// `Utf8View` — what `CREATE TABLE .. (c TEXT)` gives with default options.
    View,
    Utf8,
}

#[derive(Clone, Debug)]
pub struct ContextOptions {
    pub layout: Layout,
    pub config: SessionConfig,
    pub text: TextEncoding,
}

impl Default for ContextOptions {
    fn default() -> Self {
        ContextOptions { layout: Layout::Single, config: default_config(), text: TextEncoding::View }
    }
}

/// The configuration C01 pins: defaults, with `target_partitions = 1` so the
/// plan does not depend on the number of cores of the machine, and
/// information_schema enabled.
pub fn default_config() -> SessionConfig {
    SessionConfig::new().with_target_partitions(1).with_information_schema(true)
}

pub fn arrow_type(t: ColType, text: TextEncoding) -> DataType {
    match t {
        ColType::Int => DataType::Int32,
        ColType::Float => DataType::Float64,
        ColType::Text => match text {
            TextEncoding::View => DataType::Utf8View,
            TextEncoding::Utf8 => DataType::Utf8,
        },
        ColType::Bool => DataType::Boolean,
        _ => DataType::Null,
    }
}

pub fn arrow_schema(t: &Table, text: TextEncoding) -> SchemaRef {
    Arc::new(Schema::new(t.cols.iter().map(|(n, ty)| Field::new(n, arrow_type(*ty, text), true)).collect::<Vec<_>>()))
}

fn build_column(rows: &[&Row], idx: usize, ty: ColType, text: TextEncoding) -> ArrayRef {
    match ty {
        ColType::Int => {
            let mut b = Int32Builder::new();
            for r in rows {
                match &r[idx] {
                    Value::Int(i) => b.append_value(*i as i32),
                    _ => b.append_null(),
                }
            }
            Arc::new(b.finish())
        }
        ColType::Float => {
            let mut b = Float64Builder::new();
            for r in rows {
                match &r[idx] {
                    Value::Float(f) => b.append_value(*f),
                    Value::Int(i) => b.append_value(*i as f64),
                    _ => b.append_null(),
                }
            }
            Arc::new(b.finish())
        }
        ColType::Bool => {
            let mut b = BooleanBuilder::new();
            for r in rows {
                match &r[idx] {
                    Value::Bool(x) => b.append_value(*x),
                    _ => b.append_null(),
                }
            }
            Arc::new(b.finish())
        }
        _ => match text {
            TextEncoding::View => {
                let mut b = StringViewBuilder::new();
                for r in rows {
                    match &r[idx] {
                        Value::Text(s) => b.append_value(s),
                        _ => b.append_null(),
                    }
                }
                Arc::new(b.finish())
            }
            TextEncoding::Utf8 => {
                let mut b = StringBuilder::new();
                for r in rows {
                    match &r[idx] {
                        Value::Text(s) => b.append_value(s),
                        _ => b.append_null(),
                    }
                }
                Arc::new(b.finish())
            }
        },
    }
}

/// One RecordBatch holding the given rows of `t`.
pub fn rows_to_batch(t: &Table, rows: &[&Row], text: TextEncoding) -> RecordBatch {
    let schema = arrow_schema(t, text);
    let cols: Vec<ArrayRef> = t.cols.iter().enumerate().map(|(i, (_, ty))| build_column(rows, i, *ty, text)).collect();
    RecordBatch::try_new(schema, cols).expect("consistent batch")
}

/// Partitions × batches of a table under a layout.
pub fn table_partitions(t: &Table, layout: &Layout, text: TextEncoding) -> Vec<Vec<RecordBatch>> {
    let all: Vec<&Row> = t.rows.iter().collect();
    let single = |rows: &[&Row]| -> Vec<Vec<RecordBatch>> {
        if rows.is_empty() { vec![vec![]] } else { vec![vec![rows_to_batch(t, rows, text)]] }
    };
    match layout {
        Layout::Single => single(&all),
        Layout::RoundRobin { partitions, batch_rows } => {
            let p = (*partitions).max(1);
            let mut parts: Vec<Vec<&Row>> = vec![vec![]; p];
            for (i, r) in all.iter().enumerate() {
                parts[i % p].push(r);
            }
            parts
                .into_iter()
                .map(|rows| {
                    if rows.is_empty() {
                        vec![]
                    } else if *batch_rows == 0 {
                        vec![rows_to_batch(t, &rows, text)]
                    } else {
                        rows.chunks(*batch_rows).map(|c| rows_to_batch(t, c, text)).collect()
                    }
                })
                .collect()
        }
        Layout::Consecutive { cuts } => {
            let total: usize = cuts.iter().flatten().sum();
            if total != all.len() || cuts.is_empty() {
                return single(&all);
            }
            let mut pos = 0;
            cuts.iter()
                .map(|part| {
                    part.iter()
                        .filter(|n| **n > 0)
                        .map(|n| {
                            let b = rows_to_batch(t, &all[pos..pos + n], text);
                            pos += n;
                            b
                        })
                        .collect()
                })
                .collect()
        }
    }
}

/// A fresh `SessionContext` with every table of `db` registered as a MemTable.
pub fn make_context(db: &Database, opts: &ContextOptions) -> Result<SessionContext, String> {
    let ctx = SessionContext::new_with_config(opts.config.clone());
    register_database(&ctx, db, &opts.layout, opts.text)?;
    Ok(ctx)
}

/// Register (or replace) every table of `db` in `ctx`.
pub fn register_database(ctx: &SessionContext, db: &Database, layout: &Layout, text: TextEncoding) -> Result<(), String> {
    for t in &db.tables {
        let parts = table_partitions(t, layout, text);
        let mt = MemTable::try_new(arrow_schema(t, text), parts).map_err(|e| format!("MemTable::try_new({}): {e}", t.name))?;
        let _ = ctx.deregister_table(t.name.as_str());
        ctx.register_table(t.name.as_str(), Arc::new(mt)).map_err(|e| format!("register_table({}): {e}", t.name))?;
    }
    Ok(())
}

/// Canonical typed result of one execution.
#[derive(Clone, Debug, PartialEq, Serialize, Deserialize)]
pub struct QueryResult {
    pub names: Vec<String>,
    pub types: Vec<ColType>,
    /// Arrow data types as text (`Int64`, `Utf8View`, …) for diagnostics / C30.
    pub arrow_types: Vec<String>,
    /// Rows in the order the engine delivered them (batches concatenated,
    /// partitions in index order).
    pub rows: Vec<Row>,
}

pub fn col_type_of(dt: &DataType) -> ColType {
    match dt {
        DataType::Int8
        | DataType::Int16
        | DataType::Int32
        | DataType::Int64
        | DataType::UInt8
        | DataType::UInt16
        | DataType::UInt32
        | DataType::UInt64 => ColType::Int,
        DataType::Float16 | DataType::Float32 | DataType::Float64 => ColType::Float,
        DataType::Utf8 | DataType::LargeUtf8 | DataType::Utf8View => ColType::Text,
        DataType::Boolean => ColType::Bool,
        DataType::Null => ColType::Null,
        DataType::List(_) | DataType::LargeList(_) | DataType::FixedSizeList(_, _) | DataType::ListView(_) => ColType::List,
        DataType::Dictionary(_, v) => col_type_of(v),
        _ => ColType::Other,
    }
}

/// Convert one Arrow array to cells.
pub fn array_to_values(a: &ArrayRef) -> Vec<Value> {
    use arrow::compute::cast;
    let n = a.len();
    let dt = a.data_type().clone();
    match col_type_of(&dt) {
        ColType::Null => vec![Value::Null; n],
        ColType::Int => {
            if matches!(dt, DataType::UInt64) {
                let arr = a.as_any().downcast_ref::<arrow::array::UInt64Array>().unwrap();
                return (0..n)
                    .map(|i| {
                        if arr.is_null(i) {
                            Value::Null
                        } else if arr.value(i) > i64::MAX as u64 {
                            Value::Other { other: arr.value(i).to_string() }
                        } else {
                            Value::Int(arr.value(i) as i64)
                        }
                    })
                    .collect();
            }
            let c = cast(a, &DataType::Int64).expect("int cast");
            let arr = c.as_any().downcast_ref::<arrow::array::Int64Array>().unwrap();
            (0..n).map(|i| if arr.is_null(i) { Value::Null } else { Value::Int(arr.value(i)) }).collect()
        }
        ColType::Float => {
            let c = cast(a, &DataType::Float64).expect("float cast");
            let arr = c.as_any().downcast_ref::<Float64Array>().unwrap();
            (0..n).map(|i| if arr.is_null(i) { Value::Null } else { Value::Float(arr.value(i)) }).collect()
        }
        ColType::Text => {
            let c = cast(a, &DataType::Utf8).expect("utf8 cast");
            let arr = c.as_any().downcast_ref::<arrow::array::StringArray>().unwrap();
            (0..n).map(|i| if arr.is_null(i) { Value::Null } else { Value::Text(arr.value(i).to_string()) }).collect()
        }
        ColType::Bool => {
            let c = if matches!(dt, DataType::Boolean) { a.clone() } else { cast(a, &DataType::Boolean).expect("bool cast") };
            let arr = c.as_any().downcast_ref::<BooleanArray>().unwrap();
            (0..n).map(|i| if arr.is_null(i) { Value::Null } else { Value::Bool(arr.value(i)) }).collect()
        }
        ColType::List => {
            let inner_ty = match &dt {
                DataType::List(f) | DataType::LargeList(f) | DataType::FixedSizeList(f, _) | DataType::ListView(f) => f.data_type().clone(),
                _ => unreachable!(),
            };
            let c = cast(a, &DataType::List(Arc::new(Field::new("item", inner_ty, true)))).expect("list cast");
            let arr = c.as_any().downcast_ref::<arrow::array::ListArray>().unwrap();
            (0..n).map(|i| if arr.is_null(i) { Value::Null } else { Value::List(array_to_values(&arr.value(i))) }).collect()
        }
        ColType::Other => {
            let opts = arrow::util::display::FormatOptions::default();
            let f = arrow::util::display::ArrayFormatter::try_new(a.as_ref(), &opts);
            (0..n)
                .map(|i| {
                    if a.is_null(i) {
                        Value::Null
                    } else {
                        match &f {
                            Ok(f) => Value::Other { other: format!("{}:{}", dt, f.value(i)) },
                            Err(_) => Value::Other { other: format!("{dt}:?") },
                        }
                    }
                })
                .collect()
        }
    }
}

/// Canonicalise collected batches.
pub fn batches_to_result(schema: &Schema, batches: &[RecordBatch]) -> QueryResult {
    let names = schema.fields().iter().map(|f| f.name().clone()).collect();
    let types = schema.fields().iter().map(|f| col_type_of(f.data_type())).collect();
    let arrow_types = schema.fields().iter().map(|f| format!("{}", f.data_type())).collect();
    let mut rows = vec![];
    for b in batches {
        let cols: Vec<Vec<Value>> = b.columns().iter().map(array_to_values).collect();
        for r in 0..b.num_rows() {
            rows.push(cols.iter().map(|c| c[r].clone()).collect());
        }
    }
    QueryResult { names, types, arrow_types, rows }
}

/// A current-thread tokio runtime (one per worker thread).
pub fn new_runtime() -> tokio::runtime::Runtime {
    tokio::runtime::Builder::new_current_thread().enable_all().build().expect("tokio runtime")
}

thread_local! {
    static RT: tokio::runtime::Runtime = new_runtime();
}

/// Run a future to completion on this thread's private current-thread runtime.
pub fn block_on<F: std::future::Future>(f: F) -> F::Output {
    RT.with(|rt| rt.block_on(f))
}

/// Plan and execute SQL text; `Err` carries the engine's error message
/// (a panic inside the engine is reported as `Err("panic: ..")`).
pub fn run_sql(ctx: &SessionContext, sql: &str) -> Result<QueryResult, String> {
    mc_core::catch(|| {
        block_on(async {
            let df = ctx.sql(sql).await.map_err(|e| format!("plan error: {e}"))?;
            collect_df(df).await
        })
    })
    .unwrap_or_else(Err)
}

/// Execute an already-built logical plan through `execute_logical_plan`.
pub fn run_plan(ctx: &SessionContext, plan: LogicalPlan) -> Result<QueryResult, String> {
    mc_core::catch(|| {
        block_on(async {
            let df = ctx.execute_logical_plan(plan).await.map_err(|e| format!("plan error: {e}"))?;
            collect_df(df).await
        })
    })
    .unwrap_or_else(Err)
}

/// Collect a DataFrame.
pub fn run_df(df: DataFrame) -> Result<QueryResult, String> {
    mc_core::catch(|| block_on(collect_df(df))).unwrap_or_else(Err)
}

async fn collect_df(df: DataFrame) -> Result<QueryResult, String> {
    let schema: Schema = df.schema().as_arrow().clone();
    let batches = df.collect().await.map_err(|e| format!("execution error: {e}"))?;
    // Prefer the schema of the delivered batches when there is one (it is what
    // the engine actually produced); fall back to the logical schema.
    let schema = batches.first().map(|b| b.schema().as_ref().clone()).unwrap_or(schema);
    Ok(batches_to_result(&schema, &batches))
}

/// Parse + plan SQL into a logical plan (no execution).
pub fn plan_sql(ctx: &SessionContext, sql: &str) -> Result<LogicalPlan, String> {
    mc_core::catch(|| block_on(async { ctx.state().create_logical_plan(sql).await.map_err(|e| format!("plan error: {e}")) })).unwrap_or_else(Err)
}
