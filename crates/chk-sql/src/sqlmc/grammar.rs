//! Query grammar G: families F1..F12 (DESIGN §4.1).  Every family is a finite
//! template list with holes filled from small menus; the quick list uses a
//! leading slice of every menu, the thorough list the whole menus.
use super::ast::*;
use super::render::render_query;
use super::value::{ColType, Value};
use serde::{Deserialize, Serialize};

#[derive(Clone, Debug, Default, Serialize, Deserialize)]
pub struct QueryFlags {
    /// top-level ORDER BY present: compare as a sequence (ties may permute)
    pub ordered: bool,
    /// top-level LIMIT or OFFSET present
    pub has_limit: bool,
    /// statically contains a construct that may raise a runtime error
    /// (integer division/modulo by a non-literal, non-aggregate scalar subquery, text->int cast)
    pub may_fail: bool,
    /// when every top-level ORDER BY key is an output column: their indices
    pub order_key_cols: Option<Vec<usize>>,
}

#[derive(Clone, Debug, Serialize, Deserialize)]
pub struct GenQuery {
    /// stable id: `F<family>:<hash of the SQL text>`
    pub id: String,
    pub family: u8,
    pub sql: String,
    pub ast: Query,
    /// operators / constructs used, e.g. `join:left`, `agg:sum`, `win:rank`, `setop:except_all`
    pub tags: Vec<String>,
    pub flags: QueryFlags,
    /// base tables referenced (subset of t, u, w), in first-use order
    pub tables: Vec<String>,
    /// number of AST nodes (the simplest-first ordering key)
    pub size: usize,
}

#[derive(Clone, Copy, PartialEq, Eq, Debug)]
pub enum Tier {
    Quick,
    Thorough,
}

pub const FAMILY_NAMES: [&str; 12] = [
    "F1 filter/project",
    "F2 joins",
    "F3 group by",
    "F4 distinct",
    "F5 order by/limit",
    "F6 set operations",
    "F7 subqueries",
    "F8 case/coalesce/nullif",
    "F9 window functions",
    "F10 recursive CTE",
    "F11 series table functions",
    "F12 compositions",
];

/// First `k` elements in quick tier, everything in thorough.
pub(crate) fn menu<T: Clone>(tier: Tier, all: &[T], k: usize) -> Vec<T> {
    match tier {
        Tier::Quick => all.iter().take(k).cloned().collect(),
        Tier::Thorough => all.to_vec(),
    }
}

// ------------------------------------------------------------------ analysis

/// Tags, tables, size and flags of a query.
pub fn analyse(family: u8, q: &Query) -> GenQuery {
    let sql = render_query(q);
    let mut tags: Vec<String> = vec![];
    let mut tables: Vec<String> = vec![];
    let mut size = 0usize;
    let mut may_fail = false;
    let mut cte_names: Vec<String> = vec![];
    {
        let mut tag = |s: String| {
            if !tags.contains(&s) {
                tags.push(s);
            }
        };
        let mut all_queries: Vec<&Query> = vec![];
        let mut all_exprs: Vec<&Expr> = vec![];
        let mut all_froms: Vec<&From> = vec![];
        visit_query(q, &mut |x| all_queries.push(x), &mut |x| all_exprs.push(x), &mut |x| all_froms.push(x));
        size += all_queries.len() + all_exprs.len() + all_froms.len();
        for x in &all_queries {
            for c in &x.with {
                cte_names.push(c.name.clone());
                tag(if c.recursive { "cte:recursive".into() } else { "cte".into() });
            }
            if !x.order_by.is_empty() {
                tag("orderby".into());
                if x.order_by.iter().any(|o| o.desc) {
                    tag("orderby:desc".into());
                }
                if x.order_by.iter().any(|o| o.nulls_first.is_some()) {
                    tag("orderby:nulls".into());
                }
            }
            if x.limit.is_some() {
                tag("limit".into());
            }
            if x.offset.is_some() {
                tag("offset".into());
            }
            fn set_tags(s: &SetExpr, tag: &mut dyn FnMut(String)) {
                match s {
                    SetExpr::Select(sel) => {
                        match &sel.distinct {
                            Distinct::No => {}
                            Distinct::All => tag("distinct".into()),
                            Distinct::On(_) => tag("distinct_on".into()),
                        }
                        match &sel.group_by {
                            GroupBy::None => {}
                            GroupBy::Exprs(_) => tag("groupby".into()),
                            GroupBy::Rollup(_) => tag("groupby:rollup".into()),
                            GroupBy::Cube(_) => tag("groupby:cube".into()),
                            GroupBy::Sets(_) => tag("groupby:sets".into()),
                        }
                        if sel.having.is_some() {
                            tag("having".into());
                        }
                        if sel.where_.is_some() {
                            tag("filter".into());
                        }
                    }
                    SetExpr::SetOp { op, all, left, right } => {
                        tag(format!("setop:{}{}", format!("{op:?}").to_lowercase(), if *all { "_all" } else { "" }));
                        set_tags(left, tag);
                        set_tags(right, tag);
                    }
                    SetExpr::Query(_) => {}
                    SetExpr::Values(_) => tag("values".into()),
                }
            }
            set_tags(&x.body, &mut tag);
        }
        for f in &all_froms {
            match f {
                From::Table { name, .. } => {
                    if !cte_names.contains(name) && !tables.contains(name) {
                        tables.push(name.clone());
                    }
                }
                From::Subquery { .. } => tag("from_subquery".into()),
                From::Series { inclusive, .. } => tag(if *inclusive { "series:generate_series".into() } else { "series:range".into() }),
                From::Join { kind, cond, .. } => {
                    tag(format!("join:{}", format!("{kind:?}").to_lowercase()));
                    match cond {
                        JoinCond::Using(_) => tag("join:using".into()),
                        JoinCond::On(e) => {
                            let mut has_eq = false;
                            let mut has_other = false;
                            e.walk(&mut |x| {
                                if let Expr::Bin(op, _, _) = x {
                                    if *op == BinOp::Eq || *op == BinOp::IsNotDistinctFrom {
                                        has_eq = true;
                                    } else if op.is_comparison() {
                                        has_other = true;
                                    }
                                }
                            });
                            if has_eq && has_other {
                                tag("join:mixed_cond".into());
                            } else if has_other || !has_eq {
                                tag("join:non_equi".into());
                            }
                        }
                        JoinCond::None => {}
                    }
                }
            }
        }
        for e in &all_exprs {
            match e {
                Expr::Bin(op, _, r) => {
                    if matches!(op, BinOp::Div | BinOp::Mod) {
                        tag("arith:div".into());
                        if !matches!(&**r, Expr::Lit(Value::Int(i)) if *i != 0) && !matches!(&**r, Expr::Lit(Value::Float(_))) {
                            may_fail = true;
                        }
                    }
                    if matches!(op, BinOp::IsDistinctFrom | BinOp::IsNotDistinctFrom) {
                        tag("is_distinct_from".into());
                    }
                    if *op == BinOp::Concat {
                        tag("concat".into());
                    }
                }
                Expr::InList { .. } => tag("in_list".into()),
                Expr::Between { .. } => tag("between".into()),
                Expr::Like { .. } => tag("like".into()),
                Expr::Case { .. } => tag("case".into()),
                Expr::Func(f, _) => tag(format!("fn:{}", f.sql())),
                Expr::Cast(_, t) => {
                    tag("cast".into());
                    if *t == ColType::Int {
                        may_fail = true;
                    }
                }
                Expr::Agg { f, distinct, filter, order_by, .. } => {
                    tag(format!("agg:{}", f.sql()));
                    if *distinct {
                        tag("agg:distinct".into());
                    }
                    if filter.is_some() {
                        tag("agg:filter".into());
                    }
                    if !order_by.is_empty() {
                        tag("agg:order_by".into());
                    }
                }
                Expr::Window { f, frame, partition_by, .. } => {
                    tag(format!("win:{}", f.sql()));
                    if let Some(fr) = frame {
                        tag(format!("frame:{}", format!("{:?}", fr.units).to_lowercase()));
                    }
                    if !partition_by.is_empty() {
                        tag("win:partition".into());
                    }
                }
                Expr::ScalarSubquery(sq) => {
                    tag("subq:scalar".into());
                    let is_global_agg = match &sq.body {
                        SetExpr::Select(s) => matches!(s.group_by, GroupBy::None) && s.items.iter().any(|i| i.expr.contains_agg()),
                        _ => false,
                    };
                    if !is_global_agg && sq.limit != Some(1) {
                        may_fail = true;
                    }
                }
                Expr::Exists { negated, .. } => tag(if *negated { "subq:not_exists".into() } else { "subq:exists".into() }),
                Expr::InSubquery { negated, .. } => tag(if *negated { "subq:not_in".into() } else { "subq:in".into() }),
                Expr::Quantified { all, .. } => tag(if *all { "subq:all".into() } else { "subq:any".into() }),
                _ => {}
            }
        }
    }
    // top-level ORDER BY keys visible in the output?
    let order_key_cols = if q.order_by.is_empty() {
        None
    } else if let SetExpr::Select(sel) = &q.body {
        let mut idx = vec![];
        let mut ok = !sel.items.is_empty();
        for o in &q.order_by {
            let hit = match &o.expr {
                Expr::Lit(Value::Int(k)) if *k >= 1 && (*k as usize) <= sel.items.len() => Some(*k as usize - 1),
                e => sel
                    .items
                    .iter()
                    .position(|i| matches!((e, &i.alias), (Expr::Col { rel: None, name }, Some(a)) if a == name))
                    .or_else(|| sel.items.iter().position(|i| &i.expr == e)),
            };
            match hit {
                Some(k) => idx.push(k),
                None => ok = false,
            }
        }
        if ok { Some(idx) } else { None }
    } else {
        None
    };
    let flags = QueryFlags { ordered: !q.order_by.is_empty(), has_limit: q.limit.is_some() || q.offset.is_some(), may_fail, order_key_cols };
    tags.sort();
    GenQuery { id: format!("F{}:{:08x}", family, mc_core::stable_hash(&sql) as u32), family, sql, ast: q.clone(), tags, flags, tables, size }
}

/// The query list of a tier in the stable simplest-first order
/// (AST size, then family, then SQL text).  Duplicates (same SQL) are removed.
pub fn queries(tier: Tier) -> Vec<GenQuery> {
    let mut out: Vec<GenQuery> = vec![];
    let mut seen = std::collections::HashSet::new();
    // SQLMC_FAMILIES=1,2,3 restricts the list (debugging aid only)
    let only: Option<Vec<u8>> = std::env::var("SQLMC_FAMILIES").ok().map(|s| s.split(',').filter_map(|x| x.trim().parse().ok()).collect());
    for fam in 1..=12u8 {
        if let Some(o) = &only {
            if !o.contains(&fam) {
                continue;
            }
        }
        for q in family(fam, tier) {
            let g = analyse(fam, &q);
            if seen.insert(g.sql.clone()) {
                out.push(g);
            }
        }
    }
    out.sort_by(|a, b| (a.size, a.family, &a.sql).cmp(&(b.size, b.family, &b.sql)));
    out
}

pub fn quick_queries() -> Vec<GenQuery> {
    queries(Tier::Quick)
}
pub fn thorough_queries() -> Vec<GenQuery> {
    queries(Tier::Thorough)
}

/// A small subset of `qs` that still contains every tag (greedy cover,
/// simplest first), padded with the simplest remaining queries up to `at_least`.
pub fn operator_cover(qs: &[GenQuery], at_least: usize) -> Vec<GenQuery> {
    let mut need: std::collections::BTreeSet<&String> = qs.iter().flat_map(|q| q.tags.iter()).collect();
    let mut picked: Vec<usize> = vec![];
    while !need.is_empty() {
        let best = (0..qs.len()).filter(|i| !picked.contains(i)).max_by_key(|i| (qs[*i].tags.iter().filter(|t| need.contains(t)).count(), std::cmp::Reverse(*i)));
        match best {
            Some(i) => {
                for t in &qs[i].tags {
                    need.remove(t);
                }
                picked.push(i);
            }
            None => break,
        }
    }
    for i in 0..qs.len() {
        if picked.len() >= at_least {
            break;
        }
        if !picked.contains(&i) {
            picked.push(i);
        }
    }
    picked.sort();
    picked.into_iter().map(|i| qs[i].clone()).collect()
}

/// One family's queries (unsorted, template order).
pub fn family(n: u8, tier: Tier) -> Vec<Query> {
    match n {
        1 => f1(tier),
        2 => f2(tier),
        3 => f3(tier),
        4 => super::grammar2::f4(tier),
        5 => super::grammar2::f5(tier),
        6 => super::grammar2::f6(tier),
        7 => super::grammar2::f7(tier),
        8 => super::grammar2::f8(tier),
        9 => super::grammar2::f9(tier),
        10 => super::grammar2::f10(tier),
        11 => super::grammar2::f11(tier),
        12 => super::grammar2::f12(tier),
        _ => vec![],
    }
}

// -------------------------------------------------------------------- menus

pub(crate) fn b(op: BinOp, l: Expr, r: Expr) -> Expr {
    bin(op, l, r)
}

/// Predicates over two INT columns `x`, `y` (the C04-style menu), most
/// distinctive first.
pub(crate) fn int_preds(x: &Expr, y: &Expr) -> Vec<Expr> {
    let (x, y) = (|| x.clone(), || y.clone());
    vec![
        eq(x(), int(1)),
        b(BinOp::Lt, x(), y()),
        is_null(x()),
        Expr::InList { e: Box::new(x()), list: vec![int(1), null()], negated: true },
        or(eq(x(), int(1)), eq(y(), int(2))),
        not(eq(x(), y())),
        b(BinOp::IsDistinctFrom, x(), y()),
        and(is_not_null(x()), b(BinOp::Gt, y(), int(1))),
        b(BinOp::NotEq, x(), y()),
        Expr::InList { e: Box::new(x()), list: vec![int(1), null()], negated: false },
        Expr::Between { e: Box::new(x()), lo: Box::new(int(1)), hi: Box::new(y()), negated: false },
        Expr::Is { e: Box::new(eq(x(), y())), test: IsTest::True, negated: true },
        b(BinOp::Gt, b(BinOp::Add, x(), y()), int(2)),
        b(BinOp::GtEq, x(), int(2)),
        b(BinOp::LtEq, x(), y()),
        Expr::Between { e: Box::new(y()), lo: Box::new(x()), hi: Box::new(int(2)), negated: true },
        Expr::Is { e: Box::new(b(BinOp::Gt, x(), y())), test: IsTest::Unknown, negated: false },
        b(BinOp::IsNotDistinctFrom, x(), y()),
        and(eq(x(), int(2)), not(is_null(y()))),
        or(is_null(x()), b(BinOp::Lt, y(), int(2))),
        not(or(eq(x(), int(1)), is_null(y()))),
        eq(b(BinOp::Mul, x(), int(2)), b(BinOp::Add, y(), int(1))),
        Expr::Is { e: Box::new(eq(x(), int(1))), test: IsTest::False, negated: false },
        eq(b(BinOp::Mod, x(), int(2)), int(0)),
        Expr::InList { e: Box::new(x()), list: vec![y(), int(2)], negated: false },
        eq(x(), null()),
        boolean(false),
        and(b(BinOp::Lt, x(), y()), or(eq(x(), int(1)), is_null(y()))),
    ]
}

/// Scalar projections over two INT columns.
pub(crate) fn int_projs(x: &Expr, y: &Expr) -> Vec<Expr> {
    let (x, y) = (|| x.clone(), || y.clone());
    vec![
        b(BinOp::Add, x(), y()),
        eq(x(), y()),
        b(BinOp::Mul, x(), int(2)),
        is_null(x()),
        b(BinOp::Sub, x(), y()),
        b(BinOp::Div, x(), y()),
        Expr::Neg(Box::new(x())),
        b(BinOp::Mod, x(), int(2)),
        b(BinOp::Div, x(), flt(2.0)),
        and(b(BinOp::Gt, x(), int(1)), b(BinOp::Gt, y(), int(1))),
        or(b(BinOp::Gt, x(), int(1)), b(BinOp::Gt, y(), int(1))),
        not(b(BinOp::Lt, x(), y())),
        func(Func::Abs, vec![b(BinOp::Sub, x(), y())]),
        b(BinOp::Div, b(BinOp::Add, x(), y()), int(2)),
        Expr::Cast(Box::new(x()), ColType::Float),
        Expr::Cast(Box::new(x()), ColType::Text),
        b(BinOp::Div, x(), b(BinOp::Sub, y(), int(1))),
        b(BinOp::Lt, x(), null()),
    ]
}

fn a() -> Expr {
    col("a")
}
fn bb() -> Expr {
    col("b")
}
fn c() -> Expr {
    col("c")
}

/// predicates over u(a INT, c TEXT)
pub(crate) fn text_preds() -> Vec<Expr> {
    vec![
        eq(c(), txt("a")),
        is_null(c()),
        Expr::Like { e: Box::new(c()), pattern: "a%".into(), negated: false },
        b(BinOp::Lt, c(), txt("b")),
        and(eq(a(), int(1)), b(BinOp::NotEq, c(), txt("a"))),
        Expr::InList { e: Box::new(c()), list: vec![txt("a"), null()], negated: true },
        Expr::Like { e: Box::new(c()), pattern: "_".into(), negated: true },
        or(is_null(a()), b(BinOp::GtEq, c(), txt("b"))),
        eq(func(Func::Length, vec![c()]), a()),
        eq(b(BinOp::Concat, c(), txt("b")), txt("ab")),
        b(BinOp::IsDistinctFrom, c(), txt("a")),
        eq(func(Func::Upper, vec![c()]), txt("A")),
    ]
}
pub(crate) fn text_projs() -> Vec<Expr> {
    vec![
        b(BinOp::Concat, c(), txt("x")),
        func(Func::Upper, vec![c()]),
        func(Func::Length, vec![c()]),
        func(Func::ConcatFn, vec![c(), txt("-"), c()]),
        eq(c(), txt("a")),
        func(Func::Coalesce, vec![c(), txt("?")]),
        b(BinOp::Concat, c(), Expr::Cast(Box::new(a()), ColType::Text)),
        func(Func::Lower, vec![b(BinOp::Concat, c(), txt("B"))]),
    ]
}
/// predicates over w(x DOUBLE, f BOOLEAN, a INT)
pub(crate) fn w_preds() -> Vec<Expr> {
    let (x, f) = (|| col("x"), || col("f"));
    vec![
        f(),
        b(BinOp::Gt, x(), flt(1.0)),
        not(f()),
        Expr::Is { e: Box::new(f()), test: IsTest::True, negated: true },
        and(f(), eq(a(), int(1))),
        or(f(), b(BinOp::Lt, x(), flt(1.0))),
        b(BinOp::Lt, x(), a()),
        Expr::Is { e: Box::new(f()), test: IsTest::False, negated: false },
        eq(f(), boolean(true)),
        is_null(x()),
        b(BinOp::GtEq, b(BinOp::Add, x(), a()), flt(2.5)),
        Expr::Is { e: Box::new(f()), test: IsTest::Unknown, negated: false },
        Expr::Between { e: Box::new(x()), lo: Box::new(flt(0.5)), hi: Box::new(flt(1.0)), negated: false },
        b(BinOp::IsDistinctFrom, f(), boolean(false)),
    ]
}
pub(crate) fn w_projs() -> Vec<Expr> {
    let (x, f) = (|| col("x"), || col("f"));
    vec![
        b(BinOp::Add, x(), a()),
        not(f()),
        b(BinOp::Mul, x(), flt(2.0)),
        and(f(), b(BinOp::Gt, x(), flt(1.0))),
        b(BinOp::Sub, x(), flt(0.5)),
        or(f(), is_null(x())),
        b(BinOp::Div, x(), flt(2.0)),
        Expr::Neg(Box::new(x())),
        b(BinOp::Lt, x(), a()),
        func(Func::Coalesce, vec![x(), flt(0.0)]),
        Expr::Cast(Box::new(a()), ColType::Float),
        Expr::Cast(Box::new(f()), ColType::Int),
    ]
}

pub(crate) fn sel(items: Vec<Expr>, from: From) -> Select {
    Select::new(items.into_iter().enumerate().map(|(i, e)| match e {
        Expr::Col { .. } => item(e),
        e => item_as(e, &format!("c{}", i + 1)),
    }).collect(), from)
}

// ----------------------------------------------------------------------- F1

fn f1(tier: Tier) -> Vec<Query> {
    let mut out = vec![];
    let star = |t: &str| Select::new(vec![], table(t));
    for t in ["t", "u", "w"] {
        out.push(star(t).query());
    }
    out.push(Select::no_from(vec![item_as(int(1), "one"), item_as(b(BinOp::Add, int(1), int(2)), "three"), item_as(null(), "n")]).query());
    let ip = int_preds(&a(), &bb());
    let ipj = int_projs(&a(), &bb());
    for p in menu(tier, &ip, 10) {
        out.push(sel(vec![a(), bb()], table("t")).filter(p).query());
    }
    for e in menu(tier, &ipj, 8) {
        out.push(sel(vec![a(), e], table("t")).query());
    }
    // projection × filter
    match tier {
        Tier::Quick => {
            for k in 0..6 {
                out.push(sel(vec![ipj[k].clone()], table("t")).filter(ip[(k * 3 + 1) % ip.len()].clone()).query());
            }
        }
        Tier::Thorough => {
            for (i, e) in ipj.iter().enumerate() {
                for (j, p) in ip.iter().enumerate() {
                    if (i + j) % 3 == 0 {
                        out.push(sel(vec![e.clone()], table("t")).filter(p.clone()).query());
                    }
                }
            }
        }
    }
    for p in menu(tier, &text_preds(), 5) {
        out.push(sel(vec![a(), c()], table("u")).filter(p).query());
    }
    for e in menu(tier, &text_projs(), 4) {
        out.push(sel(vec![a(), e], table("u")).query());
    }
    for p in menu(tier, &w_preds(), 6) {
        out.push(sel(vec![col("x"), col("f"), a()], table("w")).filter(p).query());
    }
    for e in menu(tier, &w_projs(), 5) {
        out.push(sel(vec![e, col("f")], table("w")).query());
    }
    if tier == Tier::Thorough {
        // conjunction / disjunction / negation of two menu predicates (depth 3)
        for i in 0..ip.len() {
            let j = (i * 5 + 3) % ip.len();
            out.push(sel(vec![a(), bb()], table("t")).filter(and(ip[i].clone(), ip[j].clone())).query());
            out.push(sel(vec![a(), bb()], table("t")).filter(or(ip[i].clone(), not(ip[j].clone()))).query());
            out.push(sel(vec![Expr::Is { e: Box::new(ip[i].clone()), test: IsTest::True, negated: false }, ip[j].clone()], table("t")).query());
        }
        for (i, p) in w_preds().iter().enumerate() {
            for (j, e) in w_projs().iter().enumerate() {
                if (i + 2 * j) % 4 == 0 {
                    out.push(sel(vec![e.clone()], table("w")).filter(p.clone()).query());
                }
            }
        }
    }
    out
}

// ----------------------------------------------------------------------- F2

pub(crate) fn join_conds() -> Vec<Expr> {
    let (ta, tb, ua, uc) = (|| qcol("t", "a"), || qcol("t", "b"), || qcol("u", "a"), || qcol("u", "c"));
    vec![
        eq(ta(), ua()),
        and(eq(ta(), ua()), b(BinOp::Gt, tb(), int(1))),
        b(BinOp::Lt, ta(), ua()),
        and(eq(ta(), ua()), eq(uc(), txt("a"))),
        and(eq(ta(), ua()), b(BinOp::Lt, tb(), ua())),
        or(eq(ta(), ua()), eq(tb(), ua())),
        b(BinOp::IsNotDistinctFrom, ta(), ua()),
        and(eq(ta(), ua()), eq(tb(), ua())),
        eq(b(BinOp::Add, ta(), int(1)), ua()),
        b(BinOp::NotEq, ta(), ua()),
        and(eq(ta(), ua()), is_null(uc())),
        boolean(true),
        and(eq(ta(), ua()), or(b(BinOp::Gt, tb(), int(1)), is_null(uc()))),
        is_null(eq(ta(), ua())),
    ]
}

fn f2(tier: Tier) -> Vec<Query> {
    let mut out = vec![];
    let (ta, tb, ua, uc) = (|| qcol("t", "a"), || qcol("t", "b"), || qcol("u", "a"), || qcol("u", "c"));
    let items = || vec![item_as(ta(), "ta"), item_as(tb(), "tb"), item_as(ua(), "ua"), item_as(uc(), "uc")];
    let kinds = [JoinKind::Inner, JoinKind::Left, JoinKind::Right, JoinKind::Full];
    let conds = join_conds();
    let wheres: Vec<Option<Expr>> = vec![
        None,
        Some(is_null(uc())),
        Some(eq(tb(), int(1))),
        Some(is_not_null(ua())),
        Some(or(is_null(ta()), eq(uc(), txt("a")))),
        Some(b(BinOp::Lt, tb(), ua())),
    ];
    for k in kinds {
        for (ci, cnd) in menu(tier, &conds, 4).into_iter().enumerate() {
            for (wi, w) in wheres.iter().enumerate() {
                let keep = match tier {
                    Tier::Quick => wi == 0 || (ci == 0 && wi <= 2),
                    Tier::Thorough => true,
                };
                if !keep {
                    continue;
                }
                let mut s = Select::new(items(), join(k, table("t"), table("u"), cnd.clone()));
                s.where_ = w.clone();
                out.push(s.query());
            }
        }
    }
    // cross / comma-style joins
    out.push(Select::new(items(), cross(table("t"), table("u"))).query());
    out.push(Select::new(items(), cross(table("t"), table("u"))).filter(eq(ta(), ua())).query());
    out.push(Select::new(items(), cross(table("t"), table("u"))).filter(and(eq(ta(), ua()), b(BinOp::Gt, tb(), int(1)))).query());
    // semi / anti
    let sub_u = |p: Expr| Select::new(vec![item(int(1))], table("u")).filter(p).query();
    let sub_ua = |p: Option<Expr>| {
        let mut s = Select::new(vec![item(ua())], table("u"));
        s.where_ = p;
        s.query()
    };
    let semi_conds = menu(tier, &conds, 3);
    for cnd in &semi_conds {
        for neg in [false, true] {
            out.push(sel(vec![ta(), tb()], table("t")).filter(Expr::Exists { q: Box::new(sub_u(cnd.clone())), negated: neg }).query());
        }
    }
    for neg in [false, true] {
        out.push(sel(vec![ta(), tb()], table("t")).filter(Expr::InSubquery { e: Box::new(ta()), q: Box::new(sub_ua(None)), negated: neg }).query());
        out.push(sel(vec![ta(), tb()], table("t")).filter(Expr::InSubquery { e: Box::new(tb()), q: Box::new(sub_ua(Some(is_not_null(uc())))), negated: neg }).query());
    }
    for k in [JoinKind::LeftSemi, JoinKind::LeftAnti, JoinKind::RightSemi, JoinKind::RightAnti] {
        let its = if matches!(k, JoinKind::LeftSemi | JoinKind::LeftAnti) { vec![item(ta()), item(tb())] } else { vec![item(ua()), item(uc())] };
        for cnd in menu(tier, &conds, 2) {
            out.push(Select::new(its.clone(), join(k, table("t"), table("u"), cnd)).query());
        }
    }
    // self join
    let (t1a, t1b, t2a, t2b) = (|| qcol("t1", "a"), || qcol("t1", "b"), || qcol("t2", "a"), || qcol("t2", "b"));
    for k in menu(tier, &kinds, 2) {
        out.push(
            Select::new(
                vec![item_as(t1a(), "a1"), item_as(t1b(), "b1"), item_as(t2a(), "a2"), item_as(t2b(), "b2")],
                join(k, table_as("t", "t1"), table_as("t", "t2"), eq(t1b(), t2a())),
            )
            .query(),
        );
    }
    // USING
    for k in kinds {
        out.push(
            Select::new(
                vec![item(col("a")), item(tb()), item(uc())],
                From::Join { kind: k, left: Box::new(table("t")), right: Box::new(table("u")), cond: JoinCond::Using(vec!["a".into()]) },
            )
            .query(),
        );
    }
    // three tables
    let (wa, wx, wf) = (|| qcol("w", "a"), || qcol("w", "x"), || qcol("w", "f"));
    let items3 = || vec![item_as(ta(), "ta"), item_as(tb(), "tb"), item_as(uc(), "uc"), item_as(wx(), "wx"), item_as(wf(), "wf")];
    let k3: Vec<(JoinKind, JoinKind)> = vec![
        (JoinKind::Inner, JoinKind::Inner),
        (JoinKind::Left, JoinKind::Left),
        (JoinKind::Left, JoinKind::Inner),
        (JoinKind::Inner, JoinKind::Left),
        (JoinKind::Full, JoinKind::Left),
        (JoinKind::Right, JoinKind::Full),
        (JoinKind::Left, JoinKind::Right),
        (JoinKind::Full, JoinKind::Full),
    ];
    for (k1, k2) in menu(tier, &k3, 4) {
        let j1 = join(k1, table("t"), table("u"), eq(ta(), ua()));
        out.push(Select::new(items3(), join(k2, j1.clone(), table("w"), eq(tb(), wa()))).query());
        if tier == Tier::Thorough {
            out.push(Select::new(items3(), join(k2, j1.clone(), table("w"), and(eq(ua(), wa()), wf()))).query());
            out.push(Select::new(items3(), join(k2, j1, table("w"), eq(ta(), wa()))).filter(or(is_null(uc()), b(BinOp::Gt, wx(), flt(0.5)))).query());
        }
    }
    // right-nested join
    out.push(
        Select::new(items3(), join(JoinKind::Left, table("t"), join(JoinKind::Inner, table("u"), table("w"), eq(ua(), wa())), eq(ta(), ua()))).query(),
    );
    if tier == Tier::Thorough {
        out.push(
            Select::new(items3(), join(JoinKind::Full, table("t"), join(JoinKind::Left, table("u"), table("w"), eq(ua(), wa())), eq(tb(), ua()))).query(),
        );
        // join against w with float/bool conditions
        for k in kinds {
            out.push(Select::new(vec![item(ta()), item(wx()), item(wf())], join(k, table("t"), table("w"), and(eq(ta(), wa()), wf()))).query());
            out.push(Select::new(vec![item(ta()), item(wx()), item(wf())], join(k, table("t"), table("w"), b(BinOp::Lt, ta(), wx()))).query());
        }
    }
    out
}

// ----------------------------------------------------------------------- F3

pub(crate) fn aggs_over(e: &Expr) -> Vec<Expr> {
    let e = || e.clone();
    vec![
        count_star(),
        agg(AggFn::Sum, e()),
        agg(AggFn::Count, e()),
        agg(AggFn::Min, e()),
        agg(AggFn::Avg, e()),
        agg_distinct(AggFn::Count, e()),
        agg(AggFn::Max, e()),
        agg_distinct(AggFn::Sum, e()),
        Expr::Agg { f: AggFn::Sum, arg: Some(Box::new(e())), distinct: false, filter: Some(Box::new(b(BinOp::Gt, e(), int(1)))), order_by: vec![] },
        Expr::Agg { f: AggFn::ArrayAgg, arg: Some(Box::new(e())), distinct: false, filter: None, order_by: vec![OrderItem::asc(e())] },
        Expr::Agg { f: AggFn::Count, arg: None, distinct: false, filter: Some(Box::new(is_null(e()))), order_by: vec![] },
        agg_distinct(AggFn::Avg, e()),
        Expr::Agg { f: AggFn::ArrayAgg, arg: Some(Box::new(e())), distinct: false, filter: None, order_by: vec![OrderItem { expr: e(), desc: true, nulls_first: Some(false) }] },
        agg(AggFn::Sum, b(BinOp::Mul, e(), int(2))),
    ]
}

fn f3(tier: Tier) -> Vec<Query> {
    let mut out = vec![];
    let ags = aggs_over(&bb());
    // global aggregates
    for g in menu(tier, &ags, 6) {
        out.push(Select::new(vec![item_as(g, "g")], table("t")).query());
    }
    out.push(Select::new(vec![item_as(count_star(), "n"), item_as(agg(AggFn::Sum, a()), "s"), item_as(agg(AggFn::Min, bb()), "m")], table("t")).filter(b(BinOp::Gt, a(), int(1))).query());
    // group by one column
    for g in menu(tier, &ags, 8) {
        out.push(Select::new(vec![item(a()), item_as(g, "g")], table("t")).group(vec![a()]).query());
    }
    // HAVING
    let havings = vec![
        b(BinOp::Gt, count_star(), int(1)),
        b(BinOp::Gt, agg(AggFn::Sum, bb()), int(2)),
        is_null(agg(AggFn::Min, bb())),
        b(BinOp::Gt, a(), int(1)),
        and(is_not_null(a()), eq(agg(AggFn::Max, bb()), int(2))),
        b(BinOp::Lt, agg(AggFn::Avg, bb()), flt(2.0)),
    ];
    for h in menu(tier, &havings, 4) {
        out.push(Select::new(vec![item(a()), item_as(count_star(), "n"), item_as(agg(AggFn::Sum, bb()), "s")], table("t")).group(vec![a()]).having(h).query());
    }
    // HAVING without GROUP BY, WHERE + GROUP BY
    out.push(Select::new(vec![item_as(agg(AggFn::Sum, bb()), "s")], table("t")).having(b(BinOp::Gt, count_star(), int(1))).query());
    out.push(Select::new(vec![item(a()), item_as(count_star(), "n")], table("t")).filter(is_not_null(bb())).group(vec![a()]).query());
    // group by expression / two columns / key not projected
    let key_exprs = vec![
        b(BinOp::Add, a(), bb()),
        b(BinOp::Mod, a(), int(2)),
        is_null(a()),
        Expr::Case { operand: None, whens: vec![(b(BinOp::Gt, a(), int(1)), int(1))], else_: Some(Box::new(int(0))) },
        func(Func::Coalesce, vec![a(), bb()]),
        b(BinOp::Lt, a(), bb()),
    ];
    for k in menu(tier, &key_exprs, 3) {
        out.push(Select::new(vec![item_as(k.clone(), "k"), item_as(count_star(), "n"), item_as(agg(AggFn::Sum, bb()), "s")], table("t")).group(vec![k]).query());
    }
    out.push(Select::new(vec![item(a()), item(bb()), item_as(count_star(), "n")], table("t")).group(vec![a(), bb()]).query());
    out.push(Select::new(vec![item_as(agg(AggFn::Max, bb()), "m")], table("t")).group(vec![a()]).query());
    out.push(Select::new(vec![item_as(b(BinOp::Add, a(), int(1)), "a1"), item_as(b(BinOp::Add, agg(AggFn::Sum, bb()), count_star()), "g")], table("t")).group(vec![a()]).query());
    // grouping sets
    let gsets = vec![
        GroupBy::Rollup(vec![a(), bb()]),
        GroupBy::Cube(vec![a(), bb()]),
        GroupBy::Sets(vec![vec![a()], vec![bb()]]),
        GroupBy::Rollup(vec![a()]),
        GroupBy::Sets(vec![vec![a(), bb()], vec![a()], vec![]]),
        GroupBy::Sets(vec![vec![a()], vec![a()]]),
    ];
    for g in menu(tier, &gsets, 3) {
        // only grouping keys may be projected
        let only_a = matches!(&g, GroupBy::Rollup(k) if k.len() == 1) || matches!(&g, GroupBy::Sets(k) if k.iter().all(|x| x.len() == 1 && x[0] == a()));
        let mut items = vec![item(a())];
        if !only_a {
            items.push(item(bb()));
        }
        items.push(item_as(count_star(), "n"));
        items.push(item_as(agg(AggFn::Sum, bb()), "s"));
        out.push(Select::new(items, table("t")).group_by(g).query());
    }
    // text / bool / float aggregates
    out.push(Select::new(vec![item(a()), item_as(agg(AggFn::Min, c()), "mn"), item_as(agg(AggFn::Max, c()), "mx"), item_as(agg_distinct(AggFn::Count, c()), "d")], table("u")).group(vec![a()]).query());
    out.push(
        Select::new(
            vec![item(a()), item_as(Expr::Agg { f: AggFn::StringAgg, arg: Some(Box::new(c())), distinct: false, filter: None, order_by: vec![OrderItem::asc(c())] }, "s")],
            table("u"),
        )
        .group(vec![a()])
        .query(),
    );
    out.push(Select::new(vec![item(c()), item_as(agg(AggFn::Sum, a()), "s"), item_as(count_star(), "n")], table("u")).group(vec![c()]).query());
    out.push(Select::new(vec![item(a()), item_as(agg(AggFn::BoolAnd, col("f")), "ba"), item_as(agg(AggFn::BoolOr, col("f")), "bo")], table("w")).group(vec![a()]).query());
    out.push(Select::new(vec![item(col("f")), item_as(agg(AggFn::Sum, col("x")), "s"), item_as(agg(AggFn::Avg, col("x")), "av"), item_as(agg(AggFn::Min, col("x")), "mn")], table("w")).group(vec![col("f")]).query());
    out.push(Select::new(vec![item_as(agg(AggFn::Sum, col("x")), "s"), item_as(agg(AggFn::Count, col("f")), "n"), item_as(agg(AggFn::Max, col("x")), "mx")], table("w")).query());
    // first_value / last_value with ORDER BY
    out.push(
        Select::new(
            vec![
                item(a()),
                item_as(Expr::Agg { f: AggFn::FirstValue, arg: Some(Box::new(bb())), distinct: false, filter: None, order_by: vec![OrderItem::asc(bb())] }, "fv"),
                item_as(Expr::Agg { f: AggFn::LastValue, arg: Some(Box::new(bb())), distinct: false, filter: None, order_by: vec![OrderItem::asc(bb())] }, "lv"),
            ],
            table("t"),
        )
        .group(vec![a()])
        .query(),
    );
    // aggregate over a join
    let (ta, tb, ua, uc) = (|| qcol("t", "a"), || qcol("t", "b"), || qcol("u", "a"), || qcol("u", "c"));
    for k in menu(tier, &[JoinKind::Inner, JoinKind::Left, JoinKind::Full, JoinKind::Right], 2) {
        out.push(
            Select::new(vec![item(ta()), item_as(count_star(), "n"), item_as(agg(AggFn::Count, uc()), "nc"), item_as(agg(AggFn::Sum, tb()), "s")], join(k, table("t"), table("u"), eq(ta(), ua())))
                .group(vec![ta()])
                .query(),
        );
    }
    if tier == Tier::Thorough {
        for g in &ags {
            for k in &key_exprs {
                out.push(Select::new(vec![item_as(k.clone(), "k"), item_as(g.clone(), "g")], table("t")).group(vec![k.clone()]).query());
            }
            for h in &havings {
                out.push(Select::new(vec![item(a()), item_as(g.clone(), "g")], table("t")).group(vec![a()]).having(h.clone()).query());
            }
            for p in int_preds(&a(), &bb()).iter().take(8) {
                out.push(Select::new(vec![item(bb()), item_as(g.clone(), "g")], table("t")).filter(p.clone()).group(vec![bb()]).query());
            }
        }
        for g in gsets.iter().filter(|g| !matches!(g, GroupBy::Rollup(k) if k.len() == 1) && !matches!(g, GroupBy::Sets(k) if k.iter().all(|x| x.len() == 1 && x[0] == a()))) {
            for ag in ags.iter().take(6) {
                out.push(Select::new(vec![item(a()), item(bb()), item_as(ag.clone(), "g")], table("t")).group_by(g.clone()).query());
            }
        }
        for ag in aggs_over(&col("x")).iter().take(8) {
            out.push(Select::new(vec![item(col("f")), item_as(ag.clone(), "g")], table("w")).group(vec![col("f")]).query());
        }
    }
    out
}
