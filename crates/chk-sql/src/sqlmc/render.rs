//! AST -> SQL text (DataFusion's default dialect).  Everything is
//! parenthesised defensively, so precedence never matters.
use super::ast::*;
use super::value::Value;

pub fn render_query(q: &Query) -> String {
    let mut s = String::new();
    if !q.with.is_empty() {
        s.push_str("WITH ");
        if q.with.iter().any(|c| c.recursive) {
            s.push_str("RECURSIVE ");
        }
        let parts: Vec<String> = q
            .with
            .iter()
            .map(|c| {
                let cols = if c.columns.is_empty() { String::new() } else { format!("({})", c.columns.join(", ")) };
                format!("{}{} AS ({})", c.name, cols, render_query(&c.query))
            })
            .collect();
        s.push_str(&parts.join(", "));
        s.push(' ');
    }
    s.push_str(&render_set(&q.body, true));
    if !q.order_by.is_empty() {
        s.push_str(" ORDER BY ");
        s.push_str(&render_order(&q.order_by));
    }
    if let Some(l) = q.limit {
        s.push_str(&format!(" LIMIT {l}"));
    }
    if let Some(o) = q.offset {
        s.push_str(&format!(" OFFSET {o}"));
    }
    s
}

fn render_set(s: &SetExpr, top: bool) -> String {
    match s {
        SetExpr::Select(sel) => render_select(sel),
        SetExpr::SetOp { op, all, left, right } => {
            let name = match op {
                SetOp::Union => "UNION",
                SetOp::Intersect => "INTERSECT",
                SetOp::Except => "EXCEPT",
            };
            let side = |x: &SetExpr| match x {
                SetExpr::Select(_) | SetExpr::Values(_) => render_set(x, false),
                _ => format!("({})", render_set(x, true)),
            };
            let _ = top;
            format!("{} {}{} {}", side(left), name, if *all { " ALL" } else { "" }, side(right))
        }
        SetExpr::Query(q) => {
            if top {
                format!("({})", render_query(q))
            } else {
                format!("({})", render_query(q))
            }
        }
        SetExpr::Values(rows) => {
            let rs: Vec<String> = rows.iter().map(|r| format!("({})", r.iter().map(render_expr).collect::<Vec<_>>().join(", "))).collect();
            format!("VALUES {}", rs.join(", "))
        }
    }
}

pub fn render_order(o: &[OrderItem]) -> String {
    o.iter()
        .map(|i| {
            let mut s = render_expr(&i.expr);
            s.push_str(if i.desc { " DESC" } else { " ASC" });
            match i.nulls_first {
                Some(true) => s.push_str(" NULLS FIRST"),
                Some(false) => s.push_str(" NULLS LAST"),
                None => {}
            }
            s
        })
        .collect::<Vec<_>>()
        .join(", ")
}

pub fn render_select(sel: &Select) -> String {
    let mut s = String::from("SELECT ");
    match &sel.distinct {
        Distinct::No => {}
        Distinct::All => s.push_str("DISTINCT "),
        Distinct::On(es) => {
            s.push_str(&format!("DISTINCT ON ({}) ", es.iter().map(render_expr).collect::<Vec<_>>().join(", ")));
        }
    }
    if sel.items.is_empty() {
        s.push('*');
    } else {
        let items: Vec<String> = sel
            .items
            .iter()
            .map(|i| match &i.alias {
                Some(a) => format!("{} AS {}", render_expr(&i.expr), a),
                None => render_expr(&i.expr),
            })
            .collect();
        s.push_str(&items.join(", "));
    }
    if let Some(f) = &sel.from {
        s.push_str(" FROM ");
        s.push_str(&render_from(f, true));
    }
    if let Some(w) = &sel.where_ {
        s.push_str(" WHERE ");
        s.push_str(&render_expr(w));
    }
    let list = |es: &[Expr]| es.iter().map(render_expr).collect::<Vec<_>>().join(", ");
    match &sel.group_by {
        GroupBy::None => {}
        GroupBy::Exprs(es) => s.push_str(&format!(" GROUP BY {}", list(es))),
        GroupBy::Rollup(es) => s.push_str(&format!(" GROUP BY ROLLUP ({})", list(es))),
        GroupBy::Cube(es) => s.push_str(&format!(" GROUP BY CUBE ({})", list(es))),
        GroupBy::Sets(sets) => {
            let ss: Vec<String> = sets.iter().map(|x| format!("({})", list(x))).collect();
            s.push_str(&format!(" GROUP BY GROUPING SETS ({})", ss.join(", ")));
        }
    }
    if let Some(h) = &sel.having {
        s.push_str(" HAVING ");
        s.push_str(&render_expr(h));
    }
    s
}

pub fn render_from(f: &From, top: bool) -> String {
    match f {
        From::Table { name, alias } => match alias {
            Some(a) => format!("{name} AS {a}"),
            None => name.clone(),
        },
        From::Subquery { q, alias } => format!("({}) AS {}", render_query(q), alias),
        From::Series { inclusive, args, alias } => {
            let fname = if *inclusive { "generate_series" } else { "range" };
            format!("{}({}) AS {}", fname, args.iter().map(|a| a.to_string()).collect::<Vec<_>>().join(", "), alias)
        }
        From::Join { kind, left, right, cond } => {
            let l = render_from(left, false);
            let r = match &**right {
                From::Join { .. } => format!("({})", render_from(right, true)),
                _ => render_from(right, false),
            };
            let c = match cond {
                JoinCond::None => String::new(),
                JoinCond::On(e) => format!(" ON {}", render_expr(e)),
                JoinCond::Using(cols) => format!(" USING ({})", cols.join(", ")),
            };
            let _ = top;
            format!("{} {} {}{}", l, kind.sql(), r, c)
        }
    }
}

pub fn render_expr(e: &Expr) -> String {
    match e {
        Expr::Col { rel, name } => match rel {
            Some(r) => format!("{r}.{name}"),
            None => name.clone(),
        },
        Expr::Lit(v) => match v {
            Value::Int(i) if *i < 0 => format!("({i})"),
            Value::Float(f) if *f < 0.0 => format!("({})", v.sql_literal()),
            _ => v.sql_literal(),
        },
        Expr::Bin(op, l, r) => format!("({} {} {})", render_expr(l), op.sql(), render_expr(r)),
        Expr::Not(x) => format!("(NOT {})", render_expr(x)),
        Expr::Neg(x) => format!("(- {})", render_expr(x)),
        Expr::Is { e, test, negated } => {
            let t = match test {
                IsTest::Null => "NULL",
                IsTest::True => "TRUE",
                IsTest::False => "FALSE",
                IsTest::Unknown => "UNKNOWN",
            };
            format!("({} IS {}{})", render_expr(e), if *negated { "NOT " } else { "" }, t)
        }
        Expr::InList { e, list, negated } => format!(
            "({} {}IN ({}))",
            render_expr(e),
            if *negated { "NOT " } else { "" },
            list.iter().map(render_expr).collect::<Vec<_>>().join(", ")
        ),
        Expr::Between { e, lo, hi, negated } => {
            format!("({} {}BETWEEN {} AND {})", render_expr(e), if *negated { "NOT " } else { "" }, render_expr(lo), render_expr(hi))
        }
        Expr::Like { e, pattern, negated } => {
            format!("({} {}LIKE '{}')", render_expr(e), if *negated { "NOT " } else { "" }, pattern.replace('\'', "''"))
        }
        Expr::Case { operand, whens, else_ } => {
            let mut s = String::from("CASE");
            if let Some(o) = operand {
                s.push(' ');
                s.push_str(&render_expr(o));
            }
            for (w, t) in whens {
                s.push_str(&format!(" WHEN {} THEN {}", render_expr(w), render_expr(t)));
            }
            if let Some(x) = else_ {
                s.push_str(&format!(" ELSE {}", render_expr(x)));
            }
            s.push_str(" END");
            s
        }
        Expr::Func(f, args) => format!("{}({})", f.sql(), args.iter().map(render_expr).collect::<Vec<_>>().join(", ")),
        Expr::Cast(x, t) => format!("CAST({} AS {})", render_expr(x), t.sql_name()),
        Expr::Agg { f, arg, distinct, filter, order_by } => {
            let mut s = format!("{}(", f.sql());
            if *distinct {
                s.push_str("DISTINCT ");
            }
            match arg {
                Some(a) => s.push_str(&render_expr(a)),
                None => s.push('*'),
            }
            if *f == AggFn::StringAgg {
                s.push_str(", ','");
            }
            if !order_by.is_empty() {
                s.push_str(" ORDER BY ");
                s.push_str(&render_order(order_by));
            }
            s.push(')');
            if let Some(p) = filter {
                s.push_str(&format!(" FILTER (WHERE {})", render_expr(p)));
            }
            s
        }
        Expr::Window { f, args, partition_by, order_by, frame } => {
            let mut s = format!("{}(", f.sql());
            if args.is_empty() && matches!(f, WinFn::Agg(AggFn::Count)) {
                s.push('*');
            } else {
                s.push_str(&args.iter().map(render_expr).collect::<Vec<_>>().join(", "));
            }
            s.push_str(") OVER (");
            let mut parts = vec![];
            if !partition_by.is_empty() {
                parts.push(format!("PARTITION BY {}", partition_by.iter().map(render_expr).collect::<Vec<_>>().join(", ")));
            }
            if !order_by.is_empty() {
                parts.push(format!("ORDER BY {}", render_order(order_by)));
            }
            if let Some(fr) = frame {
                let u = match fr.units {
                    FrameUnits::Rows => "ROWS",
                    FrameUnits::Range => "RANGE",
                    FrameUnits::Groups => "GROUPS",
                };
                let b = |b: &Bound| match b {
                    Bound::UnboundedPreceding => "UNBOUNDED PRECEDING".to_string(),
                    Bound::Preceding(n) => format!("{n} PRECEDING"),
                    Bound::CurrentRow => "CURRENT ROW".to_string(),
                    Bound::Following(n) => format!("{n} FOLLOWING"),
                    Bound::UnboundedFollowing => "UNBOUNDED FOLLOWING".to_string(),
                };
                parts.push(format!("{} BETWEEN {} AND {}", u, b(&fr.start), b(&fr.end)));
            }
            s.push_str(&parts.join(" "));
            s.push(')');
            s
        }
        Expr::ScalarSubquery(q) => format!("({})", render_query(q)),
        Expr::Exists { q, negated } => format!("({}EXISTS ({}))", if *negated { "NOT " } else { "" }, render_query(q)),
        Expr::InSubquery { e, q, negated } => {
            format!("({} {}IN ({}))", render_expr(e), if *negated { "NOT " } else { "" }, render_query(q))
        }
        Expr::Quantified { e, op, all, q } => {
            format!("({} {} {} ({}))", render_expr(e), op.sql(), if *all { "ALL" } else { "ANY" }, render_query(q))
        }
    }
}
