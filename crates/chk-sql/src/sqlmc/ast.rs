//! Query AST of the `sqlmc` fragment.  One tree is rendered to SQL text
//! (`render.rs`), interpreted by the reference (`reference.rs`), and can be
//! walked by other checks (placeholders, DataFrame rendering, …).
use super::value::{ColType, Value};
use serde::{Deserialize, Serialize};

#[derive(Clone, Copy, Debug, PartialEq, Eq, Hash, Serialize, Deserialize)]
pub enum BinOp {
    Add,
    Sub,
    Mul,
    Div,
    Mod,
    Eq,
    NotEq,
    Lt,
    LtEq,
    Gt,
    GtEq,
    And,
    Or,
    IsDistinctFrom,
    IsNotDistinctFrom,
    Concat,
}

impl BinOp {
    pub fn sql(&self) -> &'static str {
        match self {
            BinOp::Add => "+",
            BinOp::Sub => "-",
            BinOp::Mul => "*",
            BinOp::Div => "/",
            BinOp::Mod => "%",
            BinOp::Eq => "=",
            BinOp::NotEq => "<>",
            BinOp::Lt => "<",
            BinOp::LtEq => "<=",
            BinOp::Gt => ">",
            BinOp::GtEq => ">=",
            BinOp::And => "AND",
            BinOp::Or => "OR",
            BinOp::IsDistinctFrom => "IS DISTINCT FROM",
            BinOp::IsNotDistinctFrom => "IS NOT DISTINCT FROM",
            BinOp::Concat => "||",
        }
    }
    pub fn is_comparison(&self) -> bool {
        matches!(self, BinOp::Eq | BinOp::NotEq | BinOp::Lt | BinOp::LtEq | BinOp::Gt | BinOp::GtEq)
    }
}

/// `e IS [NOT] <test>`
#[derive(Clone, Copy, Debug, PartialEq, Eq, Hash, Serialize, Deserialize)]
pub enum IsTest {
    Null,
    True,
    False,
    Unknown,
}

#[derive(Clone, Copy, Debug, PartialEq, Eq, Hash, Serialize, Deserialize)]
pub enum Func {
    Coalesce,
    NullIf,
    Abs,
    Upper,
    Lower,
    /// `concat(a, b, ..)`: NULL arguments are skipped.
    ConcatFn,
    /// `character_length(text)`
    Length,
    /// `greatest(..)` / `least(..)`: NULLs are ignored unless all are NULL.
    Greatest,
    Least,
}

impl Func {
    pub fn sql(&self) -> &'static str {
        match self {
            Func::Coalesce => "coalesce",
            Func::NullIf => "nullif",
            Func::Abs => "abs",
            Func::Upper => "upper",
            Func::Lower => "lower",
            Func::ConcatFn => "concat",
            Func::Length => "character_length",
            Func::Greatest => "greatest",
            Func::Least => "least",
        }
    }
}

#[derive(Clone, Copy, Debug, PartialEq, Eq, Hash, Serialize, Deserialize)]
pub enum AggFn {
    /// `count(*)` when the argument is absent.
    Count,
    Sum,
    Min,
    Max,
    Avg,
    BoolAnd,
    BoolOr,
    ArrayAgg,
    /// `string_agg(arg, ',')`
    StringAgg,
    /// `first_value(arg ORDER BY ..)` used as an aggregate
    FirstValue,
    LastValue,
}

impl AggFn {
    pub fn sql(&self) -> &'static str {
        match self {
            AggFn::Count => "count",
            AggFn::Sum => "sum",
            AggFn::Min => "min",
            AggFn::Max => "max",
            AggFn::Avg => "avg",
            AggFn::BoolAnd => "bool_and",
            AggFn::BoolOr => "bool_or",
            AggFn::ArrayAgg => "array_agg",
            AggFn::StringAgg => "string_agg",
            AggFn::FirstValue => "first_value",
            AggFn::LastValue => "last_value",
        }
    }
}

#[derive(Clone, Copy, Debug, PartialEq, Eq, Hash, Serialize, Deserialize)]
pub enum WinFn {
    RowNumber,
    Rank,
    DenseRank,
    PercentRank,
    CumeDist,
    /// `ntile(n)`: args[0] is the literal n
    Ntile,
    /// `lag(e [, offset [, default]])`
    Lag,
    Lead,
    FirstValue,
    LastValue,
    /// `nth_value(e, n)`
    NthValue,
    /// an aggregate function used over a window frame
    Agg(AggFn),
}

impl WinFn {
    pub fn sql(&self) -> &'static str {
        match self {
            WinFn::RowNumber => "row_number",
            WinFn::Rank => "rank",
            WinFn::DenseRank => "dense_rank",
            WinFn::PercentRank => "percent_rank",
            WinFn::CumeDist => "cume_dist",
            WinFn::Ntile => "ntile",
            WinFn::Lag => "lag",
            WinFn::Lead => "lead",
            WinFn::FirstValue => "first_value",
            WinFn::LastValue => "last_value",
            WinFn::NthValue => "nth_value",
            WinFn::Agg(a) => a.sql(),
        }
    }
}

#[derive(Clone, Copy, Debug, PartialEq, Eq, Hash, Serialize, Deserialize)]
pub enum FrameUnits {
    Rows,
    Range,
    Groups,
}

#[derive(Clone, Copy, Debug, PartialEq, Eq, Hash, Serialize, Deserialize)]
pub enum Bound {
    UnboundedPreceding,
    Preceding(i64),
    CurrentRow,
    Following(i64),
    UnboundedFollowing,
}

#[derive(Clone, Copy, Debug, PartialEq, Eq, Hash, Serialize, Deserialize)]
pub struct Frame {
    pub units: FrameUnits,
    pub start: Bound,
    pub end: Bound,
}

#[derive(Clone, Debug, PartialEq, Eq, Hash, Serialize, Deserialize)]
pub struct OrderItem {
    pub expr: Expr,
    pub desc: bool,
    /// `None` = engine default (PostgreSQL: NULLS LAST for ASC, NULLS FIRST for DESC)
    pub nulls_first: Option<bool>,
}

impl OrderItem {
    pub fn asc(e: Expr) -> Self {
        OrderItem { expr: e, desc: false, nulls_first: None }
    }
    pub fn desc(e: Expr) -> Self {
        OrderItem { expr: e, desc: true, nulls_first: None }
    }
    pub fn nulls_first_effective(&self) -> bool {
        self.nulls_first.unwrap_or(self.desc)
    }
}

#[derive(Clone, Debug, PartialEq, Eq, Hash, Serialize, Deserialize)]
pub enum Expr {
    /// Column reference, optionally qualified by a relation alias.
    Col { rel: Option<String>, name: String },
    Lit(Value),
    Bin(BinOp, Box<Expr>, Box<Expr>),
    Not(Box<Expr>),
    Neg(Box<Expr>),
    /// `e IS [NOT] NULL/TRUE/FALSE/UNKNOWN`
    Is { e: Box<Expr>, test: IsTest, negated: bool },
    InList { e: Box<Expr>, list: Vec<Expr>, negated: bool },
    Between { e: Box<Expr>, lo: Box<Expr>, hi: Box<Expr>, negated: bool },
    Like { e: Box<Expr>, pattern: String, negated: bool },
    Case { operand: Option<Box<Expr>>, whens: Vec<(Expr, Expr)>, else_: Option<Box<Expr>> },
    Func(Func, Vec<Expr>),
    Cast(Box<Expr>, ColType),
    Agg {
        f: AggFn,
        arg: Option<Box<Expr>>,
        distinct: bool,
        filter: Option<Box<Expr>>,
        order_by: Vec<OrderItem>,
    },
    Window {
        f: WinFn,
        args: Vec<Expr>,
        partition_by: Vec<Expr>,
        order_by: Vec<OrderItem>,
        frame: Option<Frame>,
    },
    /// `(SELECT ..)` used as a value: must yield one column and at most one row.
    ScalarSubquery(Box<Query>),
    Exists { q: Box<Query>, negated: bool },
    InSubquery { e: Box<Expr>, q: Box<Query>, negated: bool },
    /// `e op ANY/ALL (subquery)`
    Quantified { e: Box<Expr>, op: BinOp, all: bool, q: Box<Query> },
}

#[derive(Clone, Copy, Debug, PartialEq, Eq, Hash, Serialize, Deserialize)]
pub enum JoinKind {
    Inner,
    Left,
    Right,
    Full,
    Cross,
    /// DataFusion extension `LEFT SEMI JOIN` / `LEFT ANTI JOIN` (output = left columns)
    LeftSemi,
    LeftAnti,
    RightSemi,
    RightAnti,
}

impl JoinKind {
    pub fn sql(&self) -> &'static str {
        match self {
            JoinKind::Inner => "JOIN",
            JoinKind::Left => "LEFT JOIN",
            JoinKind::Right => "RIGHT JOIN",
            JoinKind::Full => "FULL JOIN",
            JoinKind::Cross => "CROSS JOIN",
            JoinKind::LeftSemi => "LEFT SEMI JOIN",
            JoinKind::LeftAnti => "LEFT ANTI JOIN",
            JoinKind::RightSemi => "RIGHT SEMI JOIN",
            JoinKind::RightAnti => "RIGHT ANTI JOIN",
        }
    }
}

#[derive(Clone, Debug, PartialEq, Eq, Hash, Serialize, Deserialize)]
pub enum JoinCond {
    None,
    On(Expr),
    Using(Vec<String>),
}

#[derive(Clone, Debug, PartialEq, Eq, Hash, Serialize, Deserialize)]
pub enum From {
    /// Base table (or CTE) with optional alias.
    Table { name: String, alias: Option<String> },
    /// `(query) AS alias`
    Subquery { q: Box<Query>, alias: String },
    Join { kind: JoinKind, left: Box<From>, right: Box<From>, cond: JoinCond },
    /// `generate_series(a, b [, step])` (inclusive end) or `range(..)` (exclusive end);
    /// exposes one column named `value`, qualified by `alias`.
    Series { inclusive: bool, args: Vec<i64>, alias: String },
}

#[derive(Clone, Debug, PartialEq, Eq, Hash, Serialize, Deserialize)]
pub enum Distinct {
    No,
    All,
    On(Vec<Expr>),
}

#[derive(Clone, Debug, PartialEq, Eq, Hash, Serialize, Deserialize)]
pub enum GroupBy {
    None,
    Exprs(Vec<Expr>),
    Rollup(Vec<Expr>),
    Cube(Vec<Expr>),
    Sets(Vec<Vec<Expr>>),
}

#[derive(Clone, Debug, PartialEq, Eq, Hash, Serialize, Deserialize)]
pub struct SelectItem {
    pub expr: Expr,
    pub alias: Option<String>,
}

#[derive(Clone, Debug, PartialEq, Eq, Hash, Serialize, Deserialize)]
pub struct Select {
    pub distinct: Distinct,
    /// empty = `*`
    pub items: Vec<SelectItem>,
    pub from: Option<From>,
    pub where_: Option<Expr>,
    pub group_by: GroupBy,
    pub having: Option<Expr>,
}

#[derive(Clone, Copy, Debug, PartialEq, Eq, Hash, Serialize, Deserialize)]
pub enum SetOp {
    Union,
    Intersect,
    Except,
}

#[derive(Clone, Debug, PartialEq, Eq, Hash, Serialize, Deserialize)]
pub enum SetExpr {
    Select(Box<Select>),
    SetOp { op: SetOp, all: bool, left: Box<SetExpr>, right: Box<SetExpr> },
    /// parenthesised query with its own ORDER BY / LIMIT
    Query(Box<Query>),
    Values(Vec<Vec<Expr>>),
}

#[derive(Clone, Debug, PartialEq, Eq, Hash, Serialize, Deserialize)]
pub struct Cte {
    pub name: String,
    pub columns: Vec<String>,
    pub recursive: bool,
    pub query: Query,
}

#[derive(Clone, Debug, PartialEq, Eq, Hash, Serialize, Deserialize)]
pub struct Query {
    pub with: Vec<Cte>,
    pub body: SetExpr,
    pub order_by: Vec<OrderItem>,
    pub limit: Option<u64>,
    pub offset: Option<u64>,
}

// ---------------------------------------------------------------- builders

pub fn col(name: &str) -> Expr {
    Expr::Col { rel: None, name: name.to_string() }
}
pub fn qcol(rel: &str, name: &str) -> Expr {
    Expr::Col { rel: Some(rel.to_string()), name: name.to_string() }
}
pub fn int(i: i64) -> Expr {
    Expr::Lit(Value::Int(i))
}
pub fn flt(f: f64) -> Expr {
    Expr::Lit(Value::Float(f))
}
pub fn txt(s: &str) -> Expr {
    Expr::Lit(Value::Text(s.to_string()))
}
pub fn boolean(b: bool) -> Expr {
    Expr::Lit(Value::Bool(b))
}
pub fn null() -> Expr {
    Expr::Lit(Value::Null)
}
pub fn bin(op: BinOp, l: Expr, r: Expr) -> Expr {
    Expr::Bin(op, Box::new(l), Box::new(r))
}
pub fn eq(l: Expr, r: Expr) -> Expr {
    bin(BinOp::Eq, l, r)
}
pub fn and(l: Expr, r: Expr) -> Expr {
    bin(BinOp::And, l, r)
}
pub fn or(l: Expr, r: Expr) -> Expr {
    bin(BinOp::Or, l, r)
}
pub fn not(e: Expr) -> Expr {
    Expr::Not(Box::new(e))
}
pub fn is_null(e: Expr) -> Expr {
    Expr::Is { e: Box::new(e), test: IsTest::Null, negated: false }
}
pub fn is_not_null(e: Expr) -> Expr {
    Expr::Is { e: Box::new(e), test: IsTest::Null, negated: true }
}
pub fn func(f: Func, args: Vec<Expr>) -> Expr {
    Expr::Func(f, args)
}
pub fn agg(f: AggFn, arg: Expr) -> Expr {
    Expr::Agg { f, arg: Some(Box::new(arg)), distinct: false, filter: None, order_by: vec![] }
}
pub fn agg_distinct(f: AggFn, arg: Expr) -> Expr {
    Expr::Agg { f, arg: Some(Box::new(arg)), distinct: true, filter: None, order_by: vec![] }
}
pub fn count_star() -> Expr {
    Expr::Agg { f: AggFn::Count, arg: None, distinct: false, filter: None, order_by: vec![] }
}
pub fn item(e: Expr) -> SelectItem {
    SelectItem { expr: e, alias: None }
}
pub fn item_as(e: Expr, alias: &str) -> SelectItem {
    SelectItem { expr: e, alias: Some(alias.to_string()) }
}
pub fn table(name: &str) -> From {
    From::Table { name: name.to_string(), alias: None }
}
pub fn table_as(name: &str, alias: &str) -> From {
    From::Table { name: name.to_string(), alias: Some(alias.to_string()) }
}
pub fn join(kind: JoinKind, l: From, r: From, on: Expr) -> From {
    From::Join { kind, left: Box::new(l), right: Box::new(r), cond: JoinCond::On(on) }
}
pub fn cross(l: From, r: From) -> From {
    From::Join { kind: JoinKind::Cross, left: Box::new(l), right: Box::new(r), cond: JoinCond::None }
}
pub fn subquery_as(q: Query, alias: &str) -> From {
    From::Subquery { q: Box::new(q), alias: alias.to_string() }
}

impl Select {
    pub fn new(items: Vec<SelectItem>, from: From) -> Select {
        Select { distinct: Distinct::No, items, from: Some(from), where_: None, group_by: GroupBy::None, having: None }
    }
    pub fn no_from(items: Vec<SelectItem>) -> Select {
        Select { distinct: Distinct::No, items, from: None, where_: None, group_by: GroupBy::None, having: None }
    }
    pub fn filter(mut self, p: Expr) -> Select {
        self.where_ = Some(p);
        self
    }
    pub fn group(mut self, keys: Vec<Expr>) -> Select {
        self.group_by = GroupBy::Exprs(keys);
        self
    }
    pub fn group_by(mut self, g: GroupBy) -> Select {
        self.group_by = g;
        self
    }
    pub fn having(mut self, p: Expr) -> Select {
        self.having = Some(p);
        self
    }
    pub fn distinct(mut self) -> Select {
        self.distinct = Distinct::All;
        self
    }
    pub fn distinct_on(mut self, e: Vec<Expr>) -> Select {
        self.distinct = Distinct::On(e);
        self
    }
    pub fn query(self) -> Query {
        Query { with: vec![], body: SetExpr::Select(Box::new(self)), order_by: vec![], limit: None, offset: None }
    }
}

impl Query {
    pub fn from_body(body: SetExpr) -> Query {
        Query { with: vec![], body, order_by: vec![], limit: None, offset: None }
    }
    pub fn order(mut self, o: Vec<OrderItem>) -> Query {
        self.order_by = o;
        self
    }
    pub fn limit(mut self, n: u64) -> Query {
        self.limit = Some(n);
        self
    }
    pub fn offset(mut self, n: u64) -> Query {
        self.offset = Some(n);
        self
    }
    pub fn with(mut self, c: Cte) -> Query {
        self.with.push(c);
        self
    }
    pub fn setop(self, op: SetOp, all: bool, right: Query) -> Query {
        fn body_of(q: Query) -> SetExpr {
            if q.with.is_empty() && q.order_by.is_empty() && q.limit.is_none() && q.offset.is_none() {
                q.body
            } else {
                SetExpr::Query(Box::new(q))
            }
        }
        Query::from_body(SetExpr::SetOp { op, all, left: Box::new(body_of(self)), right: Box::new(body_of(right)) })
    }
}

// ---------------------------------------------------------------- walkers

impl Expr {
    /// Pre-order walk over this expression (not descending into subqueries'
    /// bodies; the subquery *nodes* themselves are visited).
    pub fn walk<'a>(&'a self, f: &mut dyn FnMut(&'a Expr)) {
        f(self);
        match self {
            Expr::Col { .. } | Expr::Lit(_) => {}
            Expr::Bin(_, l, r) => {
                l.walk(f);
                r.walk(f);
            }
            Expr::Not(e) | Expr::Neg(e) | Expr::Cast(e, _) => e.walk(f),
            Expr::Is { e, .. } | Expr::Like { e, .. } => e.walk(f),
            Expr::InList { e, list, .. } => {
                e.walk(f);
                for x in list {
                    x.walk(f);
                }
            }
            Expr::Between { e, lo, hi, .. } => {
                e.walk(f);
                lo.walk(f);
                hi.walk(f);
            }
            Expr::Case { operand, whens, else_ } => {
                if let Some(o) = operand {
                    o.walk(f);
                }
                for (w, t) in whens {
                    w.walk(f);
                    t.walk(f);
                }
                if let Some(e) = else_ {
                    e.walk(f);
                }
            }
            Expr::Func(_, args) => {
                for a in args {
                    a.walk(f);
                }
            }
            Expr::Agg { arg, filter, order_by, .. } => {
                if let Some(a) = arg {
                    a.walk(f);
                }
                if let Some(p) = filter {
                    p.walk(f);
                }
                for o in order_by {
                    o.expr.walk(f);
                }
            }
            Expr::Window { args, partition_by, order_by, .. } => {
                for a in args {
                    a.walk(f);
                }
                for a in partition_by {
                    a.walk(f);
                }
                for o in order_by {
                    o.expr.walk(f);
                }
            }
            Expr::ScalarSubquery(_) | Expr::Exists { .. } => {}
            Expr::InSubquery { e, .. } | Expr::Quantified { e, .. } => e.walk(f),
        }
    }
    /// True if the expression contains an aggregate call outside any window
    /// function's own aggregate (i.e. a call that forces grouping).
    pub fn contains_agg(&self) -> bool {
        let mut found = false;
        self.walk(&mut |e| {
            if matches!(e, Expr::Agg { .. }) {
                found = true;
            }
        });
        found
    }
    pub fn contains_window(&self) -> bool {
        let mut found = false;
        self.walk(&mut |e| {
            if matches!(e, Expr::Window { .. }) {
                found = true;
            }
        });
        found
    }
    /// Subqueries directly nested in this expression.
    pub fn subqueries(&self) -> Vec<&Query> {
        let mut out = vec![];
        self.walk(&mut |e| match e {
            Expr::ScalarSubquery(q) => out.push(&**q),
            Expr::Exists { q, .. } | Expr::InSubquery { q, .. } | Expr::Quantified { q, .. } => out.push(&**q),
            _ => {}
        });
        out
    }
}

/// Visit every expression and every (sub)query of `q`, depth first.
pub fn visit_query<'a>(q: &'a Query, on_query: &mut dyn FnMut(&'a Query), on_expr: &mut dyn FnMut(&'a Expr), on_from: &mut dyn FnMut(&'a From)) {
    fn vexpr<'a>(e: &'a Expr, oq: &mut dyn FnMut(&'a Query), oe: &mut dyn FnMut(&'a Expr), of: &mut dyn FnMut(&'a From)) {
        let mut subs = vec![];
        e.walk(&mut |x| {
            oe(x);
            match x {
                Expr::ScalarSubquery(q) => subs.push(&**q),
                Expr::Exists { q, .. } | Expr::InSubquery { q, .. } | Expr::Quantified { q, .. } => subs.push(&**q),
                _ => {}
            }
        });
        for s in subs {
            vquery(s, oq, oe, of);
        }
    }
    fn vfrom<'a>(fr: &'a From, oq: &mut dyn FnMut(&'a Query), oe: &mut dyn FnMut(&'a Expr), of: &mut dyn FnMut(&'a From)) {
        of(fr);
        match fr {
            From::Table { .. } | From::Series { .. } => {}
            From::Subquery { q, .. } => vquery(q, oq, oe, of),
            From::Join { left, right, cond, .. } => {
                vfrom(left, oq, oe, of);
                vfrom(right, oq, oe, of);
                if let JoinCond::On(e) = cond {
                    vexpr(e, oq, oe, of);
                }
            }
        }
    }
    fn vset<'a>(s: &'a SetExpr, oq: &mut dyn FnMut(&'a Query), oe: &mut dyn FnMut(&'a Expr), of: &mut dyn FnMut(&'a From)) {
        match s {
            SetExpr::Select(sel) => {
                if let Distinct::On(es) = &sel.distinct {
                    for e in es {
                        vexpr(e, oq, oe, of);
                    }
                }
                for it in &sel.items {
                    vexpr(&it.expr, oq, oe, of);
                }
                if let Some(fr) = &sel.from {
                    vfrom(fr, oq, oe, of);
                }
                if let Some(w) = &sel.where_ {
                    vexpr(w, oq, oe, of);
                }
                match &sel.group_by {
                    GroupBy::None => {}
                    GroupBy::Exprs(es) | GroupBy::Rollup(es) | GroupBy::Cube(es) => {
                        for e in es {
                            vexpr(e, oq, oe, of);
                        }
                    }
                    GroupBy::Sets(sets) => {
                        for s in sets {
                            for e in s {
                                vexpr(e, oq, oe, of);
                            }
                        }
                    }
                }
                if let Some(h) = &sel.having {
                    vexpr(h, oq, oe, of);
                }
            }
            SetExpr::SetOp { left, right, .. } => {
                vset(left, oq, oe, of);
                vset(right, oq, oe, of);
            }
            SetExpr::Query(q) => vquery(q, oq, oe, of),
            SetExpr::Values(rows) => {
                for r in rows {
                    for e in r {
                        vexpr(e, oq, oe, of);
                    }
                }
            }
        }
    }
    fn vquery<'a>(q: &'a Query, oq: &mut dyn FnMut(&'a Query), oe: &mut dyn FnMut(&'a Expr), of: &mut dyn FnMut(&'a From)) {
        oq(q);
        for c in &q.with {
            vquery(&c.query, oq, oe, of);
        }
        vset(&q.body, oq, oe, of);
        for o in &q.order_by {
            vexpr(&o.expr, oq, oe, of);
        }
    }
    vquery(q, on_query, on_expr, on_from);
}
