//! Data-modifying statements: AST, SQL rendering and the reference model
//! (a statement applied to a [`Database`] held as `Vec<Row>`).
use super::ast::{Expr, Query};
use super::db::Database;
use super::reference::{self, RefOutcome};
use super::render::{render_expr, render_query};
use super::value::{ColType, Row, Value};
use serde::{Deserialize, Serialize};

#[derive(Clone, Debug, PartialEq, Eq, Hash, Serialize, Deserialize)]
pub enum Stmt {
    InsertValues { table: String, rows: Vec<Row> },
    InsertSelect { table: String, query: Query },
    /// `UPDATE table SET col = expr, .. [WHERE p]`; every expression sees the pre-update row
    Update { table: String, set: Vec<(String, Expr)>, where_: Option<Expr> },
    Delete { table: String, where_: Option<Expr> },
}

impl Stmt {
    pub fn table(&self) -> &str {
        match self {
            Stmt::InsertValues { table, .. } | Stmt::InsertSelect { table, .. } | Stmt::Update { table, .. } | Stmt::Delete { table, .. } => table,
        }
    }
    pub fn sql(&self) -> String {
        match self {
            Stmt::InsertValues { table, rows } => format!(
                "INSERT INTO {table} VALUES {}",
                rows.iter().map(|r| format!("({})", r.iter().map(|v| v.sql_literal()).collect::<Vec<_>>().join(", "))).collect::<Vec<_>>().join(", ")
            ),
            Stmt::InsertSelect { table, query } => format!("INSERT INTO {table} {}", render_query(query)),
            Stmt::Update { table, set, where_ } => format!(
                "UPDATE {table} SET {}{}",
                set.iter().map(|(c, e)| format!("{c} = {}", render_expr(e))).collect::<Vec<_>>().join(", "),
                where_.as_ref().map(|p| format!(" WHERE {}", render_expr(p))).unwrap_or_default()
            ),
            Stmt::Delete { table, where_ } => format!("DELETE FROM {table}{}", where_.as_ref().map(|p| format!(" WHERE {}", render_expr(p))).unwrap_or_default()),
        }
    }
}

/// Coerce a value to the declared column class on assignment / insertion.
fn coerce(v: Value, t: ColType) -> Result<Value, String> {
    Ok(match (v, t) {
        (Value::Null, _) => Value::Null,
        (Value::Int(i), ColType::Int) => {
            if i < i32::MIN as i64 || i > i32::MAX as i64 {
                return Err("INT overflow on assignment".into());
            }
            Value::Int(i)
        }
        (Value::Int(i), ColType::Float) => Value::Float(i as f64),
        (Value::Float(f), ColType::Float) => Value::Float(f),
        (Value::Text(s), ColType::Text) => Value::Text(s),
        (Value::Bool(b), ColType::Bool) => Value::Bool(b),
        (v, t) => return Err(format!("cannot store {v:?} in a {t:?} column")),
    })
}

/// Reference model: apply `stmt` to `db`, returning the affected-row count.
/// `Err` = the reference cannot decide (may-fail construct); nothing is applied.
pub fn apply(db: &mut Database, stmt: &Stmt) -> Result<u64, String> {
    let tname = stmt.table().to_string();
    let cols = db.table(&tname).ok_or_else(|| format!("unknown table {tname}"))?.cols.clone();
    let truth = |db: &Database, row: &Row, p: &Option<Expr>| -> Result<bool, String> {
        match p {
            None => Ok(true),
            Some(p) => Ok(matches!(reference::eval_on_row(db, &tname, row, p)?, Value::Bool(true))),
        }
    };
    match stmt {
        Stmt::InsertValues { rows, .. } => {
            let mut new = vec![];
            for r in rows {
                if r.len() != cols.len() {
                    return Err("VALUES arity".into());
                }
                new.push(r.iter().cloned().zip(&cols).map(|(v, (_, t))| coerce(v, *t)).collect::<Result<Row, _>>()?);
            }
            let n = new.len() as u64;
            db.table_mut(&tname).unwrap().rows.extend(new);
            Ok(n)
        }
        Stmt::InsertSelect { query, .. } => match reference::evaluate(db, query) {
            RefOutcome::Rows(r) => {
                let rows = r.window_rows();
                let mut new = vec![];
                for row in rows {
                    if row.len() != cols.len() {
                        return Err("INSERT .. SELECT arity".into());
                    }
                    new.push(row.into_iter().zip(&cols).map(|(v, (_, t))| coerce(v, *t)).collect::<Result<Row, _>>()?);
                }
                let n = new.len() as u64;
                db.table_mut(&tname).unwrap().rows.extend(new);
                Ok(n)
            }
            RefOutcome::MayFail(w) | RefOutcome::Ambiguous(w) | RefOutcome::Unsupported(w) => Err(w),
        },
        Stmt::Update { set, where_, .. } => {
            let old = db.table(&tname).unwrap().rows.clone();
            let mut out = Vec::with_capacity(old.len());
            let mut n = 0;
            for row in &old {
                if truth(db, row, where_)? {
                    n += 1;
                    let mut nr = row.clone();
                    for (c, e) in set {
                        let k = cols.iter().position(|(name, _)| name == c).ok_or_else(|| format!("unknown column {c}"))?;
                        // every right-hand side sees the PRE-update row
                        nr[k] = coerce(reference::eval_on_row(db, &tname, row, e)?, cols[k].1)?;
                    }
                    out.push(nr);
                } else {
                    out.push(row.clone());
                }
            }
            db.table_mut(&tname).unwrap().rows = out;
            Ok(n)
        }
        Stmt::Delete { where_, .. } => {
            let old = db.table(&tname).unwrap().rows.clone();
            let mut out = vec![];
            let mut n = 0;
            for row in &old {
                if truth(db, row, where_)? {
                    n += 1;
                } else {
                    out.push(row.clone());
                }
            }
            db.table_mut(&tname).unwrap().rows = out;
            Ok(n)
        }
    }
}
