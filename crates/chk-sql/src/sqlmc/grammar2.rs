//! Families F4..F8 of the grammar (F9..F12 live in `grammar3.rs`).
use super::ast::*;
use super::grammar::{Tier, aggs_over, b, int_preds, join_conds, menu, sel};

fn a() -> Expr {
    col("a")
}
fn bb() -> Expr {
    col("b")
}
fn c() -> Expr {
    col("c")
}
fn ta() -> Expr {
    qcol("t", "a")
}
fn tb() -> Expr {
    qcol("t", "b")
}
fn ua() -> Expr {
    qcol("u", "a")
}
fn uc() -> Expr {
    qcol("u", "c")
}
fn oi(e: Expr, desc: bool, nf: Option<bool>) -> OrderItem {
    OrderItem { expr: e, desc, nulls_first: nf }
}

// ----------------------------------------------------------------------- F4

pub(crate) fn f4(tier: Tier) -> Vec<Query> {
    let mut out = vec![];
    out.push(sel(vec![a()], table("t")).distinct().query());
    out.push(sel(vec![a(), bb()], table("t")).distinct().query());
    out.push(sel(vec![b(BinOp::Add, a(), bb())], table("t")).distinct().query());
    out.push(sel(vec![c()], table("u")).distinct().query());
    out.push(sel(vec![col("f"), a()], table("w")).distinct().query());
    out.push(sel(vec![col("x")], table("w")).distinct().query());
    out.push(sel(vec![is_null(a()), bb()], table("t")).distinct().query());
    for p in menu(tier, &int_preds(&a(), &bb()), 3) {
        out.push(sel(vec![bb()], table("t")).filter(p).distinct().query());
    }
    for k in menu(tier, &[JoinKind::Inner, JoinKind::Left, JoinKind::Full, JoinKind::Right], 2) {
        out.push(Select::new(vec![item(ta()), item(uc())], join(k, table("t"), table("u"), eq(ta(), ua()))).distinct().query());
    }
    // DISTINCT + ORDER BY (+ LIMIT)
    out.push(sel(vec![a()], table("t")).distinct().query().order(vec![oi(a(), true, None)]));
    out.push(sel(vec![a(), bb()], table("t")).distinct().query().order(vec![oi(bb(), false, Some(true)), oi(a(), false, None)]).limit(2));
    // DISTINCT over an aggregate
    out.push(Select::new(vec![item_as(count_star(), "n")], table("t")).group(vec![a()]).distinct().query());
    // DISTINCT ON
    let don_orders: Vec<Vec<OrderItem>> = vec![
        vec![oi(a(), false, None), oi(bb(), false, None)],
        vec![oi(a(), false, None), oi(bb(), true, None)],
        vec![oi(a(), true, Some(false)), oi(bb(), false, Some(true))],
        vec![oi(a(), false, None)],
        vec![oi(a(), false, Some(true)), oi(bb(), true, Some(false))],
    ];
    for o in menu(tier, &don_orders, 3) {
        out.push(sel(vec![a(), bb()], table("t")).distinct_on(vec![a()]).query().order(o));
    }
    out.push(sel(vec![a(), c()], table("u")).distinct_on(vec![a()]).query().order(vec![oi(a(), false, None), oi(c(), true, None)]));
    out.push(sel(vec![bb(), a()], table("t")).filter(is_not_null(a())).distinct_on(vec![bb()]).query().order(vec![oi(bb(), false, None), oi(a(), false, None)]));
    if tier == Tier::Thorough {
        let k = b(BinOp::Mod, a(), int(2));
        out.push(
            Select::new(vec![item_as(k.clone(), "k"), item(a()), item(bb())], table("t"))
                .distinct_on(vec![k.clone()])
                .query()
                .order(vec![oi(k, false, None), oi(a(), false, None), oi(bb(), false, None)]),
        );
        out.push(sel(vec![a(), bb()], table("t")).distinct_on(vec![a(), bb()]).query().order(vec![oi(a(), false, None), oi(bb(), false, None)]));
        for p in int_preds(&a(), &bb()) {
            out.push(sel(vec![a(), bb()], table("t")).filter(p.clone()).distinct().query());
            out.push(sel(vec![a(), bb()], table("t")).filter(p).distinct_on(vec![a()]).query().order(vec![oi(a(), false, None), oi(bb(), false, None)]));
        }
        for cnd in join_conds() {
            out.push(Select::new(vec![item(tb()), item(ua())], join(JoinKind::Left, table("t"), table("u"), cnd)).distinct().query());
        }
    }
    out
}

// ----------------------------------------------------------------------- F5

pub(crate) fn f5(tier: Tier) -> Vec<Query> {
    let mut out = vec![];
    let orders: Vec<Vec<OrderItem>> = vec![
        vec![oi(a(), false, None), oi(bb(), false, None)],
        vec![oi(a(), true, None)],
        vec![oi(a(), false, Some(true)), oi(bb(), true, None)],
        vec![oi(bb(), true, Some(false)), oi(a(), false, None)],
        vec![oi(a(), false, None)],
        vec![oi(b(BinOp::Add, a(), bb()), false, None), oi(a(), false, None)],
        vec![oi(int(2), false, None), oi(int(1), true, None)],
        vec![oi(a(), true, Some(true)), oi(bb(), true, Some(true))],
        vec![oi(bb(), false, Some(false))],
        vec![oi(b(BinOp::Mod, a(), int(2)), true, None), oi(bb(), false, None), oi(a(), false, None)],
    ];
    let lims: Vec<(Option<u64>, Option<u64>)> = vec![(None, None), (Some(1), None), (Some(2), None), (Some(1), Some(1)), (None, Some(1)), (Some(0), None), (Some(3), Some(2)), (Some(2), Some(1))];
    for (oi_, o) in menu(tier, &orders, 6).into_iter().enumerate() {
        for (li, (l, off)) in menu(tier, &lims, 5).into_iter().enumerate() {
            if tier == Tier::Quick && !(li == 0 || oi_ < 3 || li + 1 == oi_) {
                continue;
            }
            let mut q = sel(vec![a(), bb()], table("t")).query().order(o.clone());
            q.limit = l;
            q.offset = off;
            out.push(q);
        }
    }
    // LIMIT / OFFSET without ORDER BY
    out.push(sel(vec![a(), bb()], table("t")).query().limit(1));
    out.push(sel(vec![a(), bb()], table("t")).query().limit(2).offset(1));
    out.push(sel(vec![a()], table("t")).filter(is_not_null(a())).query().offset(1));
    // ORDER BY a column that is not projected / an alias / with a filter
    out.push(sel(vec![a()], table("t")).query().order(vec![oi(bb(), false, None), oi(a(), false, None)]));
    out.push(Select::new(vec![item_as(b(BinOp::Add, a(), bb()), "s"), item(a())], table("t")).query().order(vec![oi(col("s"), true, None), oi(a(), false, None)]).limit(2));
    out.push(sel(vec![a(), bb()], table("t")).filter(b(BinOp::Gt, bb(), int(1))).query().order(vec![oi(a(), true, None)]).limit(1));
    // text / float / bool keys
    out.push(sel(vec![a(), c()], table("u")).query().order(vec![oi(c(), false, None), oi(a(), true, None)]));
    out.push(sel(vec![a(), c()], table("u")).query().order(vec![oi(c(), true, Some(false)), oi(a(), false, None)]).limit(2));
    out.push(sel(vec![col("x"), col("f"), a()], table("w")).query().order(vec![oi(col("x"), true, None), oi(col("f"), false, None), oi(a(), false, None)]));
    out.push(sel(vec![col("f"), col("x")], table("w")).query().order(vec![oi(col("f"), false, Some(true)), oi(col("x"), false, None)]).limit(2));
    // ORDER BY over a join and over an aggregate
    out.push(
        Select::new(vec![item_as(ta(), "ta"), item_as(tb(), "tb"), item_as(uc(), "uc")], join(JoinKind::Left, table("t"), table("u"), eq(ta(), ua())))
            .query()
            .order(vec![oi(col("ta"), false, None), oi(col("uc"), true, None), oi(col("tb"), false, None)])
            .limit(2),
    );
    out.push(
        Select::new(vec![item(a()), item_as(count_star(), "n")], table("t"))
            .group(vec![a()])
            .query()
            .order(vec![oi(col("n"), true, None), oi(a(), false, None)])
            .limit(1),
    );
    out.push(Select::new(vec![item(a()), item_as(agg(AggFn::Sum, bb()), "s")], table("t")).group(vec![a()]).query().order(vec![oi(agg(AggFn::Sum, bb()), false, Some(true)), oi(a(), true, None)]));
    if tier == Tier::Thorough {
        for o in &orders {
            for p in int_preds(&a(), &bb()).into_iter().take(6) {
                out.push(sel(vec![a(), bb()], table("t")).filter(p).query().order(o.clone()).limit(2));
            }
        }
        for k in [JoinKind::Inner, JoinKind::Left, JoinKind::Right, JoinKind::Full] {
            for (l, off) in &lims {
                let mut q = Select::new(vec![item_as(ta(), "ta"), item_as(tb(), "tb"), item_as(ua(), "ua"), item_as(uc(), "uc")], join(k, table("t"), table("u"), eq(ta(), ua())))
                    .query()
                    .order(vec![oi(col("ta"), false, None), oi(col("ua"), true, None), oi(col("tb"), false, None), oi(col("uc"), false, None)]);
                q.limit = *l;
                q.offset = *off;
                out.push(q);
            }
        }
    }
    out
}

// ----------------------------------------------------------------------- F6

pub(crate) fn f6(tier: Tier) -> Vec<Query> {
    let mut out = vec![];
    let ops = [(SetOp::Union, true), (SetOp::Union, false), (SetOp::Intersect, false), (SetOp::Except, false), (SetOp::Intersect, true), (SetOp::Except, true)];
    let qa = || sel(vec![a()], table("t")).query();
    let qb = || sel(vec![bb()], table("t")).query();
    let qu = || sel(vec![a()], table("u")).query();
    let qw = || sel(vec![a()], table("w")).query();
    let q2t = || sel(vec![a(), bb()], table("t")).query();
    let q2u = || Select::new(vec![item(a()), item_as(a(), "b")], table("u")).query();
    for (op, all) in ops {
        out.push(qa().setop(op, all, qu()));
        out.push(qa().setop(op, all, qb()));
        out.push(q2t().setop(op, all, q2u()));
    }
    // nested
    let nests: Vec<Query> = vec![
        qa().setop(SetOp::Union, true, qu()).setop(SetOp::Except, false, qb()),
        qa().setop(SetOp::Intersect, false, qu().setop(SetOp::Union, false, qb())),
        qa().setop(SetOp::Except, true, qu()).setop(SetOp::Union, true, qb()),
        qa().setop(SetOp::Union, false, qu()).setop(SetOp::Intersect, true, qb().setop(SetOp::Union, true, qb())),
        qa().setop(SetOp::Except, true, qu().setop(SetOp::Except, true, qb())),
        qa().setop(SetOp::Union, true, qa()).setop(SetOp::Except, true, qu()),
        qa().setop(SetOp::Union, true, qu()).setop(SetOp::Union, false, qw()),
        qa().setop(SetOp::Intersect, true, qu()).setop(SetOp::Except, false, qw()),
    ];
    for q in menu(tier, &nests, 4) {
        out.push(q);
    }
    // ORDER BY / LIMIT on top of a set operation
    out.push(qa().setop(SetOp::Union, true, qu()).order(vec![oi(a(), false, Some(true))]));
    out.push(q2t().setop(SetOp::Union, false, q2u()).order(vec![oi(a(), true, None), oi(bb(), false, None)]).limit(2));
    out.push(qa().setop(SetOp::Except, false, qu()).order(vec![oi(a(), false, None)]).limit(1));
    // operands with filters / text columns / constants
    out.push(sel(vec![a()], table("t")).filter(b(BinOp::Gt, bb(), int(1))).query().setop(SetOp::Union, false, sel(vec![a()], table("t")).filter(is_null(bb())).query()));
    out.push(sel(vec![c()], table("u")).query().setop(SetOp::Except, true, sel(vec![c()], table("u")).filter(eq(a(), int(1))).query()));
    out.push(sel(vec![a()], table("t")).query().setop(SetOp::Union, true, Select::no_from(vec![item(int(1))]).query()));
    out.push(sel(vec![a()], table("t")).query().setop(SetOp::Intersect, false, Select::no_from(vec![item(null())]).query()));
    // an operand with its own ORDER BY + LIMIT (total order => deterministic)
    out.push(q2t().order(vec![oi(a(), false, None), oi(bb(), false, None)]).limit(1).setop(SetOp::Union, true, q2u()));
    // set operation of aggregates
    out.push(
        Select::new(vec![item(a()), item_as(count_star(), "n")], table("t"))
            .group(vec![a()])
            .query()
            .setop(SetOp::Except, false, Select::new(vec![item(a()), item_as(count_star(), "n")], table("u")).group(vec![a()]).query()),
    );
    if tier == Tier::Thorough {
        for (op, all) in ops {
            for (op2, all2) in ops {
                out.push(qa().setop(op, all, qu()).setop(op2, all2, qb()));
                out.push(qa().setop(op, all, qu().setop(op2, all2, qb())));
            }
            for p in int_preds(&a(), &bb()).into_iter().take(8) {
                out.push(q2t().setop(op, all, sel(vec![a(), bb()], table("t")).filter(p).query()));
            }
            out.push(sel(vec![c()], table("u")).query().setop(op, all, sel(vec![c()], table("u")).filter(b(BinOp::Gt, a(), int(1))).query()));
            out.push(qa().setop(op, all, qw()));
        }
    }
    out
}

// ----------------------------------------------------------------------- F7

pub(crate) fn f7(tier: Tier) -> Vec<Query> {
    let mut out = vec![];
    let su = |items: Vec<SelectItem>, p: Option<Expr>| {
        let mut s = Select::new(items, table("u"));
        s.where_ = p;
        s.query()
    };
    let scalar = |q: Query| Expr::ScalarSubquery(Box::new(q));
    // uncorrelated scalar
    let unc: Vec<Query> = vec![
        su(vec![item(agg(AggFn::Max, ua()))], None),
        su(vec![item(agg(AggFn::Min, ua()))], Some(is_not_null(uc()))),
        su(vec![item(count_star())], None),
        su(vec![item(agg(AggFn::Avg, ua()))], None),
        su(vec![item(agg(AggFn::Sum, ua()))], Some(eq(uc(), txt("a")))),
    ];
    for q in menu(tier, &unc, 3) {
        out.push(Select::new(vec![item(ta()), item_as(scalar(q.clone()), "s")], table("t")).query());
        out.push(sel(vec![ta(), tb()], table("t")).filter(b(BinOp::LtEq, ta(), scalar(q))).query());
    }
    // correlated scalar
    let corr: Vec<Query> = vec![
        su(vec![item(count_star())], Some(eq(ua(), ta()))),
        su(vec![item(agg(AggFn::Max, uc()))], Some(eq(ua(), ta()))),
        su(vec![item(agg(AggFn::Sum, ua()))], Some(b(BinOp::GtEq, ua(), ta()))),
        su(vec![item(agg(AggFn::Count, uc()))], Some(and(eq(ua(), ta()), b(BinOp::Gt, tb(), int(1))))),
        su(vec![item(agg(AggFn::Min, ua()))], Some(or(eq(ua(), ta()), eq(ua(), tb())))),
        su(vec![item(b(BinOp::Add, agg(AggFn::Sum, ua()), tb()))], Some(eq(ua(), ta()))),
    ];
    for q in menu(tier, &corr, 3) {
        out.push(Select::new(vec![item(ta()), item(tb()), item_as(scalar(q.clone()), "s")], table("t")).query());
    }
    for q in [&corr[0], &corr[3], &corr[4]].into_iter().take(if tier == Tier::Quick { 2 } else { 3 }) {
        out.push(sel(vec![ta(), tb()], table("t")).filter(b(BinOp::Lt, tb(), scalar(q.clone()))).query());
    }
    // scalar subquery that may return several rows (may fail)
    out.push(Select::new(vec![item(ta()), item_as(scalar(su(vec![item(uc())], Some(eq(ua(), ta())))), "s")], table("t")).query());
    out.push(sel(vec![ta()], table("t")).filter(eq(ta(), scalar(su(vec![item(ua())], None)))).query());
    // EXISTS / NOT EXISTS (correlated, non-equi, in projection, under OR)
    let ex_conds = vec![
        eq(ua(), ta()),
        b(BinOp::Lt, ua(), ta()),
        and(eq(ua(), ta()), eq(uc(), txt("a"))),
        and(eq(ua(), ta()), b(BinOp::Gt, tb(), int(1))),
        b(BinOp::IsNotDistinctFrom, ua(), tb()),
        or(eq(ua(), ta()), is_null(uc())),
    ];
    for cnd in menu(tier, &ex_conds, 3) {
        for neg in [false, true] {
            let e = Expr::Exists { q: Box::new(su(vec![item(int(1))], Some(cnd.clone()))), negated: neg };
            out.push(sel(vec![ta(), tb()], table("t")).filter(e.clone()).query());
            if tier == Tier::Thorough || !neg {
                out.push(sel(vec![ta(), tb()], table("t")).filter(or(eq(tb(), int(1)), e.clone())).query());
                out.push(Select::new(vec![item(ta()), item_as(e, "e")], table("t")).query());
            }
        }
    }
    // uncorrelated EXISTS
    out.push(sel(vec![ta()], table("t")).filter(Expr::Exists { q: Box::new(su(vec![item(int(1))], Some(is_null(uc())))), negated: false }).query());
    // IN / NOT IN with NULLs
    let in_subs: Vec<Query> = vec![
        su(vec![item(ua())], None),
        su(vec![item(ua())], Some(is_not_null(ua()))),
        su(vec![item(ua())], Some(eq(uc(), txt("a")))),
        su(vec![item(ua())], Some(b(BinOp::Gt, ua(), tb()))),
        su(vec![item(b(BinOp::Add, ua(), int(1)))], None),
    ];
    for q in menu(tier, &in_subs, 4) {
        for neg in [false, true] {
            let e = Expr::InSubquery { e: Box::new(ta()), q: Box::new(q.clone()), negated: neg };
            out.push(sel(vec![ta(), tb()], table("t")).filter(e.clone()).query());
            if tier == Tier::Thorough {
                out.push(Select::new(vec![item(ta()), item_as(e.clone(), "e")], table("t")).query());
            }
            if tier == Tier::Thorough || q == in_subs[0] {
                out.push(sel(vec![ta(), tb()], table("t")).filter(or(is_null(tb()), e)).query());
            }
        }
    }
    out.push(Select::new(vec![item(ta()), item_as(Expr::InSubquery { e: Box::new(ta()), q: Box::new(in_subs[0].clone()), negated: true }, "e")], table("t")).query());
    out.push(sel(vec![uc()], table("u")).filter(Expr::InSubquery { e: Box::new(uc()), q: Box::new(Select::new(vec![item(qcol("u2", "c"))], table_as("u", "u2")).filter(eq(qcol("u2", "a"), int(1))).query()), negated: true }).query());
    // ANY / ALL
    let quants: Vec<(BinOp, bool)> = vec![(BinOp::Gt, true), (BinOp::Eq, false), (BinOp::NotEq, true), (BinOp::GtEq, false), (BinOp::Lt, true), (BinOp::LtEq, true), (BinOp::Lt, false), (BinOp::Eq, true), (BinOp::NotEq, false)];
    for (op, all) in menu(tier, &quants, 5) {
        out.push(sel(vec![ta(), tb()], table("t")).filter(Expr::Quantified { e: Box::new(ta()), op, all, q: Box::new(in_subs[0].clone()) }).query());
        if tier == Tier::Thorough {
            out.push(sel(vec![ta(), tb()], table("t")).filter(Expr::Quantified { e: Box::new(tb()), op, all, q: Box::new(in_subs[2].clone()) }).query());
            out.push(sel(vec![ta(), tb()], table("t")).filter(Expr::Quantified { e: Box::new(ta()), op, all, q: Box::new(su(vec![item(ua())], Some(eq(ua(), tb())))) }).query());
        }
    }
    // subquery in HAVING, subquery over the same table
    out.push(
        Select::new(vec![item(ta()), item_as(count_star(), "n")], table("t"))
            .group(vec![ta()])
            .having(b(BinOp::GtEq, count_star(), scalar(su(vec![item(count_star())], None))))
            .query(),
    );
    out.push(
        sel(vec![ta(), tb()], table("t"))
            .filter(eq(tb(), scalar(Select::new(vec![item(agg(AggFn::Max, qcol("t2", "b")))], table_as("t", "t2")).filter(eq(qcol("t2", "a"), ta())).query())))
            .query(),
    );
    out.push(
        sel(vec![ta(), tb()], table("t"))
            .filter(Expr::Exists { q: Box::new(Select::new(vec![item(int(1))], table_as("t", "t2")).filter(and(eq(qcol("t2", "a"), ta()), b(BinOp::Gt, qcol("t2", "b"), tb()))).query()), negated: true })
            .query(),
    );
    out
}

// ----------------------------------------------------------------------- F8

pub(crate) fn case_exprs(x: &Expr, y: &Expr) -> Vec<Expr> {
    let (x, y) = (|| x.clone(), || y.clone());
    let case = |operand: Option<Expr>, whens: Vec<(Expr, Expr)>, else_: Option<Expr>| Expr::Case { operand: operand.map(Box::new), whens, else_: else_.map(Box::new) };
    vec![
        case(None, vec![(b(BinOp::Gt, x(), int(1)), int(10)), (is_null(x()), int(20))], Some(int(30))),
        func(Func::Coalesce, vec![x(), y(), int(0)]),
        func(Func::NullIf, vec![x(), y()]),
        case(Some(x()), vec![(int(1), txt("one")), (int(2), txt("two"))], None),
        case(None, vec![(is_null(x()), y())], Some(x())),
        func(Func::Coalesce, vec![func(Func::NullIf, vec![x(), int(1)]), y()]),
        case(None, vec![(b(BinOp::Lt, x(), y()), x())], None),
        func(Func::Greatest, vec![x(), y()]),
        func(Func::NullIf, vec![x(), int(1)]),
        case(Some(y()), vec![(x(), int(1)), (null(), int(2))], Some(int(3))),
        func(Func::Least, vec![x(), y(), int(2)]),
        case(None, vec![(eq(x(), int(1)), case(None, vec![(eq(y(), int(1)), int(11))], Some(int(12))))], Some(int(0))),
        case(None, vec![(eq(x(), y()), null())], Some(b(BinOp::Add, x(), y()))),
        func(Func::Coalesce, vec![null(), x()]),
    ]
}

pub(crate) fn f8(tier: Tier) -> Vec<Query> {
    let mut out = vec![];
    let ces = case_exprs(&a(), &bb());
    for e in menu(tier, &ces, 7) {
        out.push(sel(vec![a(), bb(), e], table("t")).query());
    }
    // in filters
    let fl = vec![
        eq(ces[0].clone(), int(10)),
        b(BinOp::Gt, ces[1].clone(), int(1)),
        is_null(ces[2].clone()),
        eq(ces[3].clone(), txt("one")),
        b(BinOp::Gt, ces[4].clone(), int(1)),
        Expr::Case { operand: None, whens: vec![(is_null(a()), boolean(true))], else_: Some(Box::new(b(BinOp::Gt, bb(), int(1)))) },
        is_not_null(ces[6].clone()),
        eq(ces[7].clone(), int(2)),
    ];
    for p in menu(tier, &fl, 5) {
        out.push(sel(vec![a(), bb()], table("t")).filter(p).query());
    }
    // in join conditions
    let jc = vec![
        eq(func(Func::Coalesce, vec![ta(), int(0)]), func(Func::Coalesce, vec![ua(), int(0)])),
        eq(Expr::Case { operand: None, whens: vec![(b(BinOp::Gt, tb(), int(1)), ta())], else_: Some(Box::new(tb())) }, ua()),
        is_null(func(Func::NullIf, vec![ta(), ua()])),
        eq(ta(), func(Func::Coalesce, vec![ua(), tb()])),
        Expr::Case { operand: None, whens: vec![(is_null(uc()), eq(ta(), ua()))], else_: Some(Box::new(eq(tb(), ua()))) },
    ];
    for (i, cnd) in menu(tier, &jc, 3).into_iter().enumerate() {
        let kinds: Vec<JoinKind> = if tier == Tier::Thorough { vec![JoinKind::Inner, JoinKind::Left, JoinKind::Right, JoinKind::Full] } else { vec![[JoinKind::Inner, JoinKind::Left, JoinKind::Full][i % 3]] };
        for k in kinds {
            out.push(Select::new(vec![item_as(ta(), "ta"), item_as(tb(), "tb"), item_as(ua(), "ua"), item_as(uc(), "uc")], join(k, table("t"), table("u"), cnd.clone())).query());
        }
    }
    // in group keys and inside aggregates
    for e in menu(tier, &ces, 3) {
        out.push(Select::new(vec![item_as(e.clone(), "k"), item_as(count_star(), "n"), item_as(agg(AggFn::Sum, bb()), "s")], table("t")).group(vec![e]).query());
    }
    out.push(
        Select::new(
            vec![
                item(a()),
                item_as(agg(AggFn::Sum, Expr::Case { operand: None, whens: vec![(b(BinOp::Gt, bb(), int(1)), int(1))], else_: Some(Box::new(int(0))) }), "s"),
                item_as(func(Func::Coalesce, vec![agg(AggFn::Max, bb()), int(-1)]), "m"),
            ],
            table("t"),
        )
        .group(vec![a()])
        .query(),
    );
    // text / float flavours
    out.push(sel(vec![a(), func(Func::Coalesce, vec![c(), txt("-")]), func(Func::NullIf, vec![c(), txt("a")])], table("u")).query());
    out.push(
        sel(vec![Expr::Case { operand: Some(Box::new(c())), whens: vec![(txt("a"), int(1)), (txt("b"), int(2))], else_: None }, c()], table("u"))
            .filter(b(BinOp::NotEq, func(Func::Coalesce, vec![c(), txt("a")]), txt("b")))
            .query(),
    );
    out.push(
        sel(
            vec![
                Expr::Case { operand: None, whens: vec![(col("f"), col("x"))], else_: Some(Box::new(flt(0.0))) },
                func(Func::Coalesce, vec![col("x"), flt(1.0)]),
                func(Func::NullIf, vec![col("f"), boolean(true)]),
            ],
            table("w"),
        )
        .query(),
    );
    // ORDER BY a CASE
    out.push(sel(vec![a(), bb()], table("t")).query().order(vec![oi(ces[4].clone(), false, None), oi(a(), false, None), oi(bb(), false, None)]));
    if tier == Tier::Thorough {
        for e in &ces {
            for p in int_preds(&a(), &bb()).iter().take(10) {
                out.push(sel(vec![e.clone()], table("t")).filter(p.clone()).query());
            }
            // (the text-valued simple CASE cannot be summed / averaged)
            let numeric = !matches!(e, Expr::Case { whens, .. } if matches!(whens[0].1, Expr::Lit(crate::sqlmc::value::Value::Text(_))));
            for ag in aggs_over(e).into_iter().take(if numeric { 6 } else { 0 }) {
                out.push(Select::new(vec![item(a()), item_as(ag, "g")], table("t")).group(vec![a()]).query());
            }
        }
    }
    out
}

pub(crate) use super::grammar3::{f9, f10, f11, f12};
