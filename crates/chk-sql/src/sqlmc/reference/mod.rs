//! Independent reference interpreter for the `sqlmc` query AST.
//!
//! A boring tree-walking evaluator over `Vec<Vec<Value>>` with SQL
//! three-valued logic: nested-loop joins, hash-free grouping, bag set
//! operations, correlated subqueries by re-evaluation per outer row, window
//! functions by per-row frame evaluation, recursive CTEs by working-table
//! iteration with a step cap.  It shares no code with DataFusion.
//!
//! Entry point: [`evaluate`].  The outcome is one of
//! * `Rows(RefResult)` — the defined answer (with tie-group structure for
//!   ORDER BY and the top-level OFFSET/LIMIT window still to apply),
//! * `MayFail(why)` — evaluation touched a construct that may raise a runtime
//!   error (division by zero, scalar subquery with > 1 row, overflow, bad
//!   cast): the engine may fail or return anything,
//! * `Ambiguous(why)` — SQL does not define a single answer (LIMIT cutting a
//!   tie group inside a subquery, `row_number()` over tied peers, DISTINCT ON
//!   without a total order, …): the case is skipped,
//! * `Unsupported(why)` — the AST uses something the reference does not model
//!   (a bug in the grammar or the reference: callers should treat it as a
//!   machinery error, never as a verdict).
pub mod expr;
pub mod window;

use crate::sqlmc::ast::*;
use crate::sqlmc::db::Database;
use crate::sqlmc::value::{Row, Value};
use expr::{Env, GroupCtx, WinCtx, order_cmp, truth};
use std::cell::RefCell;
use std::cmp::Ordering;
use std::collections::BTreeMap;

#[derive(Clone, Debug, PartialEq, Eq)]
pub struct ColMeta {
    pub rel: Option<String>,
    pub name: String,
}

/// A relation: named columns and a bag of rows (in evaluation order).
#[derive(Clone, Debug)]
pub struct Rel {
    pub cols: Vec<ColMeta>,
    pub rows: Vec<Row>,
}

/// The defined answer of a query.
#[derive(Clone, Debug)]
pub struct RefResult {
    pub names: Vec<String>,
    /// All result rows *before* the top-level OFFSET/LIMIT, in reference order.
    pub rows: Vec<Row>,
    /// Tie-group id per row (non-decreasing).  Rows of one group compare equal
    /// on every ORDER BY key; without ORDER BY all rows are in group 0.
    pub tie_groups: Vec<u32>,
    pub ordered: bool,
    pub offset: usize,
    pub limit: Option<usize>,
}

impl RefResult {
    /// Number of rows the engine must return.
    pub fn expected_len(&self) -> usize {
        let avail = self.rows.len().saturating_sub(self.offset);
        match self.limit {
            Some(l) => avail.min(l),
            None => avail,
        }
    }
    /// The rows of the OFFSET/LIMIT window in reference order (one admissible answer).
    pub fn window_rows(&self) -> Vec<Row> {
        self.rows.iter().skip(self.offset).take(self.limit.unwrap_or(usize::MAX)).cloned().collect()
    }
}

#[derive(Clone, Debug)]
pub enum RefOutcome {
    Rows(RefResult),
    MayFail(String),
    Ambiguous(String),
    Unsupported(String),
}

#[derive(Default)]
struct Flags {
    may_fail: Option<String>,
    ambiguous: Option<String>,
    unsupported: Option<String>,
}

/// Alternative semantics of a *confirmed engine deviation*: evaluating the
/// reference with a quirk switched on shows whether that one root cause
/// explains an engine result exactly (used to key violations by root cause).
#[derive(Clone, Copy, Debug, Default, PartialEq, Eq)]
pub struct Quirks {
    /// INTERSECT ALL / EXCEPT ALL evaluated as a semi / anti join: every left
    /// row is kept (with its multiplicity) iff an equal row exists / does not
    /// exist on the right (NULLs equal).
    pub setop_all_as_semijoin: bool,
    /// `x NOT IN (SELECT k FROM r WHERE local AND correlated)` evaluated the way a
    /// null-aware anti join with a residual filter does it: the NULL test looks at
    /// *all* rows of `r` passing the local conjuncts (ignoring the correlated
    /// ones): any NULL key there => no outer row qualifies; a NULL `x` is dropped
    /// whenever that unfiltered set is non-empty; otherwise the outer row
    /// qualifies iff no row passing the correlated conjuncts has `k = x`.
    pub not_in_null_check_ignores_correlation: bool,
    /// The merged column of `JOIN .. USING (k)` is the *left* input's `k`
    /// (instead of COALESCE(left.k, right.k)): NULL on right-only rows of
    /// RIGHT / FULL joins.
    pub using_column_is_left: bool,
    /// `x [NOT] IN (subquery)` anywhere but as a whole top-level conjunct of
    /// WHERE is two-valued (mark join): TRUE iff some row equals `x`, else
    /// FALSE — never NULL.
    pub nested_in_subquery_two_valued: bool,
}

pub struct Interp<'d> {
    db: &'d Database,
    quirks: Quirks,
    /// set while evaluating a WHERE conjunct that is not itself an IN-subquery (quirk mode only)
    two_valued_in: std::cell::Cell<bool>,
    flags: RefCell<Flags>,
    /// CTE bindings, innermost last
    ctes: RefCell<Vec<(String, Rel)>>,
    /// work counter (guards against runaway evaluation)
    steps: RefCell<u64>,
}

/// Cap on recursive-CTE iterations and on rows of any intermediate relation.
pub const RECURSION_CAP: usize = 64;
pub const ROW_CAP: usize = 20_000;

/// Evaluate `q` on `db`.
pub fn evaluate(db: &Database, q: &Query) -> RefOutcome {
    evaluate_with(db, q, Quirks::default())
}

/// [`evaluate`] under alternative semantics (see [`Quirks`]).
pub fn evaluate_with(db: &Database, q: &Query, quirks: Quirks) -> RefOutcome {
    let it = Interp { db, quirks, two_valued_in: std::cell::Cell::new(false), flags: RefCell::new(Flags::default()), ctes: RefCell::new(vec![]), steps: RefCell::new(0) };
    let sorted = it.eval_query_sorted(q, None);
    let f = it.flags.borrow();
    if let Some(u) = &f.unsupported {
        return RefOutcome::Unsupported(u.clone());
    }
    if let Some(u) = &f.may_fail {
        return RefOutcome::MayFail(u.clone());
    }
    if let Some(u) = &f.ambiguous {
        return RefOutcome::Ambiguous(u.clone());
    }
    RefOutcome::Rows(RefResult {
        names: sorted.rel.cols.iter().map(|c| c.name.clone()).collect(),
        rows: sorted.rel.rows,
        tie_groups: sorted.ties,
        ordered: sorted.ordered,
        offset: q.offset.unwrap_or(0) as usize,
        limit: q.limit.map(|l| l as usize),
    })
}

/// Evaluate a scalar expression on one row of table `table` (columns visible
/// both unqualified and qualified by the table name).  `Err` if evaluation
/// touched a may-fail / ambiguous / unsupported construct.
pub fn eval_on_row(db: &Database, table: &str, row: &Row, e: &Expr) -> Result<Value, String> {
    let t = db.table(table).ok_or_else(|| format!("unknown table {table}"))?;
    let cols: Vec<ColMeta> = t.cols.iter().map(|(n, _)| ColMeta { rel: Some(table.to_string()), name: n.clone() }).collect();
    let it = Interp { db, quirks: Quirks::default(), two_valued_in: std::cell::Cell::new(false), flags: RefCell::new(Flags::default()), ctes: RefCell::new(vec![]), steps: RefCell::new(0) };
    let v = it.eval(e, &Env::plain(&cols, row, None));
    let f = it.flags.borrow();
    if let Some(u) = f.unsupported.as_ref().or(f.may_fail.as_ref()).or(f.ambiguous.as_ref()) {
        return Err(u.clone());
    }
    Ok(v)
}

/// Convenience: the rows of the top-level window when the answer is unique
/// enough to be listed (used for "result on the empty database").
pub fn evaluate_rows(db: &Database, q: &Query) -> Option<Vec<Row>> {
    match evaluate(db, q) {
        RefOutcome::Rows(r) => Some(r.window_rows()),
        _ => None,
    }
}

pub(crate) struct Sorted {
    rel: Rel,
    ties: Vec<u32>,
    ordered: bool,
}

fn out_cols(names: &[String]) -> Vec<ColMeta> {
    names.iter().map(|n| ColMeta { rel: None, name: n.clone() }).collect()
}

fn dedupe(rows: Vec<Row>) -> Vec<Row> {
    let mut seen = std::collections::BTreeSet::new();
    rows.into_iter().filter(|r| seen.insert(r.clone())).collect()
}

impl<'d> Interp<'d> {
    pub(crate) fn may_fail(&self, why: String) {
        let mut f = self.flags.borrow_mut();
        if f.may_fail.is_none() {
            f.may_fail = Some(why);
        }
    }
    pub(crate) fn ambiguous(&self, why: String) {
        let mut f = self.flags.borrow_mut();
        if f.ambiguous.is_none() {
            f.ambiguous = Some(why);
        }
    }
    pub(crate) fn unsupported(&self, why: String) {
        let mut f = self.flags.borrow_mut();
        if f.unsupported.is_none() {
            f.unsupported = Some(why);
        }
    }
    fn stopped(&self) -> bool {
        self.flags.borrow().unsupported.is_some()
    }

    /// Quirk evaluation of `x NOT IN (subquery)`; `None` when the subquery is not a
    /// plain single-item SELECT with a WHERE clause.
    pub(crate) fn quirk_not_in(&self, x: &Value, q: &Query, env: &Env) -> Option<Value> {
        if !q.with.is_empty() || !q.order_by.is_empty() || q.limit.is_some() || q.offset.is_some() {
            return None;
        }
        let sel = match &q.body {
            SetExpr::Select(s) => s,
            _ => return None,
        };
        if sel.items.len() != 1 || !matches!(sel.group_by, GroupBy::None) || sel.having.is_some() || sel.items[0].expr.contains_agg() || !matches!(sel.distinct, Distinct::No) {
            return None;
        }
        let from = self.eval_from(sel.from.as_ref()?, Some(env));
        // split WHERE into conjuncts; a conjunct is local iff all its columns resolve in `from`
        fn conjuncts<'a>(e: &'a Expr, out: &mut Vec<&'a Expr>) {
            match e {
                Expr::Bin(BinOp::And, l, r) => {
                    conjuncts(l, out);
                    conjuncts(r, out);
                }
                other => out.push(other),
            }
        }
        let mut cj = vec![];
        if let Some(w) = &sel.where_ {
            conjuncts(w, &mut cj);
        }
        let is_local = |e: &Expr| {
            let mut ok = true;
            e.walk(&mut |x| {
                if let Expr::Col { rel, name } = x {
                    let hit = from.cols.iter().any(|c| &c.name == name && rel.as_ref().map(|r| c.rel.as_deref() == Some(r.as_str())).unwrap_or(true));
                    if !hit {
                        ok = false;
                    }
                }
                if matches!(x, Expr::ScalarSubquery(_) | Expr::Exists { .. } | Expr::InSubquery { .. } | Expr::Quantified { .. }) {
                    ok = false;
                }
            });
            ok
        };
        let (local, corr): (Vec<&Expr>, Vec<&Expr>) = cj.into_iter().partition(|e| is_local(e));
        let mut all_keys = vec![];
        let mut corr_keys = vec![];
        for r in &from.rows {
            let renv = Env::plain(&from.cols, r, Some(env));
            if local.iter().all(|p| truth(&self.eval(p, &renv)) == Some(true)) {
                let k = self.eval(&sel.items[0].expr, &renv);
                if corr.iter().all(|p| truth(&self.eval(p, &renv)) == Some(true)) {
                    corr_keys.push(k.clone());
                }
                all_keys.push(k);
            }
        }
        if all_keys.iter().any(|k| k.is_null()) {
            return Some(Value::Bool(false));
        }
        if corr_keys.iter().any(|k| expr::compare(BinOp::Eq, x, k) == Some(true)) {
            return Some(Value::Bool(false));
        }
        if x.is_null() && !all_keys.is_empty() {
            return Some(Value::Bool(false));
        }
        Some(Value::Bool(true))
    }

    /// A subquery used inside an expression: fully evaluated (ORDER BY, OFFSET, LIMIT applied).
    pub(crate) fn eval_subquery(&self, q: &Query, env: &Env) -> Rel {
        self.eval_query(q, Some(env))
    }

    /// Query with ORDER BY / OFFSET / LIMIT applied; a LIMIT that cuts a tie
    /// group of non-identical rows makes the evaluation ambiguous.
    pub(crate) fn eval_query(&self, q: &Query, outer: Option<&Env>) -> Rel {
        let s = self.eval_query_sorted(q, outer);
        if q.limit.is_none() && q.offset.is_none() {
            return s.rel;
        }
        let n = s.rel.rows.len();
        let lo = (q.offset.unwrap_or(0) as usize).min(n);
        let hi = match q.limit {
            Some(l) => (lo + l as usize).min(n),
            None => n,
        };
        // a boundary strictly inside a tie group whose rows differ => engine's choice
        for cut in [lo, hi] {
            if cut > 0 && cut < n && s.ties[cut - 1] == s.ties[cut] {
                let g = s.ties[cut];
                let grp: Vec<&Row> = s.rel.rows.iter().zip(&s.ties).filter(|(_, t)| **t == g).map(|(r, _)| r).collect();
                if grp.iter().any(|r| *r != grp[0]) {
                    self.ambiguous("LIMIT/OFFSET cuts a group of tied, different rows inside a subquery".into());
                }
            }
        }
        Rel { cols: s.rel.cols, rows: s.rel.rows[lo..hi].to_vec() }
    }

    /// Query evaluated up to and including ORDER BY (no OFFSET/LIMIT).
    pub(crate) fn eval_query_sorted(&self, q: &Query, outer: Option<&Env>) -> Sorted {
        let depth = self.ctes.borrow().len();
        for c in &q.with {
            let rel = self.eval_cte(c, outer);
            self.ctes.borrow_mut().push((c.name.clone(), rel));
        }
        let (rel, keys) = match &q.body {
            SetExpr::Select(sel) => self.eval_select(sel, &q.order_by, outer),
            other => {
                let rel = self.eval_set(other, outer);
                // ORDER BY over a set operation sees the output columns only
                let keys: Vec<Vec<Value>> = rel
                    .rows
                    .iter()
                    .map(|r| {
                        let env = Env::plain(&rel.cols, r, outer);
                        q.order_by.iter().map(|o| self.order_key_over_output(&o.expr, &env, r)).collect()
                    })
                    .collect();
                (rel, keys)
            }
        };
        self.ctes.borrow_mut().truncate(depth);
        if q.order_by.is_empty() {
            let n = rel.rows.len();
            return Sorted { rel, ties: vec![0; n], ordered: false };
        }
        let mut idx: Vec<usize> = (0..rel.rows.len()).collect();
        idx.sort_by(|a, b| order_cmp(&keys[*a], &keys[*b], &q.order_by));
        let mut ties = vec![];
        let mut g = 0u32;
        for (p, i) in idx.iter().enumerate() {
            if p > 0 && order_cmp(&keys[idx[p - 1]], &keys[*i], &q.order_by) != Ordering::Equal {
                g += 1;
            }
            ties.push(g);
        }
        let rows = idx.iter().map(|i| rel.rows[*i].clone()).collect();
        Sorted { rel: Rel { cols: rel.cols, rows }, ties, ordered: true }
    }

    fn order_key_over_output(&self, e: &Expr, env: &Env, row: &Row) -> Value {
        if let Expr::Lit(Value::Int(k)) = e {
            if *k >= 1 && (*k as usize) <= row.len() {
                return row[*k as usize - 1].clone();
            }
        }
        self.eval(e, env)
    }

    fn eval_cte(&self, c: &Cte, outer: Option<&Env>) -> Rel {
        let rename = |mut r: Rel| -> Rel {
            if !c.columns.is_empty() {
                if c.columns.len() != r.cols.len() {
                    self.unsupported(format!("CTE {} column list length mismatch", c.name));
                } else {
                    for (m, n) in r.cols.iter_mut().zip(&c.columns) {
                        m.name = n.clone();
                    }
                }
            }
            for m in r.cols.iter_mut() {
                m.rel = None;
            }
            r
        };
        if !c.recursive {
            return rename(self.eval_query(&c.query, outer));
        }
        // recursive: body must be `base UNION [ALL] step`
        let (all, left, right) = match &c.query.body {
            SetExpr::SetOp { op: SetOp::Union, all, left, right } => (*all, left, right),
            _ => {
                self.unsupported("recursive CTE whose body is not a UNION".into());
                return Rel { cols: vec![], rows: vec![] };
            }
        };
        let base = rename(self.eval_set(left, outer));
        let cols = base.cols.clone();
        let mut result: Vec<Row> = if all { base.rows.clone() } else { dedupe(base.rows.clone()) };
        let mut working = result.clone();
        let mut iters = 0;
        while !working.is_empty() {
            iters += 1;
            if iters > RECURSION_CAP || result.len() > ROW_CAP {
                self.ambiguous("recursive CTE did not reach a fix point within the step cap".into());
                break;
            }
            self.ctes.borrow_mut().push((c.name.clone(), Rel { cols: cols.clone(), rows: working.clone() }));
            let step = self.eval_set(right, outer);
            self.ctes.borrow_mut().pop();
            if self.stopped() {
                break;
            }
            let mut new = step.rows;
            if !all {
                new = dedupe(new);
                let have: std::collections::BTreeSet<&Row> = result.iter().collect();
                new.retain(|r| !have.contains(r));
            }
            result.extend(new.iter().cloned());
            working = new;
        }
        let rel = Rel { cols, rows: result };
        // the CTE's own ORDER BY / LIMIT are not modelled
        if !c.query.order_by.is_empty() || c.query.limit.is_some() || c.query.offset.is_some() {
            self.unsupported("ORDER BY / LIMIT on a recursive CTE body".into());
        }
        rel
    }

    fn eval_set(&self, s: &SetExpr, outer: Option<&Env>) -> Rel {
        match s {
            SetExpr::Select(sel) => self.eval_select(sel, &[], outer).0,
            SetExpr::Query(q) => self.eval_query(q, outer),
            SetExpr::Values(rows) => {
                let empty_cols: Vec<ColMeta> = vec![];
                let empty_row: Row = vec![];
                let env0 = Env::plain(&empty_cols, &empty_row, outer);
                let out: Vec<Row> = rows.iter().map(|r| r.iter().map(|e| self.eval(e, &env0)).collect()).collect();
                let n = rows.first().map(|r| r.len()).unwrap_or(0);
                Rel { cols: (1..=n).map(|i| ColMeta { rel: None, name: format!("column{i}") }).collect(), rows: out }
            }
            SetExpr::SetOp { op, all, left, right } => {
                let l = self.eval_set(left, outer);
                let r = self.eval_set(right, outer);
                if l.cols.len() != r.cols.len() {
                    self.unsupported("set operation over different column counts".into());
                    return l;
                }
                let mut rc: BTreeMap<Row, usize> = BTreeMap::new();
                for x in &r.rows {
                    *rc.entry(x.clone()).or_insert(0) += 1;
                }
                let rows = match (op, all) {
                    (SetOp::Union, true) => l.rows.iter().chain(r.rows.iter()).cloned().collect(),
                    (SetOp::Union, false) => dedupe(l.rows.iter().chain(r.rows.iter()).cloned().collect()),
                    (SetOp::Intersect, false) => dedupe(l.rows.iter().filter(|x| rc.contains_key(*x)).cloned().collect()),
                    (SetOp::Except, false) => dedupe(l.rows.iter().filter(|x| !rc.contains_key(*x)).cloned().collect()),
                    (SetOp::Intersect, true) if self.quirks.setop_all_as_semijoin => l.rows.iter().filter(|x| rc.contains_key(*x)).cloned().collect(),
                    (SetOp::Except, true) if self.quirks.setop_all_as_semijoin => l.rows.iter().filter(|x| !rc.contains_key(*x)).cloned().collect(),
                    (SetOp::Intersect, true) => {
                        // min(m, n) copies
                        let mut out = vec![];
                        for x in &l.rows {
                            if let Some(c) = rc.get_mut(x) {
                                if *c > 0 {
                                    *c -= 1;
                                    out.push(x.clone());
                                }
                            }
                        }
                        out
                    }
                    (SetOp::Except, true) => {
                        // max(m - n, 0) copies
                        let mut out = vec![];
                        for x in &l.rows {
                            match rc.get_mut(x) {
                                Some(c) if *c > 0 => *c -= 1,
                                _ => out.push(x.clone()),
                            }
                        }
                        out
                    }
                };
                Rel { cols: l.cols, rows }
            }
        }
    }

    // ------------------------------------------------------------------ FROM

    fn eval_from(&self, f: &From, outer: Option<&Env>) -> Rel {
        match f {
            From::Table { name, alias } => {
                let q = alias.clone().unwrap_or_else(|| name.clone());
                let ctes = self.ctes.borrow();
                if let Some((_, rel)) = ctes.iter().rev().find(|(n, _)| n == name) {
                    return Rel { cols: rel.cols.iter().map(|c| ColMeta { rel: Some(q.clone()), name: c.name.clone() }).collect(), rows: rel.rows.clone() };
                }
                match self.db.table(name) {
                    Some(t) => Rel { cols: t.cols.iter().map(|(n, _)| ColMeta { rel: Some(q.clone()), name: n.clone() }).collect(), rows: t.rows.clone() },
                    None => {
                        self.unsupported(format!("unknown table {name}"));
                        Rel { cols: vec![], rows: vec![] }
                    }
                }
            }
            From::Subquery { q, alias } => {
                let r = self.eval_query(q, outer);
                Rel { cols: r.cols.into_iter().map(|c| ColMeta { rel: Some(alias.clone()), name: c.name }).collect(), rows: r.rows }
            }
            From::Series { inclusive, args, alias } => {
                let (start, end, step) = match args.len() {
                    1 => (0, args[0], 1),
                    2 => (args[0], args[1], 1),
                    3 => (args[0], args[1], args[2]),
                    _ => {
                        self.unsupported("series arity".into());
                        (0, 0, 1)
                    }
                };
                let mut rows = vec![];
                if step == 0 {
                    self.may_fail("series step 0".into());
                } else {
                    let mut v = start;
                    loop {
                        let more = if step > 0 { if *inclusive { v <= end } else { v < end } } else if *inclusive { v >= end } else { v > end };
                        if !more || rows.len() > ROW_CAP {
                            break;
                        }
                        rows.push(vec![Value::Int(v)]);
                        v += step;
                    }
                }
                Rel { cols: vec![ColMeta { rel: Some(alias.clone()), name: "value".into() }], rows }
            }
            From::Join { kind, left, right, cond } => {
                let l = self.eval_from(left, outer);
                let r = self.eval_from(right, outer);
                self.join(*kind, l, r, cond, outer)
            }
        }
    }

    fn join(&self, kind: JoinKind, l: Rel, r: Rel, cond: &JoinCond, outer: Option<&Env>) -> Rel {
        let mut cols = l.cols.clone();
        cols.extend(r.cols.iter().cloned());
        let using_pairs: Vec<(usize, usize)> = match cond {
            JoinCond::Using(names) => names
                .iter()
                .filter_map(|n| {
                    let li = l.cols.iter().position(|c| &c.name == n);
                    let ri = r.cols.iter().position(|c| &c.name == n);
                    match (li, ri) {
                        (Some(a), Some(b)) => Some((a, b)),
                        _ => {
                            self.unsupported(format!("USING column {n} not on both sides"));
                            None
                        }
                    }
                })
                .collect(),
            _ => vec![],
        };
        let matches = |lr: &Row, rr: &Row| -> bool {
            match cond {
                JoinCond::None => true,
                JoinCond::On(e) => {
                    let mut row = lr.clone();
                    row.extend(rr.iter().cloned());
                    let env = Env::plain(&cols, &row, outer);
                    truth(&self.eval(e, &env)) == Some(true)
                }
                JoinCond::Using(_) => using_pairs.iter().all(|(a, b)| expr::compare(BinOp::Eq, &lr[*a], &rr[*b]) == Some(true)),
            }
        };
        let mut lm = vec![false; l.rows.len()];
        let mut rm = vec![false; r.rows.len()];
        let mut pairs: Vec<Row> = vec![];
        for (i, lr) in l.rows.iter().enumerate() {
            for (j, rr) in r.rows.iter().enumerate() {
                if matches(lr, rr) {
                    lm[i] = true;
                    rm[j] = true;
                    if matches!(kind, JoinKind::Inner | JoinKind::Cross | JoinKind::Left | JoinKind::Right | JoinKind::Full) {
                        let mut row = lr.clone();
                        row.extend(rr.iter().cloned());
                        pairs.push(row);
                    }
                }
            }
        }
        let lnull: Row = vec![Value::Null; l.cols.len()];
        let rnull: Row = vec![Value::Null; r.cols.len()];
        let out = match kind {
            JoinKind::Inner | JoinKind::Cross => Rel { cols, rows: pairs },
            JoinKind::Left | JoinKind::Right | JoinKind::Full => {
                let mut rows = pairs;
                if matches!(kind, JoinKind::Left | JoinKind::Full) {
                    for (i, lr) in l.rows.iter().enumerate() {
                        if !lm[i] {
                            let mut row = lr.clone();
                            row.extend(rnull.iter().cloned());
                            rows.push(row);
                        }
                    }
                }
                if matches!(kind, JoinKind::Right | JoinKind::Full) {
                    for (j, rr) in r.rows.iter().enumerate() {
                        if !rm[j] {
                            let mut row = lnull.clone();
                            row.extend(rr.iter().cloned());
                            rows.push(row);
                        }
                    }
                }
                Rel { cols, rows }
            }
            JoinKind::LeftSemi => Rel { cols: l.cols.clone(), rows: l.rows.iter().zip(&lm).filter(|(_, m)| **m).map(|(r, _)| r.clone()).collect() },
            JoinKind::LeftAnti => Rel { cols: l.cols.clone(), rows: l.rows.iter().zip(&lm).filter(|(_, m)| !**m).map(|(r, _)| r.clone()).collect() },
            JoinKind::RightSemi => Rel { cols: r.cols.clone(), rows: r.rows.iter().zip(&rm).filter(|(_, m)| **m).map(|(r, _)| r.clone()).collect() },
            JoinKind::RightAnti => Rel { cols: r.cols.clone(), rows: r.rows.iter().zip(&rm).filter(|(_, m)| !**m).map(|(r, _)| r.clone()).collect() },
        };
        if let JoinCond::Using(_) = cond {
            if !matches!(kind, JoinKind::Inner | JoinKind::Left | JoinKind::Right | JoinKind::Full) {
                self.unsupported("USING with this join type".into());
                return out;
            }
            // USING output: the merged key columns first (COALESCE(l, r), unqualified),
            // then the remaining left columns, then the remaining right columns
            let nl = l.cols.len();
            let mut ncols = vec![];
            for (a, _) in &using_pairs {
                ncols.push(ColMeta { rel: None, name: l.cols[*a].name.clone() });
            }
            for (i, c) in l.cols.iter().enumerate() {
                if !using_pairs.iter().any(|(a, _)| *a == i) {
                    ncols.push(c.clone());
                }
            }
            for (j, c) in r.cols.iter().enumerate() {
                if !using_pairs.iter().any(|(_, b)| *b == j) {
                    ncols.push(c.clone());
                }
            }
            let rows = out
                .rows
                .iter()
                .map(|row| {
                    let mut o = vec![];
                    for (a, b) in &using_pairs {
                        o.push(if row[*a].is_null() && !self.quirks.using_column_is_left { row[nl + *b].clone() } else { row[*a].clone() });
                    }
                    for i in 0..nl {
                        if !using_pairs.iter().any(|(a, _)| *a == i) {
                            o.push(row[i].clone());
                        }
                    }
                    for j in 0..r.cols.len() {
                        if !using_pairs.iter().any(|(_, b)| *b == j) {
                            o.push(row[nl + j].clone());
                        }
                    }
                    o
                })
                .collect();
            return Rel { cols: ncols, rows };
        }
        out
    }

    // ---------------------------------------------------------------- SELECT

    /// A scalar subquery that does not depend on the rows of its SELECT may be
    /// evaluated by the engine once, whatever the number of rows: if it yields
    /// more than one row (or touches a failing construct) the statement may
    /// fail even when no row ever reaches the expression.
    fn probe_uncorrelated_scalars(&self, sel: &Select, outer: Option<&Env>) {
        let mut subs: Vec<&Query> = vec![];
        let mut exprs: Vec<&Expr> = sel.items.iter().map(|i| &i.expr).collect();
        if let Some(w) = &sel.where_ {
            exprs.push(w);
        }
        if let Some(h) = &sel.having {
            exprs.push(h);
        }
        for e in exprs {
            e.walk(&mut |x| {
                if let Expr::ScalarSubquery(q) = x {
                    subs.push(&**q);
                }
            });
        }
        for q in subs {
            let saved_unsupported = self.flags.borrow().unsupported.clone();
            let saved_may_fail = self.flags.borrow().may_fail.clone();
            let saved_amb = self.flags.borrow().ambiguous.clone();
            self.flags.borrow_mut().unsupported = None;
            let rel = match outer {
                Some(o) => self.eval_query(q, Some(o)),
                None => self.eval_query(q, None),
            };
            let correlated = self.flags.borrow().unsupported.is_some();
            if correlated {
                let mut f = self.flags.borrow_mut();
                f.unsupported = saved_unsupported;
                f.may_fail = saved_may_fail;
                f.ambiguous = saved_amb;
            } else {
                self.flags.borrow_mut().unsupported = saved_unsupported;
                if rel.rows.len() > 1 {
                    self.may_fail("uncorrelated scalar subquery returns more than one row".into());
                }
            }
        }
    }

    fn item_name(it: &SelectItem) -> String {
        match (&it.alias, &it.expr) {
            (Some(a), _) => a.clone(),
            (None, Expr::Col { name, .. }) => name.clone(),
            (None, e) => crate::sqlmc::render::render_expr(e),
        }
    }

    /// Evaluate one SELECT; also returns, per output row, the values of the
    /// `order_by` expressions (resolved against output aliases first, then
    /// against the row's source scope).
    fn eval_select(&self, sel: &Select, order_by: &[OrderItem], outer: Option<&Env>) -> (Rel, Vec<Vec<Value>>) {
        let input = match &sel.from {
            Some(f) => self.eval_from(f, outer),
            None => Rel { cols: vec![], rows: vec![vec![]] },
        };
        if self.stopped() {
            return (Rel { cols: vec![], rows: vec![] }, vec![]);
        }
        self.probe_uncorrelated_scalars(sel, outer);
        // `*` expansion
        let items: Vec<SelectItem> = if sel.items.is_empty() {
            input.cols.iter().map(|c| SelectItem { expr: Expr::Col { rel: c.rel.clone(), name: c.name.clone() }, alias: None }).collect()
        } else {
            sel.items.clone()
        };
        let names: Vec<String> = items.iter().map(Self::item_name).collect();
        // WHERE
        let rows: Vec<Row> = match &sel.where_ {
            Some(p) if self.quirks.nested_in_subquery_two_valued => {
                fn conj<'a>(e: &'a Expr, out: &mut Vec<&'a Expr>) {
                    match e {
                        Expr::Bin(BinOp::And, l, r) => {
                            conj(l, out);
                            conj(r, out);
                        }
                        x => out.push(x),
                    }
                }
                let mut cs = vec![];
                conj(p, &mut cs);
                input
                    .rows
                    .iter()
                    .filter(|r| {
                        let env = Env::plain(&input.cols, r, outer);
                        cs.iter().all(|c| {
                            let nested = !matches!(c, Expr::InSubquery { .. });
                            let saved = self.two_valued_in.replace(nested);
                            let v = truth(&self.eval(c, &env)) == Some(true);
                            self.two_valued_in.set(saved);
                            v
                        })
                    })
                    .cloned()
                    .collect()
            }
            Some(p) => input.rows.iter().filter(|r| truth(&self.eval(p, &Env::plain(&input.cols, r, outer))) == Some(true)).cloned().collect(),
            None => input.rows.clone(),
        };
        let grouped = !matches!(sel.group_by, GroupBy::None)
            || sel.having.is_some()
            || items.iter().any(|i| i.expr.contains_agg())
            || order_by.iter().any(|o| o.expr.contains_agg());
        let has_window = items.iter().any(|i| i.expr.contains_window()) || order_by.iter().any(|o| o.expr.contains_window());

        // resolve one ORDER BY expression for an output row
        let order_key = |o: &OrderItem, out: &Row, env: &Env| -> Value {
            if let Expr::Lit(Value::Int(k)) = &o.expr {
                if *k >= 1 && (*k as usize) <= out.len() {
                    return out[*k as usize - 1].clone();
                }
            }
            if let Expr::Col { rel: None, name } = &o.expr {
                let hits: Vec<usize> = items.iter().enumerate().filter(|(_, i)| i.alias.as_deref() == Some(name.as_str())).map(|(k, _)| k).collect();
                if hits.len() == 1 {
                    return out[hits[0]].clone();
                }
            }
            if let Some(k) = items.iter().position(|i| i.expr == o.expr) {
                return out[k].clone();
            }
            self.eval(&o.expr, env)
        };

        let mut out_rows: Vec<Row> = vec![];
        let mut keys: Vec<Vec<Value>> = vec![];
        let mut don_keys: Vec<Vec<Value>> = vec![]; // DISTINCT ON keys
        let don: &[Expr] = match &sel.distinct {
            Distinct::On(es) => es,
            _ => &[],
        };

        if grouped {
            if has_window {
                self.unsupported("window functions over a grouped SELECT".into());
            }
            let sets: Vec<Vec<Expr>> = match &sel.group_by {
                GroupBy::None => vec![vec![]],
                GroupBy::Exprs(es) => vec![es.clone()],
                GroupBy::Rollup(es) => (0..=es.len()).rev().map(|k| es[..k].to_vec()).collect(),
                GroupBy::Cube(es) => {
                    let n = es.len();
                    (0..(1usize << n)).rev().map(|m| (0..n).filter(|i| (m >> (n - 1 - i)) & 1 == 1).map(|i| es[i].clone()).collect()).collect()
                }
                GroupBy::Sets(s) => s.clone(),
            };
            let mut all_keys: Vec<Expr> = vec![];
            for s in &sets {
                for e in s {
                    if !all_keys.contains(e) {
                        all_keys.push(e.clone());
                    }
                }
            }
            let explicit_sets = !matches!(sel.group_by, GroupBy::None | GroupBy::Exprs(_));
            let null_row: Row = vec![Value::Null; input.cols.len()];
            for set in &sets {
                let excluded: Vec<Expr> = all_keys.iter().filter(|e| !set.contains(e)).cloned().collect();
                // group rows by key, first-seen order
                let mut order: Vec<Vec<Value>> = vec![];
                let mut groups: BTreeMap<Vec<Value>, Vec<Row>> = BTreeMap::new();
                for r in &rows {
                    let env = Env::plain(&input.cols, r, outer);
                    let k: Vec<Value> = set.iter().map(|e| self.eval(e, &env)).collect();
                    if !groups.contains_key(&k) {
                        order.push(k.clone());
                    }
                    groups.entry(k).or_default().push(r.clone());
                }
                if set.is_empty() && rows.is_empty() {
                    if explicit_sets {
                        // the empty grouping set over empty input: PostgreSQL yields one
                        // row, engines that expand grouping sets per input row yield none
                        self.ambiguous("empty grouping set over empty input".into());
                    }
                    if matches!(sel.group_by, GroupBy::None) {
                        order.push(vec![]);
                        groups.insert(vec![], vec![]);
                    }
                }
                for k in &order {
                    let grows = &groups[k];
                    let rep: &Row = grows.first().unwrap_or(&null_row);
                    let g = GroupCtx { rows: grows, excluded: &excluded };
                    let env = Env { cols: &input.cols, row: rep, outer, group: Some(&g), win: None };
                    if let Some(h) = &sel.having {
                        if truth(&self.eval(h, &env)) != Some(true) {
                            continue;
                        }
                    }
                    let out: Row = items.iter().map(|i| self.eval(&i.expr, &env)).collect();
                    keys.push(order_by.iter().map(|o| order_key(o, &out, &env)).collect());
                    don_keys.push(don.iter().map(|e| self.eval(e, &env)).collect());
                    out_rows.push(out);
                }
            }
        } else {
            // window functions: pre-compute every distinct window expression
            let mut wexprs: Vec<Expr> = vec![];
            let mut collect = |e: &Expr| {
                e.walk(&mut |x| {
                    if matches!(x, Expr::Window { .. }) && !wexprs.contains(x) {
                        wexprs.push(x.clone());
                    }
                })
            };
            for i in &items {
                collect(&i.expr);
            }
            for o in order_by {
                collect(&o.expr);
            }
            let filtered = Rel { cols: input.cols.clone(), rows };
            let wctx = WinCtx { values: wexprs.iter().map(|w| self.eval_window(w, &filtered, outer)).collect(), exprs: wexprs };
            for (ri, r) in filtered.rows.iter().enumerate() {
                let env = Env { cols: &filtered.cols, row: r, outer, group: None, win: Some((&wctx, ri)) };
                let out: Row = items.iter().map(|i| self.eval(&i.expr, &env)).collect();
                keys.push(order_by.iter().map(|o| order_key(o, &out, &env)).collect());
                don_keys.push(don.iter().map(|e| self.eval(e, &env)).collect());
                out_rows.push(out);
            }
        }

        match &sel.distinct {
            Distinct::No => {}
            Distinct::All => {
                let mut seen = std::collections::BTreeSet::new();
                let mut r2 = vec![];
                let mut k2 = vec![];
                for (r, k) in out_rows.into_iter().zip(keys) {
                    if seen.insert(r.clone()) {
                        r2.push(r);
                        k2.push(k);
                    }
                }
                out_rows = r2;
                keys = k2;
            }
            Distinct::On(_) => {
                // first row of each DISTINCT ON group in ORDER BY order
                let mut idx: Vec<usize> = (0..out_rows.len()).collect();
                idx.sort_by(|a, b| order_cmp(&keys[*a], &keys[*b], order_by));
                let mut chosen: Vec<usize> = vec![];
                let mut seen: Vec<Vec<Value>> = vec![];
                for i in &idx {
                    if let Some(p) = seen.iter().position(|k| k == &don_keys[*i]) {
                        let first = chosen[p];
                        if order_cmp(&keys[first], &keys[*i], order_by) == Ordering::Equal && out_rows[first] != out_rows[*i] {
                            self.ambiguous("DISTINCT ON: the first row of a group is not determined by ORDER BY".into());
                        }
                    } else {
                        seen.push(don_keys[*i].clone());
                        chosen.push(*i);
                    }
                }
                let r2: Vec<Row> = chosen.iter().map(|i| out_rows[*i].clone()).collect();
                let k2: Vec<Vec<Value>> = chosen.iter().map(|i| keys[*i].clone()).collect();
                out_rows = r2;
                keys = k2;
            }
        }
        if out_rows.len() > ROW_CAP {
            self.unsupported("intermediate result too large".into());
        }
        *self.steps.borrow_mut() += out_rows.len() as u64;
        (Rel { cols: out_cols(&names), rows: out_rows }, keys)
    }
}
