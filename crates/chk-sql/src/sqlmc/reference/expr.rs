//! Row-at-a-time expression evaluation with SQL three-valued logic.
use super::{ColMeta, Interp};
use crate::sqlmc::ast::*;
use crate::sqlmc::value::{ColType, Row, Value, sql_cmp};
use std::cmp::Ordering;

/// Rows of the current group (aggregate context).
pub struct GroupCtx<'e> {
    pub rows: &'e [Row],
    /// grouping expressions *not* in the current grouping set: they evaluate to NULL
    pub excluded: &'e [Expr],
}

/// Pre-computed window function values for the rows of the current SELECT.
pub struct WinCtx {
    pub exprs: Vec<Expr>,
    /// values[k][row] = value of exprs[k] on input row `row`
    pub values: Vec<Vec<Value>>,
}

/// Evaluation scope: current row + chain of outer rows (correlation).
#[derive(Clone, Copy)]
pub struct Env<'e> {
    pub cols: &'e [ColMeta],
    pub row: &'e [Value],
    pub outer: Option<&'e Env<'e>>,
    pub group: Option<&'e GroupCtx<'e>>,
    pub win: Option<(&'e WinCtx, usize)>,
}

impl<'e> Env<'e> {
    pub fn plain(cols: &'e [ColMeta], row: &'e [Value], outer: Option<&'e Env<'e>>) -> Env<'e> {
        Env { cols, row, outer, group: None, win: None }
    }
}

pub fn truth(v: &Value) -> Option<bool> {
    match v {
        Value::Bool(b) => Some(*b),
        _ => None,
    }
}

fn tv(b: Option<bool>) -> Value {
    match b {
        Some(x) => Value::Bool(x),
        None => Value::Null,
    }
}

fn and3(a: Option<bool>, b: Option<bool>) -> Option<bool> {
    match (a, b) {
        (Some(false), _) | (_, Some(false)) => Some(false),
        (Some(true), Some(true)) => Some(true),
        _ => None,
    }
}
fn or3(a: Option<bool>, b: Option<bool>) -> Option<bool> {
    match (a, b) {
        (Some(true), _) | (_, Some(true)) => Some(true),
        (Some(false), Some(false)) => Some(false),
        _ => None,
    }
}

/// SQL `a op b` for comparison operators (3VL).
pub fn compare(op: BinOp, a: &Value, b: &Value) -> Option<bool> {
    let o = sql_cmp(a, b)?;
    Some(match op {
        BinOp::Eq => o == Ordering::Equal,
        BinOp::NotEq => o != Ordering::Equal,
        BinOp::Lt => o == Ordering::Less,
        BinOp::LtEq => o != Ordering::Greater,
        BinOp::Gt => o == Ordering::Greater,
        BinOp::GtEq => o != Ordering::Less,
        _ => return None,
    })
}

/// `a IS NOT DISTINCT FROM b`
pub fn not_distinct(a: &Value, b: &Value) -> bool {
    match (a.is_null(), b.is_null()) {
        (true, true) => true,
        (true, false) | (false, true) => false,
        _ => sql_cmp(a, b) == Some(Ordering::Equal),
    }
}

/// `%` = any run, `_` = one character; no escape character.
pub fn like_match(s: &str, p: &str) -> bool {
    fn rec(s: &[char], p: &[char]) -> bool {
        match p.first() {
            None => s.is_empty(),
            Some('%') => (0..=s.len()).any(|k| rec(&s[k..], &p[1..])),
            Some('_') => !s.is_empty() && rec(&s[1..], &p[1..]),
            Some(c) => s.first() == Some(c) && rec(&s[1..], &p[1..]),
        }
    }
    rec(&s.chars().collect::<Vec<_>>(), &p.chars().collect::<Vec<_>>())
}

/// Order comparator for ORDER BY keys (total): honours DESC and NULLS FIRST/LAST.
pub fn order_cmp(a: &[Value], b: &[Value], items: &[OrderItem]) -> Ordering {
    for (i, it) in items.iter().enumerate() {
        let (x, y) = (&a[i], &b[i]);
        let o = match (x.is_null(), y.is_null()) {
            (true, true) => Ordering::Equal,
            (true, false) => {
                if it.nulls_first_effective() { Ordering::Less } else { Ordering::Greater }
            }
            (false, true) => {
                if it.nulls_first_effective() { Ordering::Greater } else { Ordering::Less }
            }
            (false, false) => {
                let o = sql_cmp(x, y).unwrap_or_else(|| x.cmp(y));
                if it.desc { o.reverse() } else { o }
            }
        };
        if o != Ordering::Equal {
            return o;
        }
    }
    Ordering::Equal
}

impl<'d> Interp<'d> {
    fn lookup(&self, env: &Env, rel: &Option<String>, name: &str) -> Value {
        let mut cur = Some(env);
        while let Some(e) = cur {
            let mut hit: Option<usize> = None;
            let mut n = 0;
            for (i, c) in e.cols.iter().enumerate() {
                let m = c.name == name
                    && match rel {
                        Some(r) => c.rel.as_deref() == Some(r.as_str()),
                        None => true,
                    };
                if m {
                    n += 1;
                    if hit.is_none() {
                        hit = Some(i);
                    }
                }
            }
            if n > 1 {
                self.unsupported(format!("ambiguous column reference {rel:?}.{name}"));
                return Value::Null;
            }
            if let Some(i) = hit {
                // a correlated reference to a grouping key excluded from the current grouping set
                if let Some(g) = e.group {
                    let me = Expr::Col { rel: rel.clone(), name: name.to_string() };
                    if g.excluded.contains(&me) {
                        return Value::Null;
                    }
                }
                return e.row.get(i).cloned().unwrap_or(Value::Null);
            }
            cur = e.outer;
        }
        self.unsupported(format!("unresolved column {rel:?}.{name}"));
        Value::Null
    }

    pub fn eval(&self, e: &Expr, env: &Env) -> Value {
        if let Some(g) = env.group {
            if !g.excluded.is_empty() && g.excluded.contains(e) {
                return Value::Null;
            }
        }
        match e {
            Expr::Col { rel, name } => self.lookup(env, rel, name),
            Expr::Lit(v) => v.clone(),
            Expr::Bin(op, l, r) => {
                let a = self.eval(l, env);
                let b = self.eval(r, env);
                self.binop(*op, &a, &b)
            }
            Expr::Not(x) => tv(truth(&self.eval(x, env)).map(|b| !b)),
            Expr::Neg(x) => match self.eval(x, env) {
                Value::Int(i) => Value::Int(-i),
                Value::Float(f) => Value::Float(-f),
                _ => Value::Null,
            },
            Expr::Is { e, test, negated } => {
                let v = self.eval(e, env);
                let r = match test {
                    IsTest::Null => v.is_null(),
                    IsTest::True => truth(&v) == Some(true),
                    IsTest::False => truth(&v) == Some(false),
                    IsTest::Unknown => truth(&v).is_none(),
                };
                Value::Bool(r != *negated)
            }
            Expr::InList { e, list, negated } => {
                let v = self.eval(e, env);
                let vals: Vec<Value> = list.iter().map(|x| self.eval(x, env)).collect();
                let r = in_values(&v, &vals);
                tv(r.map(|b| b != *negated))
            }
            Expr::Between { e, lo, hi, negated } => {
                let v = self.eval(e, env);
                let l = self.eval(lo, env);
                let h = self.eval(hi, env);
                let r = and3(compare(BinOp::GtEq, &v, &l), compare(BinOp::LtEq, &v, &h));
                tv(r.map(|b| b != *negated))
            }
            Expr::Like { e, pattern, negated } => match self.eval(e, env) {
                Value::Text(s) => Value::Bool(like_match(&s, pattern) != *negated),
                _ => Value::Null,
            },
            Expr::Case { operand, whens, else_ } => {
                // every branch is evaluated so that a possible runtime failure in
                // a branch not taken still marks the case "may fail"
                let opv = operand.as_ref().map(|o| self.eval(o, env));
                let mut result: Option<Value> = None;
                for (w, t) in whens {
                    let wv = self.eval(w, env);
                    let tvv = self.eval(t, env);
                    let taken = match &opv {
                        Some(o) => compare(BinOp::Eq, o, &wv) == Some(true),
                        None => truth(&wv) == Some(true),
                    };
                    if taken && result.is_none() {
                        result = Some(tvv);
                    }
                }
                let ev = else_.as_ref().map(|x| self.eval(x, env));
                result.unwrap_or(ev.unwrap_or(Value::Null))
            }
            Expr::Func(f, args) => {
                let vals: Vec<Value> = args.iter().map(|x| self.eval(x, env)).collect();
                self.func(*f, &vals)
            }
            Expr::Cast(x, t) => {
                let v = self.eval(x, env);
                self.cast(&v, *t)
            }
            Expr::Agg { f, arg, distinct, filter, order_by } => match env.group {
                Some(g) => self.aggregate(*f, arg.as_deref(), *distinct, filter.as_deref(), order_by, g.rows, env),
                None => {
                    self.unsupported("aggregate outside a grouped context".into());
                    Value::Null
                }
            },
            Expr::Window { .. } => match env.win {
                Some((w, row)) => match w.exprs.iter().position(|x| x == e) {
                    Some(k) => w.values[k][row].clone(),
                    None => {
                        self.unsupported("window expression not pre-computed".into());
                        Value::Null
                    }
                },
                None => {
                    self.unsupported("window function outside a SELECT list".into());
                    Value::Null
                }
            },
            Expr::ScalarSubquery(q) => {
                let rel = self.eval_subquery(q, env);
                if rel.cols.len() != 1 {
                    self.unsupported("scalar subquery with != 1 column".into());
                    return Value::Null;
                }
                match rel.rows.len() {
                    0 => Value::Null,
                    1 => rel.rows[0][0].clone(),
                    _ => {
                        self.may_fail("scalar subquery returned more than one row".into());
                        Value::Null
                    }
                }
            }
            Expr::Exists { q, negated } => {
                let rel = self.eval_subquery(q, env);
                Value::Bool(rel.rows.is_empty() == *negated)
            }
            Expr::InSubquery { e, q, negated } => {
                let v = self.eval(e, env);
                if *negated && self.quirks.not_in_null_check_ignores_correlation {
                    if let Some(r) = self.quirk_not_in(&v, q, env) {
                        return r;
                    }
                }
                let rel = self.eval_subquery(q, env);
                if rel.cols.len() != 1 {
                    self.unsupported("IN subquery with != 1 column".into());
                    return Value::Null;
                }
                let vals: Vec<Value> = rel.rows.iter().map(|r| r[0].clone()).collect();
                if self.two_valued_in.get() {
                    return Value::Bool((in_values(&v, &vals) == Some(true)) != *negated);
                }
                tv(in_values(&v, &vals).map(|b| b != *negated))
            }
            Expr::Quantified { e, op, all, q } => {
                let v = self.eval(e, env);
                let rel = self.eval_subquery(q, env);
                if rel.cols.len() != 1 {
                    self.unsupported("quantified subquery with != 1 column".into());
                    return Value::Null;
                }
                let mut acc = if *all { Some(true) } else { Some(false) };
                for r in &rel.rows {
                    let c = compare(*op, &v, &r[0]);
                    acc = if *all { and3(acc, c) } else { or3(acc, c) };
                }
                tv(acc)
            }
        }
    }

    pub fn binop(&self, op: BinOp, a: &Value, b: &Value) -> Value {
        match op {
            BinOp::And => tv(and3(truth(a), truth(b))),
            BinOp::Or => tv(or3(truth(a), truth(b))),
            BinOp::IsDistinctFrom => Value::Bool(!not_distinct(a, b)),
            BinOp::IsNotDistinctFrom => Value::Bool(not_distinct(a, b)),
            BinOp::Eq | BinOp::NotEq | BinOp::Lt | BinOp::LtEq | BinOp::Gt | BinOp::GtEq => tv(compare(op, a, b)),
            BinOp::Concat => match (a, b) {
                (Value::Null, _) | (_, Value::Null) => Value::Null,
                _ => Value::Text(format!("{}{}", to_text(a), to_text(b))),
            },
            BinOp::Add | BinOp::Sub | BinOp::Mul | BinOp::Div | BinOp::Mod => match (a, b) {
                (Value::Null, _) | (_, Value::Null) => {
                    // NULL / 0 : the engine may evaluate the division on the zero first
                    if matches!(op, BinOp::Div | BinOp::Mod) && matches!(b, Value::Int(0)) {
                        self.may_fail("integer division by zero (NULL dividend)".into());
                    }
                    Value::Null
                }
                (Value::Int(x), Value::Int(y)) => match op {
                    BinOp::Add => x.checked_add(*y).map(Value::Int).unwrap_or_else(|| self.overflow()),
                    BinOp::Sub => x.checked_sub(*y).map(Value::Int).unwrap_or_else(|| self.overflow()),
                    BinOp::Mul => x.checked_mul(*y).map(Value::Int).unwrap_or_else(|| self.overflow()),
                    BinOp::Div | BinOp::Mod => {
                        if *y == 0 {
                            self.may_fail("integer division by zero".into());
                            Value::Null
                        } else if op == BinOp::Div {
                            Value::Int(x.wrapping_div(*y))
                        } else {
                            Value::Int(x.wrapping_rem(*y))
                        }
                    }
                    _ => unreachable!(),
                },
                _ => match (a.as_f64(), b.as_f64()) {
                    (Some(x), Some(y)) => Value::Float(match op {
                        BinOp::Add => x + y,
                        BinOp::Sub => x - y,
                        BinOp::Mul => x * y,
                        BinOp::Div => x / y,
                        BinOp::Mod => x % y,
                        _ => unreachable!(),
                    }),
                    _ => {
                        self.unsupported(format!("arithmetic on non-numeric values {a:?} {b:?}"));
                        Value::Null
                    }
                },
            },
        }
    }

    fn overflow(&self) -> Value {
        self.may_fail("integer overflow".into());
        Value::Null
    }

    fn func(&self, f: Func, v: &[Value]) -> Value {
        match f {
            Func::Coalesce => v.iter().find(|x| !x.is_null()).cloned().unwrap_or(Value::Null),
            Func::NullIf => {
                if compare(BinOp::Eq, &v[0], &v[1]) == Some(true) { Value::Null } else { v[0].clone() }
            }
            Func::Abs => match &v[0] {
                Value::Int(i) => Value::Int(i.abs()),
                Value::Float(x) => Value::Float(x.abs()),
                _ => Value::Null,
            },
            Func::Upper => match &v[0] {
                Value::Text(s) => Value::Text(s.to_uppercase()),
                _ => Value::Null,
            },
            Func::Lower => match &v[0] {
                Value::Text(s) => Value::Text(s.to_lowercase()),
                _ => Value::Null,
            },
            Func::ConcatFn => Value::Text(v.iter().filter(|x| !x.is_null()).map(to_text).collect::<Vec<_>>().join("")),
            Func::Length => match &v[0] {
                Value::Text(s) => Value::Int(s.chars().count() as i64),
                _ => Value::Null,
            },
            Func::Greatest | Func::Least => {
                let mut best: Option<&Value> = None;
                for x in v.iter().filter(|x| !x.is_null()) {
                    best = match best {
                        None => Some(x),
                        Some(b) => {
                            let o = sql_cmp(x, b).unwrap_or(Ordering::Equal);
                            if (f == Func::Greatest && o == Ordering::Greater) || (f == Func::Least && o == Ordering::Less) { Some(x) } else { Some(b) }
                        }
                    };
                }
                best.cloned().unwrap_or(Value::Null)
            }
        }
    }

    fn cast(&self, v: &Value, t: ColType) -> Value {
        match (v, t) {
            (Value::Null, _) => Value::Null,
            (Value::Int(i), ColType::Int) => Value::Int(*i),
            (Value::Int(i), ColType::Float) => Value::Float(*i as f64),
            (Value::Int(i), ColType::Text) => Value::Text(i.to_string()),
            (Value::Int(i), ColType::Bool) => Value::Bool(*i != 0),
            (Value::Float(f), ColType::Float) => Value::Float(*f),
            (Value::Float(f), ColType::Int) => Value::Int(f.trunc() as i64),
            (Value::Bool(b), ColType::Int) => Value::Int(*b as i64),
            (Value::Bool(b), ColType::Bool) => Value::Bool(*b),
            (Value::Text(s), ColType::Text) => Value::Text(s.clone()),
            (Value::Text(s), ColType::Int) => match s.trim().parse::<i64>() {
                Ok(i) => Value::Int(i),
                Err(_) => {
                    self.may_fail(format!("cannot cast '{s}' to INT"));
                    Value::Null
                }
            },
            _ => {
                self.unsupported(format!("cast {v:?} -> {t:?} not modelled"));
                Value::Null
            }
        }
    }

    /// Aggregate `f` over `rows` (each evaluated in `env`'s column scope).
    #[allow(clippy::too_many_arguments)]
    pub fn aggregate(&self, f: AggFn, arg: Option<&Expr>, distinct: bool, filter: Option<&Expr>, order_by: &[OrderItem], rows: &[Row], env: &Env) -> Value {
        // (argument value, order key) of every row passing the filter
        let mut vals: Vec<(Value, Vec<Value>)> = vec![];
        for r in rows {
            let renv = Env { cols: env.cols, row: r, outer: env.outer, group: None, win: None };
            if let Some(p) = filter {
                if truth(&self.eval(p, &renv)) != Some(true) {
                    continue;
                }
            }
            let v = match arg {
                Some(a) => self.eval(a, &renv),
                None => Value::Bool(true),
            };
            let k: Vec<Value> = order_by.iter().map(|o| self.eval(&o.expr, &renv)).collect();
            vals.push((v, k));
        }
        if !order_by.is_empty() {
            vals.sort_by(|a, b| order_cmp(&a.1, &b.1, order_by));
            // ties in the order key with different argument values: result depends on the engine's choice
            for w in vals.windows(2) {
                if order_cmp(&w[0].1, &w[1].1, order_by) == Ordering::Equal && w[0].0 != w[1].0 {
                    if matches!(f, AggFn::ArrayAgg | AggFn::StringAgg | AggFn::FirstValue | AggFn::LastValue) {
                        self.ambiguous("ordered aggregate over tied order keys".into());
                    }
                }
            }
        } else if matches!(f, AggFn::ArrayAgg | AggFn::StringAgg | AggFn::FirstValue | AggFn::LastValue) {
            let distinct_vals: std::collections::BTreeSet<&Value> = vals.iter().map(|x| &x.0).collect();
            if distinct_vals.len() > 1 {
                self.ambiguous("order-sensitive aggregate without ORDER BY".into());
            }
        }
        let mut xs: Vec<Value> = vals.into_iter().map(|x| x.0).collect();
        if distinct {
            let mut seen = std::collections::BTreeSet::new();
            xs.retain(|v| seen.insert(v.clone()));
        }
        let nn: Vec<&Value> = xs.iter().filter(|v| !v.is_null()).collect();
        match f {
            AggFn::Count => match arg {
                None => Value::Int(xs.len() as i64),
                Some(_) => Value::Int(nn.len() as i64),
            },
            AggFn::Sum => {
                if nn.is_empty() {
                    return Value::Null;
                }
                if nn.iter().all(|v| matches!(v, Value::Int(_))) {
                    let mut s: i64 = 0;
                    for v in &nn {
                        if let Value::Int(i) = v {
                            s = match s.checked_add(*i) {
                                Some(x) => x,
                                None => return self.overflow(),
                            };
                        }
                    }
                    Value::Int(s)
                } else {
                    Value::Float(nn.iter().filter_map(|v| v.as_f64()).sum())
                }
            }
            AggFn::Avg => {
                if nn.is_empty() {
                    return Value::Null;
                }
                let s: f64 = nn.iter().filter_map(|v| v.as_f64()).sum();
                Value::Float(s / nn.len() as f64)
            }
            AggFn::Min | AggFn::Max => {
                let mut best: Option<&Value> = None;
                for v in nn {
                    best = match best {
                        None => Some(v),
                        Some(b) => {
                            let o = sql_cmp(v, b).unwrap_or(Ordering::Equal);
                            if (f == AggFn::Max && o == Ordering::Greater) || (f == AggFn::Min && o == Ordering::Less) { Some(v) } else { Some(b) }
                        }
                    };
                }
                best.cloned().unwrap_or(Value::Null)
            }
            AggFn::BoolAnd => {
                if nn.is_empty() { Value::Null } else { Value::Bool(nn.iter().all(|v| truth(v) == Some(true))) }
            }
            AggFn::BoolOr => {
                if nn.is_empty() { Value::Null } else { Value::Bool(nn.iter().any(|v| truth(v) == Some(true))) }
            }
            AggFn::ArrayAgg => {
                if xs.is_empty() { Value::Null } else { Value::List(xs) }
            }
            AggFn::StringAgg => {
                if nn.is_empty() { Value::Null } else { Value::Text(nn.iter().map(|v| to_text(v)).collect::<Vec<_>>().join(",")) }
            }
            AggFn::FirstValue => xs.first().cloned().unwrap_or(Value::Null),
            AggFn::LastValue => xs.last().cloned().unwrap_or(Value::Null),
        }
    }
}

/// `v IN (vals)` with NULL semantics.
pub fn in_values(v: &Value, vals: &[Value]) -> Option<bool> {
    if vals.is_empty() {
        return Some(false);
    }
    let mut acc = Some(false);
    for x in vals {
        acc = or3(acc, compare(BinOp::Eq, v, x));
    }
    acc
}

pub fn to_text(v: &Value) -> String {
    match v {
        Value::Text(s) => s.clone(),
        Value::Int(i) => i.to_string(),
        Value::Float(f) => format!("{f}"),
        Value::Bool(b) => b.to_string(),
        other => other.sql_literal(),
    }
}
