//! Window functions by per-row frame evaluation.
use super::expr::{Env, order_cmp};
use super::{Interp, Rel};
use crate::sqlmc::ast::*;
use crate::sqlmc::value::{Row, Value};
use std::cmp::Ordering;
use std::collections::BTreeMap;

impl<'d> Interp<'d> {
    /// Value of window expression `w` for every row of `input` (same indexing).
    pub(crate) fn eval_window(&self, w: &Expr, input: &Rel, outer: Option<&Env>) -> Vec<Value> {
        let (f, args, partition_by, order_by, frame) = match w {
            Expr::Window { f, args, partition_by, order_by, frame } => (*f, args, partition_by, order_by, frame),
            _ => unreachable!(),
        };
        let n = input.rows.len();
        let mut out = vec![Value::Null; n];
        // partition
        let mut parts: BTreeMap<Vec<Value>, Vec<usize>> = BTreeMap::new();
        let mut okeys: Vec<Vec<Value>> = Vec::with_capacity(n);
        for (i, r) in input.rows.iter().enumerate() {
            let env = Env::plain(&input.cols, r, outer);
            let pk: Vec<Value> = partition_by.iter().map(|e| self.eval(e, &env)).collect();
            parts.entry(pk).or_default().push(i);
            okeys.push(order_by.iter().map(|o| self.eval(&o.expr, &env)).collect());
        }
        let eval_arg = |k: usize, row: usize| -> Value {
            match args.get(k) {
                Some(e) => self.eval(e, &Env::plain(&input.cols, &input.rows[row], outer)),
                None => Value::Null,
            }
        };
        let lit_arg = |k: usize, default: i64| -> i64 {
            match args.get(k) {
                Some(Expr::Lit(Value::Int(i))) => *i,
                Some(Expr::Neg(x)) => match &**x {
                    Expr::Lit(Value::Int(i)) => -*i,
                    _ => default,
                },
                None => default,
                _ => {
                    self.unsupported("non-literal window function parameter".into());
                    default
                }
            }
        };

        for (_, members) in parts {
            let mut idx = members.clone();
            idx.sort_by(|a, b| order_cmp(&okeys[*a], &okeys[*b], order_by));
            let m = idx.len();
            // peer groups: peer_start[p], peer_end[p] (exclusive), group number
            let mut gno = vec![0usize; m];
            let mut gstart = vec![0usize; m];
            let mut gend = vec![0usize; m];
            let mut s = 0;
            let mut g = 0;
            for p in 0..m {
                if p > 0 && order_cmp(&okeys[idx[p - 1]], &okeys[idx[p]], order_by) != Ordering::Equal {
                    for q in s..p {
                        gend[q] = p;
                    }
                    s = p;
                    g += 1;
                }
                gno[p] = g;
                gstart[p] = s;
            }
            for q in s..m {
                gend[q] = m;
            }
            let ngroups = if m == 0 { 0 } else { g + 1 };
            // does some peer group hold rows that differ?  Then anything that
            // depends on the order *inside* a peer group is the engine's choice.
            let tied_differently = (0..m).any(|p| p > gstart[p] && input.rows[idx[p]] != input.rows[idx[gstart[p]]]);
            let order_sensitive = |what: &str| {
                if tied_differently {
                    self.ambiguous(format!("{what} over tied, different peer rows"));
                }
            };

            // frame [lo, hi) in sorted positions for row at position p
            let frame_of = |p: usize| -> (usize, usize) {
                let fr = match frame {
                    Some(fr) => *fr,
                    None => {
                        return if order_by.is_empty() { (0, m) } else { (0, gend[p]) };
                    }
                };
                match fr.units {
                    FrameUnits::Rows => {
                        let lo = match fr.start {
                            Bound::UnboundedPreceding => 0,
                            Bound::Preceding(k) => p.saturating_sub(k as usize),
                            Bound::CurrentRow => p,
                            Bound::Following(k) => (p + k as usize).min(m),
                            Bound::UnboundedFollowing => m,
                        };
                        let hi = match fr.end {
                            Bound::UnboundedPreceding => 0,
                            Bound::Preceding(k) => (p + 1).saturating_sub(k as usize),
                            Bound::CurrentRow => p + 1,
                            Bound::Following(k) => (p + 1 + k as usize).min(m),
                            Bound::UnboundedFollowing => m,
                        };
                        (lo, hi.max(lo))
                    }
                    FrameUnits::Groups => {
                        let gi = gno[p] as i64;
                        let first_of = |g: i64| -> usize {
                            if g <= 0 {
                                0
                            } else if g as usize >= ngroups {
                                m
                            } else {
                                (0..m).find(|q| gno[*q] == g as usize).unwrap_or(m)
                            }
                        };
                        let lo = match fr.start {
                            Bound::UnboundedPreceding => 0,
                            Bound::Preceding(k) => first_of(gi - k),
                            Bound::CurrentRow => gstart[p],
                            Bound::Following(k) => first_of(gi + k),
                            Bound::UnboundedFollowing => m,
                        };
                        let hi = match fr.end {
                            Bound::UnboundedPreceding => 0,
                            Bound::Preceding(k) => {
                                if gi - k < 0 { 0 } else { first_of(gi - k + 1) }
                            }
                            Bound::CurrentRow => gend[p],
                            Bound::Following(k) => first_of(gi + k + 1),
                            Bound::UnboundedFollowing => m,
                        };
                        (lo, hi.max(lo))
                    }
                    FrameUnits::Range => {
                        let needs_offset = matches!(fr.start, Bound::Preceding(_) | Bound::Following(_)) || matches!(fr.end, Bound::Preceding(_) | Bound::Following(_));
                        if !needs_offset {
                            let lo = match fr.start {
                                Bound::UnboundedPreceding => 0,
                                Bound::CurrentRow => gstart[p],
                                _ => m,
                            };
                            let hi = match fr.end {
                                Bound::UnboundedFollowing => m,
                                Bound::CurrentRow => gend[p],
                                _ => 0,
                            };
                            return (lo, hi.max(lo));
                        }
                        if order_by.len() != 1 {
                            self.unsupported("RANGE offset frame needs exactly one ORDER BY key".into());
                            return (0, m);
                        }
                        let desc = order_by[0].desc;
                        let cur = &okeys[idx[p]][0];
                        if cur.is_null() {
                            // NULL keys: offsets do not move; peers only (unbounded sides still extend)
                            let lo = if fr.start == Bound::UnboundedPreceding { 0 } else { gstart[p] };
                            let hi = if fr.end == Bound::UnboundedFollowing { m } else { gend[p] };
                            return (lo, hi);
                        }
                        let curf = cur.as_f64().unwrap_or(0.0);
                        // value bounds in *sort direction*: a row q is inside iff
                        // start_v <= dir(key_q) <= end_v where dir flips for DESC
                        let dir = |v: f64| if desc { -v } else { v };
                        let c = dir(curf);
                        let start_v: Option<f64> = match fr.start {
                            Bound::UnboundedPreceding => None,
                            Bound::Preceding(k) => Some(c - k as f64),
                            Bound::CurrentRow => Some(c),
                            Bound::Following(k) => Some(c + k as f64),
                            Bound::UnboundedFollowing => Some(f64::INFINITY),
                        };
                        let end_v: Option<f64> = match fr.end {
                            Bound::UnboundedFollowing => None,
                            Bound::Preceding(k) => Some(c - k as f64),
                            Bound::CurrentRow => Some(c),
                            Bound::Following(k) => Some(c + k as f64),
                            Bound::UnboundedPreceding => Some(f64::NEG_INFINITY),
                        };
                        // NULL-keyed rows belong to the frame only through an UNBOUNDED side
                        let nulls_first = order_by[0].nulls_first_effective();
                        let inside = |q: usize| -> bool {
                            let k = &okeys[idx[q]][0];
                            if k.is_null() {
                                return if nulls_first { start_v.is_none() } else { end_v.is_none() };
                            }
                            let v = dir(k.as_f64().unwrap_or(0.0));
                            start_v.map(|s| v >= s).unwrap_or(true) && end_v.map(|e| v <= e).unwrap_or(true)
                        };
                        let lo = (0..m).find(|q| inside(*q)).unwrap_or(m);
                        let hi = (0..m).rev().find(|q| inside(*q)).map(|q| q + 1).unwrap_or(lo);
                        (lo, hi.max(lo))
                    }
                }
            };
            let rows_frame = matches!(frame, Some(fr) if fr.units == FrameUnits::Rows
                && !(fr.start == Bound::UnboundedPreceding && fr.end == Bound::UnboundedFollowing));

            for p in 0..m {
                let row = idx[p];
                let v = match f {
                    WinFn::RowNumber => {
                        order_sensitive("row_number()");
                        Value::Int(p as i64 + 1)
                    }
                    WinFn::Rank => Value::Int(gstart[p] as i64 + 1),
                    WinFn::DenseRank => Value::Int(gno[p] as i64 + 1),
                    WinFn::PercentRank => Value::Float(if m <= 1 { 0.0 } else { gstart[p] as f64 / (m - 1) as f64 }),
                    WinFn::CumeDist => Value::Float(gend[p] as f64 / m as f64),
                    WinFn::Ntile => {
                        order_sensitive("ntile()");
                        let k = lit_arg(0, 1).max(1) as usize;
                        // first (m % k) buckets hold (m / k + 1) rows
                        let (base, extra) = (m / k, m % k);
                        let big = extra * (base + 1);
                        let b = if p < big { p / (base + 1) } else if base == 0 { extra } else { extra + (p - big) / base };
                        Value::Int(b as i64 + 1)
                    }
                    WinFn::Lag | WinFn::Lead => {
                        order_sensitive("lag()/lead()");
                        let off = lit_arg(1, 1);
                        let target = if f == WinFn::Lag { p as i64 - off } else { p as i64 + off };
                        if target >= 0 && (target as usize) < m { eval_arg(0, idx[target as usize]) } else { eval_arg(2, row) }
                    }
                    WinFn::FirstValue | WinFn::LastValue | WinFn::NthValue => {
                        let (lo, hi) = frame_of(p);
                        if rows_frame {
                            order_sensitive("ROWS frame");
                        }
                        let pos: Option<usize> = match f {
                            WinFn::FirstValue => (lo < hi).then_some(lo),
                            WinFn::LastValue => (lo < hi).then(|| hi - 1),
                            _ => {
                                let k = lit_arg(1, 1);
                                (k >= 1 && lo + (k as usize) - 1 < hi).then(|| lo + k as usize - 1)
                            }
                        };
                        match pos {
                            None => Value::Null,
                            Some(q) => {
                                let v = eval_arg(0, idx[q]);
                                // the chosen position lies in a peer group whose members give different values
                                let (a, b) = (gstart[q], gend[q]);
                                if (a..b).any(|z| eval_arg(0, idx[z]) != v) {
                                    self.ambiguous("first/last/nth_value picks among tied peers".into());
                                }
                                v
                            }
                        }
                    }
                    WinFn::Agg(a) => {
                        let (lo, hi) = frame_of(p);
                        if rows_frame {
                            order_sensitive("ROWS frame");
                        }
                        let frows: Vec<Row> = (lo..hi).map(|q| input.rows[idx[q]].clone()).collect();
                        let env = Env::plain(&input.cols, &input.rows[row], outer);
                        if matches!(a, AggFn::ArrayAgg | AggFn::StringAgg | AggFn::FirstValue | AggFn::LastValue) {
                            self.unsupported("order-sensitive aggregate as window function".into());
                        }
                        self.aggregate(a, args.first(), false, None, &[], &frows, &env)
                    }
                };
                out[row] = v;
            }
        }
        out
    }
}
