//! Schema, value domains, the database enumerator DB(n, D) and the fixed list
//! of "rich" databases.
use super::value::{ColType, Row, Value};
use serde::{Deserialize, Serialize};

#[derive(Clone, Debug, PartialEq, Eq, Hash, Serialize, Deserialize)]
pub struct Table {
    pub name: String,
    pub cols: Vec<(String, ColType)>,
    pub rows: Vec<Row>,
}

/// A database = the three tables `t`, `u`, `w` (always all present, possibly
/// empty), in that order.  Other checks may add tables.
#[derive(Clone, Debug, PartialEq, Eq, Hash, Serialize, Deserialize)]
pub struct Database {
    pub tables: Vec<Table>,
}

impl Database {
    pub fn table(&self, name: &str) -> Option<&Table> {
        self.tables.iter().find(|t| t.name == name)
    }
    pub fn table_mut(&mut self, name: &str) -> Option<&mut Table> {
        self.tables.iter_mut().find(|t| t.name == name)
    }
    /// The schema with all tables empty.
    pub fn empty() -> Database {
        Database { tables: schema().into_iter().map(|(n, c)| Table { name: n, cols: c, rows: vec![] }).collect() }
    }
    pub fn with_rows(mut self, table: &str, rows: Vec<Row>) -> Database {
        self.table_mut(table).expect("unknown table").rows = rows;
        self
    }
    pub fn total_rows(&self) -> usize {
        self.tables.iter().map(|t| t.rows.len()).sum()
    }
    /// Short text form: `t=[(1,2)] u=[] w=[]`.
    pub fn show(&self) -> String {
        self.tables.iter().map(|t| format!("{}={}", t.name, super::value::show_rows(&t.rows))).collect::<Vec<_>>().join(" ")
    }
}

/// `t(a INT, b INT)`, `u(a INT, c TEXT)`, `w(x DOUBLE, f BOOLEAN, a INT)`, all nullable.
pub fn schema() -> Vec<(String, Vec<(String, ColType)>)> {
    vec![
        ("t".into(), vec![("a".into(), ColType::Int), ("b".into(), ColType::Int)]),
        ("u".into(), vec![("a".into(), ColType::Int), ("c".into(), ColType::Text)]),
        ("w".into(), vec![("x".into(), ColType::Float), ("f".into(), ColType::Bool), ("a".into(), ColType::Int)]),
    ]
}

pub fn table_cols(name: &str) -> Vec<(String, ColType)> {
    schema().into_iter().find(|(n, _)| n == name).map(|(_, c)| c).expect("unknown table")
}

/// Value domain D: the admissible cells per column class (NULL included).
#[derive(Clone, Debug, Serialize, Deserialize)]
pub struct Domain {
    pub ints: Vec<Value>,
    pub texts: Vec<Value>,
    pub floats: Vec<Value>,
    pub bools: Vec<Value>,
}

impl Domain {
    /// Quick tier: Int {NULL,1,2}, Text {NULL,'a','b'}, Float {NULL,0.5,2.5}, Bool {NULL,t,f}.
    pub fn quick() -> Domain {
        Domain {
            ints: vec![Value::Null, Value::Int(1), Value::Int(2)],
            texts: vec![Value::Null, Value::text("a"), Value::text("b")],
            floats: vec![Value::Null, Value::Float(0.5), Value::Float(2.5)],
            bools: vec![Value::Null, Value::Bool(false), Value::Bool(true)],
        }
    }
    /// Thorough tier: Int {NULL,1,2,3}, Text {NULL,'','a','b'}, Float {NULL,0.5,1.0,2.5}, Bool {NULL,t,f}.
    pub fn thorough() -> Domain {
        Domain {
            ints: vec![Value::Null, Value::Int(1), Value::Int(2), Value::Int(3)],
            texts: vec![Value::Null, Value::text(""), Value::text("a"), Value::text("b")],
            floats: vec![Value::Null, Value::Float(0.5), Value::Float(1.0), Value::Float(2.5)],
            bools: vec![Value::Null, Value::Bool(false), Value::Bool(true)],
        }
    }
    pub fn of(&self, t: ColType) -> &[Value] {
        match t {
            ColType::Int => &self.ints,
            ColType::Text => &self.texts,
            ColType::Float => &self.floats,
            ColType::Bool => &self.bools,
            _ => &[],
        }
    }
}

/// All distinct rows of a table over the domain, in canonical order.
pub fn all_rows(cols: &[(String, ColType)], d: &Domain) -> Vec<Row> {
    let mut rows: Vec<Row> = vec![vec![]];
    for (_, t) in cols {
        let mut next = vec![];
        for r in &rows {
            for v in d.of(*t) {
                let mut r2 = r.clone();
                r2.push(v.clone());
                next.push(r2);
            }
        }
        rows = next;
    }
    rows
}

/// All instances of one table with at most `n` rows over `d`, as canonical
/// (sorted) multisets of rows, smallest first.
pub fn table_instances(name: &str, n: usize, d: &Domain) -> Vec<Vec<Row>> {
    let cols = table_cols(name);
    let rows = all_rows(&cols, d);
    mc_core::enumerate::multisets(&rows, 0, n)
}

/// DB(n, D) restricted to the named tables: every combination of instances
/// (`sizes[i]` = max rows of `tables[i]`); other tables stay empty.  The
/// callback receives the database; enumeration is smallest-first per table,
/// last table fastest.
pub fn for_each_db(tables: &[&str], sizes: &[usize], d: &Domain, mut f: impl FnMut(Database)) {
    let inst: Vec<Vec<Vec<Row>>> = tables.iter().zip(sizes).map(|(t, n)| table_instances(t, *n, d)).collect();
    let dims: Vec<usize> = inst.iter().map(|i| i.len()).collect();
    mc_core::enumerate::product(&dims, |idx| {
        let mut db = Database::empty();
        for (k, t) in tables.iter().enumerate() {
            db.table_mut(t).unwrap().rows = inst[k][idx[k]].clone();
        }
        f(db);
    });
}

/// Like [`for_each_db`] with an additional bound on the total number of rows
/// over the named tables.
pub fn for_each_db_bounded(tables: &[&str], sizes: &[usize], total_max: usize, d: &Domain, mut f: impl FnMut(Database)) {
    let inst: Vec<Vec<Vec<Row>>> = tables.iter().zip(sizes).map(|(t, n)| table_instances(t, *n, d)).collect();
    let dims: Vec<usize> = inst.iter().map(|i| i.len()).collect();
    mc_core::enumerate::product(&dims, |idx| {
        let total: usize = idx.iter().enumerate().map(|(k, i)| inst[k][*i].len()).sum();
        if total > total_max {
            return;
        }
        let mut db = Database::empty();
        for (k, t) in tables.iter().enumerate() {
            db.table_mut(t).unwrap().rows = inst[k][idx[k]].clone();
        }
        f(db);
    });
}

/// Number of databases `for_each_db_bounded` would produce.
pub fn count_dbs_bounded(tables: &[&str], sizes: &[usize], total_max: usize, d: &Domain) -> usize {
    // per table: number of instances with exactly k rows
    let per: Vec<Vec<usize>> = tables
        .iter()
        .zip(sizes)
        .map(|(t, n)| {
            let mut c = vec![0usize; n + 1];
            for i in table_instances(t, *n, d) {
                c[i.len()] += 1;
            }
            c
        })
        .collect();
    let mut acc: Vec<usize> = vec![1]; // acc[r] = ways to have r rows so far
    for c in per {
        let mut next = vec![0usize; acc.len() + c.len() - 1];
        for (r, a) in acc.iter().enumerate() {
            for (k, x) in c.iter().enumerate() {
                next[r + k] += a * x;
            }
        }
        acc = next;
    }
    acc.iter().enumerate().filter(|(r, _)| *r <= total_max).map(|(_, x)| *x).sum()
}

/// Number of databases `for_each_db` would produce.
pub fn count_dbs(tables: &[&str], sizes: &[usize], d: &Domain) -> usize {
    tables.iter().zip(sizes).map(|(t, n)| table_instances(t, *n, d).len()).product()
}

fn i(v: i64) -> Value {
    Value::Int(v)
}
fn s(v: &str) -> Value {
    Value::text(v)
}
fn fl(v: f64) -> Value {
    Value::Float(v)
}
fn b(v: bool) -> Value {
    Value::Bool(v)
}
const N: Value = Value::Null;

/// The fixed list of 12 "rich" databases used by the metamorphic checks
/// (label, database).  Every table has ≤ 4 rows; values are those of
/// `Domain::thorough()` plus the text 'ab'.
pub fn rich_databases() -> Vec<(String, Database)> {
    let mk = |t: Vec<Row>, u: Vec<Row>, w: Vec<Row>| Database::empty().with_rows("t", t).with_rows("u", u).with_rows("w", w);
    vec![
        (
            "all_distinct".into(),
            mk(
                vec![vec![i(1), i(2)], vec![i(2), i(3)], vec![i(3), i(1)]],
                vec![vec![i(1), s("a")], vec![i(2), s("b")], vec![i(3), s("")]],
                vec![vec![fl(0.5), b(true), i(1)], vec![fl(1.0), b(false), i(2)], vec![fl(2.5), b(true), i(3)]],
            ),
        ),
        (
            "all_equal".into(),
            mk(
                vec![vec![i(1), i(1)], vec![i(1), i(1)], vec![i(1), i(1)]],
                vec![vec![i(1), s("a")], vec![i(1), s("a")], vec![i(1), s("a")]],
                vec![vec![fl(1.0), b(true), i(1)], vec![fl(1.0), b(true), i(1)]],
            ),
        ),
        (
            "null_heavy".into(),
            mk(
                vec![vec![N, N], vec![N, i(1)], vec![i(1), N], vec![N, N]],
                vec![vec![N, N], vec![N, s("a")], vec![i(1), N]],
                vec![vec![N, N, N], vec![N, b(true), i(1)], vec![fl(0.5), N, N]],
            ),
        ),
        (
            "empty_t".into(),
            mk(vec![], vec![vec![i(1), s("a")], vec![i(2), s("b")]], vec![vec![fl(0.5), b(true), i(1)], vec![fl(2.5), b(false), i(2)]]),
        ),
        (
            "empty_u_w".into(),
            mk(vec![vec![i(1), i(2)], vec![i(2), i(1)], vec![N, i(1)]], vec![], vec![]),
        ),
        ("all_empty".into(), mk(vec![], vec![], vec![])),
        (
            "dup_keys".into(),
            mk(
                vec![vec![i(1), i(1)], vec![i(1), i(2)], vec![i(2), i(1)], vec![i(2), i(2)]],
                vec![vec![i(1), s("a")], vec![i(1), s("b")], vec![i(2), s("a")], vec![i(2), s("a")]],
                vec![vec![fl(0.5), b(true), i(1)], vec![fl(0.5), b(false), i(1)], vec![fl(2.5), b(true), i(2)]],
            ),
        ),
        (
            "no_match".into(),
            mk(
                vec![vec![i(1), i(1)], vec![i(1), i(2)]],
                vec![vec![i(2), s("a")], vec![i(3), s("b")]],
                vec![vec![fl(1.0), b(false), i(3)], vec![fl(2.5), N, i(3)]],
            ),
        ),
        (
            "single_rows".into(),
            mk(vec![vec![i(2), i(2)]], vec![vec![i(2), s("b")]], vec![vec![fl(2.5), b(true), i(2)]]),
        ),
        (
            "null_keys_match".into(),
            mk(
                vec![vec![N, i(1)], vec![i(1), i(1)], vec![i(2), N]],
                vec![vec![N, s("a")], vec![i(1), s("b")], vec![i(2), N]],
                vec![vec![fl(0.5), b(true), N], vec![fl(1.0), N, i(1)], vec![N, b(false), i(2)]],
            ),
        ),
        (
            "skewed".into(),
            mk(
                vec![vec![i(1), i(3)], vec![i(1), i(3)], vec![i(1), i(2)], vec![i(3), i(1)]],
                vec![vec![i(1), s("a")], vec![i(1), s("a")], vec![i(1), s("ab")], vec![i(3), N]],
                vec![vec![fl(2.5), b(false), i(1)], vec![fl(2.5), b(false), i(1)], vec![fl(0.5), b(true), i(3)], vec![N, N, i(1)]],
            ),
        ),
        (
            "dup_and_null".into(),
            mk(
                vec![vec![i(2), N], vec![i(2), N], vec![N, i(2)], vec![i(3), i(3)]],
                vec![vec![i(2), N], vec![i(2), s("")], vec![N, s("b")], vec![i(3), s("b")]],
                vec![vec![fl(1.0), b(true), i(2)], vec![fl(1.0), b(true), i(2)], vec![N, b(false), N]],
            ),
        ),
    ]
}
