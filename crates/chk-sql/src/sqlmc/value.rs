//! Typed cell values of the `sqlmc` engine and their canonical total order.
//!
//! `Value` is what both the reference interpreter and the result
//! canonicaliser (Arrow -> rows) produce.  Integer widths and signedness are
//! deliberately erased (`Int32`, `Int64`, `UInt64` all become `Int`), the
//! numeric *class* (Int vs Float) is kept.
use serde::{Deserialize, Serialize};
use std::cmp::Ordering;
use std::hash::{Hash, Hasher};

/// A typed SQL cell.
///
/// JSON form (used in replay files) is untagged: `null`, `true`, `1`, `2.5`,
/// `"a"`, `[..]`, `{"other": ".."}`.
#[derive(Clone, Debug, Serialize, Deserialize)]
#[serde(untagged)]
pub enum Value {
    Null,
    Bool(bool),
    Int(i64),
    Float(f64),
    Text(String),
    List(Vec<Value>),
    /// A value of a type outside the fragment (rendered by Arrow's formatter).
    Other { other: String },
}

/// Logical column class.
#[derive(Clone, Copy, Debug, PartialEq, Eq, Hash, Serialize, Deserialize, PartialOrd, Ord)]
pub enum ColType {
    Int,
    Float,
    Text,
    Bool,
    List,
    Null,
    Other,
}

impl ColType {
    /// SQL type name used in CREATE TABLE / CAST.
    pub fn sql_name(&self) -> &'static str {
        match self {
            ColType::Int => "INT",
            ColType::Float => "DOUBLE",
            ColType::Text => "TEXT",
            ColType::Bool => "BOOLEAN",
            _ => "TEXT",
        }
    }
}

pub type Row = Vec<Value>;

impl Value {
    pub fn is_null(&self) -> bool {
        matches!(self, Value::Null)
    }
    pub fn text(s: &str) -> Value {
        Value::Text(s.to_string())
    }
    fn rank(&self) -> u8 {
        match self {
            Value::Null => 0,
            Value::Bool(_) => 1,
            Value::Int(_) => 2,
            Value::Float(_) => 3,
            Value::Text(_) => 4,
            Value::List(_) => 5,
            Value::Other { .. } => 6,
        }
    }
    /// Logical class of this cell (`Null` for NULL).
    pub fn col_type(&self) -> ColType {
        match self {
            Value::Null => ColType::Null,
            Value::Bool(_) => ColType::Bool,
            Value::Int(_) => ColType::Int,
            Value::Float(_) => ColType::Float,
            Value::Text(_) => ColType::Text,
            Value::List(_) => ColType::List,
            Value::Other { .. } => ColType::Other,
        }
    }
    /// Numeric view (Int or Float) as f64.
    pub fn as_f64(&self) -> Option<f64> {
        match self {
            Value::Int(i) => Some(*i as f64),
            Value::Float(f) => Some(*f),
            _ => None,
        }
    }
    /// Render as a SQL literal.
    pub fn sql_literal(&self) -> String {
        match self {
            Value::Null => "NULL".into(),
            Value::Bool(b) => if *b { "TRUE".into() } else { "FALSE".into() },
            Value::Int(i) => format!("{i}"),
            Value::Float(f) => {
                let s = format!("{f:?}");
                if s.contains('.') || s.contains('e') || s.contains("inf") || s.contains("NaN") { s } else { format!("{s}.0") }
            }
            Value::Text(s) => format!("'{}'", s.replace('\'', "''")),
            Value::List(l) => format!("[{}]", l.iter().map(|v| v.sql_literal()).collect::<Vec<_>>().join(", ")),
            Value::Other { other } => other.clone(),
        }
    }
}

/// Canonical float key: -0.0 == 0.0, all NaNs equal, rounded to 12 significant
/// digits so that harmless last-bit differences of a sum/avg do not matter.
fn fkey(f: f64) -> u64 {
    if f.is_nan() {
        return f64::NAN.to_bits();
    }
    if f == 0.0 {
        return 0f64.to_bits();
    }
    if f.is_infinite() {
        return f.to_bits();
    }
    let s = format!("{f:.11e}");
    s.parse::<f64>().unwrap_or(f).to_bits()
}

fn fcmp(a: f64, b: f64) -> Ordering {
    let (a, b) = (f64::from_bits(fkey(a)), f64::from_bits(fkey(b)));
    a.total_cmp(&b)
}

impl PartialEq for Value {
    fn eq(&self, other: &Self) -> bool {
        self.cmp(other) == Ordering::Equal
    }
}
impl Eq for Value {}
impl PartialOrd for Value {
    fn partial_cmp(&self, other: &Self) -> Option<Ordering> {
        Some(self.cmp(other))
    }
}
/// Canonical *total* order used for multisets, grouping keys and DISTINCT
/// (not the SQL comparison: NULL equals NULL here, classes are ordered by rank).
impl Ord for Value {
    fn cmp(&self, other: &Self) -> Ordering {
        match (self, other) {
            (Value::Null, Value::Null) => Ordering::Equal,
            (Value::Bool(a), Value::Bool(b)) => a.cmp(b),
            (Value::Int(a), Value::Int(b)) => a.cmp(b),
            (Value::Float(a), Value::Float(b)) => fcmp(*a, *b),
            (Value::Text(a), Value::Text(b)) => a.as_bytes().cmp(b.as_bytes()),
            (Value::List(a), Value::List(b)) => a.cmp(b),
            (Value::Other { other: a }, Value::Other { other: b }) => a.cmp(b),
            _ => self.rank().cmp(&other.rank()),
        }
    }
}
impl Hash for Value {
    fn hash<H: Hasher>(&self, state: &mut H) {
        self.rank().hash(state);
        match self {
            Value::Null => {}
            Value::Bool(b) => b.hash(state),
            Value::Int(i) => i.hash(state),
            Value::Float(f) => fkey(*f).hash(state),
            Value::Text(s) => s.hash(state),
            Value::List(l) => l.hash(state),
            Value::Other { other } => other.hash(state),
        }
    }
}

/// SQL comparison of two non-NULL values of comparable classes: Int and Float
/// compare numerically, Text bytewise, Bool false < true.  `None` when either
/// side is NULL or the classes are not comparable.
pub fn sql_cmp(a: &Value, b: &Value) -> Option<Ordering> {
    match (a, b) {
        (Value::Null, _) | (_, Value::Null) => None,
        (Value::Int(x), Value::Int(y)) => Some(x.cmp(y)),
        (Value::Int(_) | Value::Float(_), Value::Int(_) | Value::Float(_)) => {
            let (x, y) = (a.as_f64().unwrap(), b.as_f64().unwrap());
            x.partial_cmp(&y)
        }
        (Value::Bool(x), Value::Bool(y)) => Some(x.cmp(y)),
        (Value::Text(x), Value::Text(y)) => Some(x.as_bytes().cmp(y.as_bytes())),
        (Value::List(x), Value::List(y)) => Some(x.cmp(y)),
        _ => None,
    }
}

/// Sort a multiset of rows into canonical order.
pub fn canonical_rows(rows: &[Row]) -> Vec<Row> {
    let mut r = rows.to_vec();
    r.sort();
    r
}

/// Compact one-line rendering of rows for messages.
pub fn show_rows(rows: &[Row]) -> String {
    let mut s = String::from("[");
    for (i, r) in rows.iter().enumerate() {
        if i > 0 {
            s.push_str(", ");
        }
        s.push('(');
        s.push_str(&r.iter().map(|v| v.sql_literal()).collect::<Vec<_>>().join(","));
        s.push(')');
    }
    s.push(']');
    s
}
