//! Engine-vs-reference verdict for one (query, database) pair, shared by C01
//! and by the metamorphic checks that fall back on the reference.
//!
//! Confirmed engine deviations are keyed by *root cause*: a disagreement is
//! attributed to a cause only if the reference evaluated under that cause's
//! alternative semantics ([`Quirks`]) reproduces the engine's rows exactly;
//! anything else is an ordinary violation.
use super::ast::{self, Query};
use super::compare::compare;
use super::db::Database;
use super::engine;
use super::reference::{self, Quirks, RefOutcome};
use super::value::Row;
use datafusion::prelude::SessionContext;

#[derive(Debug, Clone)]
pub enum Verdict {
    /// engine result accepted; `nonempty` = reference window non-empty
    Match { rows: Vec<Row> },
    /// reference says the statement may fail at run time: nothing demanded
    MayFail { engine_failed: bool },
    /// SQL does not define a single answer: skipped
    Ambiguous,
    Unsupported(String),
    Violation(String),
    /// disagreement explained exactly by one confirmed root cause (fixed key)
    KnownCause { key: &'static str, what: String },
}

/// Confirmed engine deviations, keyed by root cause (call site).  A
/// disagreement is attributed to one of them only if the reference evaluated
/// under that alternative semantics reproduces the engine's rows exactly.
pub const CAUSE_SETOP_ALL: &str = "setop-all-multiplicity:LogicalPlanBuilder::intersect_or_except";
pub const CAUSE_NOT_IN_CORR: &str = "correlated-not-in-null-aware-anti-join-ignores-filter:HashJoinStream(null_aware)+decorrelate_predicate_subquery::build_join";

pub const CAUSE_USING_LEFT: &str = "using-join-merged-column-is-left-side:Column::normalize_with_schemas_and_ambiguity_check";
pub const CAUSE_NESTED_IN: &str = "in-subquery-under-disjunction-is-two-valued-mark-join:decorrelate_predicate_subquery(LeftMark)";

/// Which confirmed root cause (if any) explains `got` exactly?
pub fn attribute(ast: &Query, dbv: &Database, got: &[Row]) -> Option<&'static str> {
    use ast::{From, JoinCond};
    let mut has_using = false;
    let mut has_in_subq = false;
    ast::visit_query(
        ast,
        &mut |_| {},
        &mut |e| {
            if matches!(e, ast::Expr::InSubquery { .. }) {
                has_in_subq = true;
            }
        },
        &mut |f| {
            if matches!(f, From::Join { cond: JoinCond::Using(_), .. }) {
                has_using = true;
            }
        },
    );
    let explains = |q: Quirks| matches!(reference::evaluate_with(dbv, ast, q), RefOutcome::Rows(r) if compare(&r, got).is_ok());
    if has_using && explains(Quirks { using_column_is_left: true, ..Default::default() }) {
        return Some(CAUSE_USING_LEFT);
    }
    if has_in_subq && explains(Quirks { nested_in_subquery_two_valued: true, ..Default::default() }) {
        return Some(CAUSE_NESTED_IN);
    }
    let mut has_all_setop = false;
    ast::visit_query(
        ast,
        &mut |q| {
            fn look(s: &ast::SetExpr, hit: &mut bool) {
                use ast::{SetExpr, SetOp};
                if let SetExpr::SetOp { op, all, left, right } = s {
                    if *all && matches!(op, SetOp::Intersect | SetOp::Except) {
                        *hit = true;
                    }
                    look(left, hit);
                    look(right, hit);
                }
            }
            look(&q.body, &mut has_all_setop);
        },
        &mut |_| {},
        &mut |_| {},
    );
    let mut has_not_in = false;
    ast::visit_query(ast, &mut |_| {}, &mut |e| {
        if matches!(e, ast::Expr::InSubquery { negated: true, .. }) {
            has_not_in = true;
        }
    }, &mut |_| {});
    if has_not_in {
        let alt = reference::evaluate_with(dbv, ast, Quirks { not_in_null_check_ignores_correlation: true, ..Default::default() });
        if let RefOutcome::Rows(r) = alt {
            if compare(&r, got).is_ok() {
                return Some(CAUSE_NOT_IN_CORR);
            }
        }
    }
    if has_all_setop {
        let alt = reference::evaluate_with(dbv, ast, Quirks { setop_all_as_semijoin: true, ..Default::default() });
        if let RefOutcome::Rows(r) = alt {
            if compare(&r, got).is_ok() {
                return Some(CAUSE_SETOP_ALL);
            }
        }
    }
    None
}

/// Run `sql` on `sctx` and judge it against the reference evaluation of `ast` on `dbv`.
pub fn check_one(sctx: &SessionContext, sql: &str, ast: &Query, dbv: &Database) -> Verdict {
    let expected = reference::evaluate(dbv, ast);
    if let RefOutcome::Unsupported(w) = &expected {
        return Verdict::Unsupported(w.clone());
    }
    if let RefOutcome::Ambiguous(_) = &expected {
        return Verdict::Ambiguous;
    }
    let got = engine::run_sql(sctx, sql);
    match (expected, got) {
        (RefOutcome::MayFail(_), g) => Verdict::MayFail { engine_failed: g.is_err() },
        (RefOutcome::Rows(_), Err(e)) if e.starts_with("panic:") => Verdict::Violation(format!("engine panicked: {e}")),
        (RefOutcome::Rows(r), Err(e)) => Verdict::Violation(format!("engine failed where the reference defines {} row(s): {e}", r.expected_len())),
        (RefOutcome::Rows(r), Ok(g)) => match compare(&r, &g.rows) {
            Ok(()) => Verdict::Match { rows: r.window_rows() },
            Err(w) => match attribute(ast, dbv, &g.rows) {
                Some(key) => Verdict::KnownCause { key, what: w },
                None => Verdict::Violation(w),
            },
        },
        _ => unreachable!(),
    }
}

