//! Families F9..F12 of the grammar.
use super::ast::*;
use super::grammar::{Tier, b, int_preds, menu, sel};

fn a() -> Expr {
    col("a")
}
fn bb() -> Expr {
    col("b")
}
fn oi(e: Expr, desc: bool, nf: Option<bool>) -> OrderItem {
    OrderItem { expr: e, desc, nulls_first: nf }
}
fn win(f: WinFn, args: Vec<Expr>, part: Vec<Expr>, order: Vec<OrderItem>, frame: Option<Frame>) -> Expr {
    Expr::Window { f, args, partition_by: part, order_by: order, frame }
}
fn frame(units: FrameUnits, start: Bound, end: Bound) -> Option<Frame> {
    Some(Frame { units, start, end })
}

// ----------------------------------------------------------------------- F9

pub(crate) fn window_exprs(x: &Expr, y: &Expr) -> Vec<Expr> {
    let (x, y) = (|| x.clone(), || y.clone());
    let oxy = || vec![oi(x(), false, None), oi(y(), false, None)];
    let ox = || vec![oi(x(), false, None)];
    let oy = || vec![oi(y(), false, None)];
    use Bound::*;
    use FrameUnits::*;
    vec![
        win(WinFn::RowNumber, vec![], vec![], oxy(), None),
        win(WinFn::Agg(AggFn::Sum), vec![y()], vec![x()], vec![], None),
        win(WinFn::Rank, vec![], vec![], ox(), None),
        win(WinFn::Agg(AggFn::Sum), vec![y()], vec![], ox(), None),
        win(WinFn::Agg(AggFn::Count), vec![], vec![], vec![], None),
        win(WinFn::Lag, vec![y()], vec![], oxy(), None),
        win(WinFn::Agg(AggFn::Sum), vec![y()], vec![], oxy(), frame(Rows, Preceding(1), CurrentRow)),
        win(WinFn::DenseRank, vec![], vec![], vec![oi(x(), true, None)], None),
        win(WinFn::FirstValue, vec![y()], vec![x()], oy(), None),
        win(WinFn::Agg(AggFn::Count), vec![y()], vec![], ox(), frame(Range, Preceding(1), Following(1))),
        win(WinFn::Agg(AggFn::Sum), vec![y()], vec![x()], oy(), None),
        win(WinFn::Lead, vec![y(), int(1), int(0)], vec![x()], oy(), None),
        win(WinFn::LastValue, vec![y()], vec![x()], oy(), frame(Rows, UnboundedPreceding, UnboundedFollowing)),
        win(WinFn::Agg(AggFn::Min), vec![y()], vec![], oxy(), frame(Rows, CurrentRow, UnboundedFollowing)),
        win(WinFn::Agg(AggFn::Avg), vec![y()], vec![x()], vec![], None),
        win(WinFn::Agg(AggFn::Max), vec![y()], vec![], ox(), frame(Groups, Preceding(1), CurrentRow)),
        win(WinFn::Ntile, vec![int(2)], vec![], oxy(), None),
        win(WinFn::PercentRank, vec![], vec![], ox(), None),
        win(WinFn::CumeDist, vec![], vec![x()], oy(), None),
        win(WinFn::NthValue, vec![y(), int(2)], vec![], oxy(), frame(Rows, UnboundedPreceding, UnboundedFollowing)),
        win(WinFn::Agg(AggFn::Sum), vec![y()], vec![], vec![oi(x(), true, Some(false))], frame(Range, UnboundedPreceding, CurrentRow)),
        win(WinFn::Agg(AggFn::Count), vec![], vec![x()], oy(), frame(Range, CurrentRow, UnboundedFollowing)),
        win(WinFn::Agg(AggFn::Sum), vec![x()], vec![], oxy(), frame(Rows, Preceding(1), Following(1))),
        win(WinFn::Rank, vec![], vec![x()], vec![oi(y(), true, Some(true))], None),
        win(WinFn::Agg(AggFn::Sum), vec![y()], vec![], vec![oi(x(), false, Some(true))], frame(Range, Preceding(1), CurrentRow)),
        win(WinFn::Agg(AggFn::Count), vec![y()], vec![], ox(), frame(Groups, CurrentRow, Following(1))),
        win(WinFn::Lag, vec![y(), int(2)], vec![], oxy(), None),
        win(WinFn::LastValue, vec![y()], vec![], ox(), None),
        win(WinFn::FirstValue, vec![y()], vec![], oxy(), frame(Rows, Preceding(1), Following(1))),
        win(WinFn::Agg(AggFn::Max), vec![x()], vec![y()], vec![], None),
        win(WinFn::Agg(AggFn::Sum), vec![y()], vec![], vec![oi(x(), true, None)], frame(Range, Following(1), UnboundedFollowing)),
        win(WinFn::Agg(AggFn::Min), vec![y()], vec![], oxy(), frame(Rows, Following(1), Following(2))),
    ]
}

pub(crate) fn f9(tier: Tier) -> Vec<Query> {
    let mut out = vec![];
    let ws = window_exprs(&a(), &bb());
    for w in menu(tier, &ws, 16) {
        out.push(Select::new(vec![item(a()), item(bb()), item_as(w, "w")], table("t")).query());
    }
    // two windows in one SELECT, window + WHERE, window + ORDER BY
    out.push(Select::new(vec![item(a()), item(bb()), item_as(ws[0].clone(), "rn"), item_as(ws[1].clone(), "s")], table("t")).query());
    out.push(Select::new(vec![item(a()), item(bb()), item_as(ws[2].clone(), "r")], table("t")).filter(is_not_null(bb())).query());
    out.push(Select::new(vec![item(a()), item(bb()), item_as(ws[3].clone(), "s")], table("t")).query().order(vec![oi(a(), true, None), oi(bb(), false, None)]));
    // an expression over a window value
    out.push(Select::new(vec![item(a()), item(bb()), item_as(b(BinOp::Sub, bb(), ws[1].clone()), "d")], table("t")).query());
    // windows over w (float / bool) and u (text)
    let (x, f) = (|| col("x"), || col("f"));
    out.push(
        Select::new(vec![item(x()), item(f()), item(a()), item_as(win(WinFn::Agg(AggFn::Sum), vec![x()], vec![f()], vec![oi(x(), false, None)], None), "s")], table("w")).query(),
    );
    out.push(
        Select::new(vec![item(x()), item(f()), item(a()), item_as(win(WinFn::Rank, vec![], vec![], vec![oi(x(), true, None)], None), "r"), item_as(win(WinFn::Agg(AggFn::Avg), vec![x()], vec![a()], vec![], None), "av")], table("w"))
            .query(),
    );
    out.push(Select::new(vec![item(a()), item(col("c")), item_as(win(WinFn::Agg(AggFn::Min), vec![col("c")], vec![a()], vec![], None), "m"), item_as(win(WinFn::DenseRank, vec![], vec![], vec![oi(col("c"), false, None)], None), "r")], table("u")).query());
    // window over a join
    out.push(
        Select::new(
            vec![
                item_as(qcol("t", "a"), "ta"),
                item_as(qcol("u", "c"), "uc"),
                item_as(win(WinFn::Agg(AggFn::Count), vec![qcol("u", "c")], vec![qcol("t", "a")], vec![], None), "n"),
            ],
            join(JoinKind::Left, table("t"), table("u"), eq(qcol("t", "a"), qcol("u", "a"))),
        )
        .query(),
    );
    if tier == Tier::Thorough {
        for w in &ws {
            for p in int_preds(&a(), &bb()).iter().take(6) {
                out.push(Select::new(vec![item(a()), item(bb()), item_as(w.clone(), "w")], table("t")).filter(p.clone()).query());
            }
        }
        for (i, w1) in ws.iter().enumerate() {
            let w2 = &ws[(i * 7 + 3) % ws.len()];
            out.push(Select::new(vec![item(a()), item(bb()), item_as(w1.clone(), "w1"), item_as(w2.clone(), "w2")], table("t")).query());
        }
        for w in window_exprs(&bb(), &a()) {
            out.push(Select::new(vec![item(a()), item(bb()), item_as(w, "w")], table("t")).query());
        }
    }
    out
}

// ---------------------------------------------------------------------- F10

fn cte(name: &str, cols: &[&str], recursive: bool, q: Query) -> Cte {
    Cte { name: name.into(), columns: cols.iter().map(|s| s.to_string()).collect(), recursive, query: q }
}

pub(crate) fn f10(tier: Tier) -> Vec<Query> {
    let mut out = vec![];
    let n = || col("n");
    // counter 1..k
    let counter = |k: i64| {
        Select::no_from(vec![item(int(1))])
            .query()
            .setop(SetOp::Union, true, Select::new(vec![item(b(BinOp::Add, n(), int(1)))], table("r")).filter(b(BinOp::Lt, n(), int(k))).query())
    };
    out.push(sel(vec![n()], table("r")).query().with(cte("r", &["n"], true, counter(3))));
    out.push(Select::new(vec![item_as(agg(AggFn::Sum, n()), "s"), item_as(count_star(), "c")], table("r")).query().with(cte("r", &["n"], true, counter(4))));
    out.push(
        Select::new(vec![item(qcol("t", "a")), item(qcol("t", "b")), item(qcol("r", "n"))], join(JoinKind::Left, table("t"), table("r"), eq(qcol("t", "a"), qcol("r", "n"))))
            .query()
            .with(cte("r", &["n"], true, counter(2))),
    );
    // reachability over t as an edge list a -> b (UNION = set semantics, terminates)
    let reach = |all: bool, seed: Option<Expr>| {
        let mut base = Select::new(vec![item(a())], table("t"));
        base.where_ = seed;
        base.query().setop(
            SetOp::Union,
            all,
            Select::new(vec![item(qcol("t", "b"))], join(JoinKind::Inner, table("t"), table("r"), eq(qcol("t", "a"), qcol("r", "x")))).query(),
        )
    };
    out.push(sel(vec![col("x")], table("r")).query().with(cte("r", &["x"], true, reach(false, None))));
    out.push(sel(vec![col("x")], table("r")).query().with(cte("r", &["x"], true, reach(false, Some(eq(a(), int(1)))))));
    out.push(Select::new(vec![item_as(count_star(), "c"), item_as(agg(AggFn::Max, col("x")), "m")], table("r")).query().with(cte("r", &["x"], true, reach(false, Some(is_not_null(bb()))))));
    // bounded-depth walk with UNION ALL (depth column guarantees termination)
    let walk = |maxd: i64| {
        Select::new(vec![item(a()), item(int(1))], table("t")).query().setop(
            SetOp::Union,
            true,
            Select::new(vec![item(qcol("t", "b")), item(b(BinOp::Add, qcol("r", "d"), int(1)))], join(JoinKind::Inner, table("t"), table("r"), eq(qcol("t", "a"), qcol("r", "x"))))
                .filter(b(BinOp::Lt, qcol("r", "d"), int(maxd)))
                .query(),
        )
    };
    out.push(sel(vec![col("x"), col("d")], table("r")).query().with(cte("r", &["x", "d"], true, walk(2))));
    out.push(
        Select::new(vec![item(col("d")), item_as(count_star(), "c")], table("r")).group(vec![col("d")]).query().with(cte("r", &["x", "d"], true, walk(3))),
    );
    if tier == Tier::Thorough {
        for k in [1, 2, 5] {
            out.push(sel(vec![n()], table("r")).filter(eq(b(BinOp::Mod, n(), int(2)), int(1))).query().with(cte("r", &["n"], true, counter(k))));
        }
        for p in int_preds(&a(), &bb()).into_iter().take(8) {
            out.push(sel(vec![col("x")], table("r")).query().with(cte("r", &["x"], true, reach(false, Some(p.clone())))));
            out.push(sel(vec![col("x"), col("d")], table("r")).query().with(cte("r", &["x", "d"], true, {
                let mut base = Select::new(vec![item(a()), item(int(1))], table("t"));
                base.where_ = Some(p);
                base.query().setop(
                    SetOp::Union,
                    true,
                    Select::new(vec![item(qcol("t", "b")), item(b(BinOp::Add, qcol("r", "d"), int(1)))], join(JoinKind::Inner, table("t"), table("r"), eq(qcol("t", "a"), qcol("r", "x"))))
                        .filter(b(BinOp::Lt, qcol("r", "d"), int(3)))
                        .query(),
                )
            })));
        }
        // recursive term anti-joined against u
        out.push(sel(vec![col("x")], table("r")).filter(Expr::InSubquery { e: Box::new(col("x")), q: Box::new(sel(vec![a()], table("u")).query()), negated: true }).query().with(cte("r", &["x"], true, reach(false, None))));
    }
    out
}

// ---------------------------------------------------------------------- F11

fn series(inclusive: bool, args: &[i64], alias: &str) -> From {
    From::Series { inclusive, args: args.to_vec(), alias: alias.into() }
}

pub(crate) fn f11(tier: Tier) -> Vec<Query> {
    let mut out = vec![];
    let v = || qcol("g", "value");
    let shapes: Vec<(bool, Vec<i64>)> = vec![
        (true, vec![1, 3]),
        (false, vec![1, 3]),
        (true, vec![1, 5, 2]),
        (true, vec![3, 1, -1]),
        (true, vec![3, 1]),
        (false, vec![0, 6, 3]),
        (false, vec![3, 0, -2]),
        (true, vec![2, 2]),
        (false, vec![2, 2]),
        (true, vec![-1, 1]),
    ];
    for (inc, args) in menu(tier, &shapes, 6) {
        out.push(Select::new(vec![item(v())], series(inc, &args, "g")).query());
    }
    out.push(Select::new(vec![item_as(agg(AggFn::Sum, v()), "s"), item_as(count_star(), "c")], series(true, &[1, 4], "g")).query());
    out.push(Select::new(vec![item(v())], series(true, &[1, 4], "g")).filter(eq(b(BinOp::Mod, v(), int(2)), int(0))).query());
    out.push(Select::new(vec![item(v())], series(false, &[1, 5], "g")).query().order(vec![oi(v(), true, None)]).limit(2));
    out.push(Select::new(vec![item(qcol("g", "value")), item(qcol("h", "value"))], cross(series(true, &[1, 2], "g"), series(false, &[0, 2], "h"))).query());
    // joined with data
    for k in menu(tier, &[JoinKind::Inner, JoinKind::Left, JoinKind::Right, JoinKind::Full], 3) {
        out.push(Select::new(vec![item(qcol("t", "a")), item(qcol("t", "b")), item(v())], join(k, table("t"), series(true, &[1, 2], "g"), eq(qcol("t", "a"), v()))).query());
    }
    out.push(
        Select::new(vec![item(v()), item_as(agg(AggFn::Count, qcol("t", "a")), "n")], join(JoinKind::Left, series(true, &[1, 3], "g"), table("t"), eq(qcol("t", "a"), v())))
            .group(vec![v()])
            .query(),
    );
    out.push(sel(vec![a(), bb()], table("t")).filter(Expr::InSubquery { e: Box::new(a()), q: Box::new(Select::new(vec![item(v())], series(false, &[1, 2], "g")).query()), negated: true }).query());
    if tier == Tier::Thorough {
        for (inc, args) in &shapes {
            out.push(Select::new(vec![item(qcol("t", "a")), item(v())], join(JoinKind::Full, table("t"), series(*inc, args, "g"), b(BinOp::Lt, qcol("t", "a"), v()))).query());
            out.push(Select::new(vec![item_as(agg(AggFn::Sum, v()), "s"), item_as(agg(AggFn::Min, v()), "m")], series(*inc, args, "g")).query());
        }
    }
    out
}

// ---------------------------------------------------------------------- F12

pub(crate) fn f12(tier: Tier) -> Vec<Query> {
    let mut out = vec![];
    let s = |n: &str| qcol("s", n);
    let grouped = || Select::new(vec![item(a()), item_as(count_star(), "n"), item_as(agg(AggFn::Sum, bb()), "sb")], table("t")).group(vec![a()]).query();
    // filter / project over a grouped derived table
    out.push(Select::new(vec![item(s("a")), item(s("n"))], subquery_as(grouped(), "s")).filter(b(BinOp::Gt, s("n"), int(1))).query());
    out.push(Select::new(vec![item_as(b(BinOp::Add, s("n"), func(Func::Coalesce, vec![s("sb"), int(0)])), "v")], subquery_as(grouped(), "s")).query());
    // derived table joined with a base table
    for k in menu(tier, &[JoinKind::Inner, JoinKind::Left, JoinKind::Right, JoinKind::Full], 2) {
        out.push(
            Select::new(vec![item(s("a")), item(s("n")), item(qcol("u", "c"))], join(k, subquery_as(grouped(), "s"), table("u"), eq(s("a"), qcol("u", "a")))).query(),
        );
    }
    // aggregate over DISTINCT, aggregate over aggregate
    out.push(Select::new(vec![item_as(count_star(), "c"), item_as(agg(AggFn::Sum, s("a")), "sa")], subquery_as(sel(vec![a()], table("t")).distinct().query(), "s")).query());
    out.push(Select::new(vec![item_as(agg(AggFn::Max, s("n")), "mx"), item_as(agg(AggFn::Avg, s("n")), "av")], subquery_as(grouped(), "s")).query());
    // top-1 per group via row_number in a derived table
    let rn = Expr::Window { f: WinFn::RowNumber, args: vec![], partition_by: vec![a()], order_by: vec![oi(bb(), true, None)], frame: None };
    out.push(
        Select::new(vec![item(s("a")), item(s("b"))], subquery_as(Select::new(vec![item(a()), item(bb()), item_as(rn.clone(), "rn")], table("t")).query(), "s"))
            .filter(eq(s("rn"), int(1)))
            .query(),
    );
    // set operation in FROM, then grouped
    out.push(
        Select::new(vec![item(s("a")), item_as(count_star(), "n")], subquery_as(sel(vec![a()], table("t")).query().setop(SetOp::Union, true, sel(vec![a()], table("u")).query()), "s"))
            .group(vec![s("a")])
            .query(),
    );
    // ORDER BY + LIMIT in a derived table (total order), then aggregated / joined
    let top = || sel(vec![a(), bb()], table("t")).query().order(vec![oi(a(), false, None), oi(bb(), false, None)]).limit(1);
    out.push(Select::new(vec![item_as(agg(AggFn::Sum, s("b")), "sb"), item_as(count_star(), "c")], subquery_as(top(), "s")).query());
    out.push(Select::new(vec![item(s("a")), item(qcol("u", "c"))], join(JoinKind::Left, subquery_as(top(), "s"), table("u"), eq(s("a"), qcol("u", "a")))).query());
    // outer-join result filtered on the null-supplied side, inside a derived table
    let lj = || {
        Select::new(
            vec![item_as(qcol("t", "a"), "ta"), item_as(qcol("t", "b"), "tb"), item_as(qcol("u", "c"), "uc")],
            join(JoinKind::Left, table("t"), table("u"), eq(qcol("t", "a"), qcol("u", "a"))),
        )
        .query()
    };
    out.push(Select::new(vec![item(s("ta")), item(s("tb"))], subquery_as(lj(), "s")).filter(is_null(s("uc"))).query());
    out.push(Select::new(vec![item(s("uc")), item_as(count_star(), "n")], subquery_as(lj(), "s")).group(vec![s("uc")]).having(b(BinOp::Gt, count_star(), int(1))).query());
    // non-recursive CTE used twice
    out.push(
        Select::new(vec![item(qcol("x", "a")), item(qcol("y", "n"))], join(JoinKind::Inner, table_as("g", "x"), table_as("g", "y"), b(BinOp::Lt, qcol("x", "a"), qcol("y", "a"))))
            .query()
            .with(Cte { name: "g".into(), columns: vec![], recursive: false, query: grouped() }),
    );
    // window over a derived aggregate, DISTINCT over a join in FROM, subquery predicate over a derived table
    out.push(
        Select::new(
            vec![item(s("a")), item(s("n")), item_as(Expr::Window { f: WinFn::Rank, args: vec![], partition_by: vec![], order_by: vec![oi(s("n"), true, None)], frame: None }, "r")],
            subquery_as(grouped(), "s"),
        )
        .query(),
    );
    out.push(
        Select::new(vec![item(s("a"))], subquery_as(grouped(), "s"))
            .filter(Expr::Exists { q: Box::new(Select::new(vec![item(int(1))], table("u")).filter(and(eq(qcol("u", "a"), s("a")), b(BinOp::GtEq, s("n"), int(1)))).query()), negated: true })
            .query(),
    );
    // CASE over a derived table + ORDER BY + LIMIT on top
    out.push(
        Select::new(
            vec![item(s("a")), item_as(Expr::Case { operand: None, whens: vec![(b(BinOp::Gt, s("n"), int(1)), txt("many"))], else_: Some(Box::new(txt("one"))) }, "k")],
            subquery_as(grouped(), "s"),
        )
        .query()
        .order(vec![oi(s("a"), false, Some(true))])
        .limit(2),
    );
    // three-table join over w inside a derived table
    out.push(
        Select::new(
            vec![item(s("f")), item_as(agg(AggFn::Sum, s("x")), "sx"), item_as(count_star(), "n")],
            subquery_as(
                Select::new(vec![item(qcol("w", "f")), item(qcol("w", "x")), item(qcol("t", "b"))], join(JoinKind::Inner, table("t"), table("w"), eq(qcol("t", "a"), qcol("w", "a")))).query(),
                "s",
            ),
        )
        .group(vec![s("f")])
        .query(),
    );
    if tier == Tier::Thorough {
        // depth 3: derived table of a derived table
        let inner = Select::new(vec![item(s("a")), item(s("n"))], subquery_as(grouped(), "s")).filter(is_not_null(s("a"))).query();
        out.push(Select::new(vec![item_as(agg(AggFn::Sum, qcol("z", "n")), "sn")], subquery_as(inner.clone(), "z")).query());
        out.push(Select::new(vec![item(qcol("z", "a")), item(qcol("u", "c"))], join(JoinKind::Full, subquery_as(inner, "z"), table("u"), eq(qcol("z", "a"), qcol("u", "a")))).query());
        for p in int_preds(&s("a"), &s("n")) {
            out.push(Select::new(vec![item(s("a")), item(s("n")), item(s("sb"))], subquery_as(grouped(), "s")).filter(p).query());
        }
        for p in int_preds(&a(), &bb()) {
            // predicate below vs above the aggregation
            let below = Select::new(vec![item(a()), item_as(count_star(), "n")], table("t")).filter(p.clone()).group(vec![a()]).query();
            out.push(Select::new(vec![item(s("a")), item(s("n"))], subquery_as(below, "s")).filter(b(BinOp::GtEq, s("n"), int(1))).query());
            let filtered = sel(vec![a(), bb()], table("t")).filter(p).query();
            for k in [JoinKind::Left, JoinKind::Full] {
                out.push(Select::new(vec![item(s("a")), item(s("b")), item(qcol("u", "c"))], join(k, subquery_as(filtered.clone(), "s"), table("u"), eq(s("a"), qcol("u", "a")))).query());
            }
        }
        for w in super::grammar3::window_exprs(&a(), &bb()) {
            out.push(
                Select::new(vec![item(s("a")), item(s("b")), item(s("wv"))], subquery_as(Select::new(vec![item(a()), item(bb()), item_as(w, "wv")], table("t")).query(), "s"))
                    .filter(is_not_null(s("wv")))
                    .query(),
            );
        }
    }
    out
}
