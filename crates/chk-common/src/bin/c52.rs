//! C52 — qualified names round-trip through their quoted text form
//! (datafusion-common level: `TableReference` and `Column`).
//!
//! Enumerated: identifiers = all non-empty strings of length ≤ 3 over the alphabet
//! {a, A, '.', '"', ' ', '1', '_', 'é'} plus the keywords select/table/null;
//! table references with 1, 2, 3 parts and columns with 0..3 qualifier parts
//! drawn from those sets (bounds per tier below).
//!
//! Oracle (the law itself): `TableReference::parse_str(r.to_quoted_string()) == r`
//! (also through `From<&str>` and `parse_str_normalized(.., true)`), and
//! `Column::from_qualified_name(c.quoted_flat_name())` has the same relation and
//! name as `c`; when no part needs quoting the unquoted `flat_name()` /
//! `Display` forms must round-trip too.
//!
//! The file only uses `datafusion_common::{TableReference, Column}`, so it can be
//! compiled unchanged in a crate that enables datafusion-common's `sql` feature
//! (sqlparser-based identifier parser); the evidence records which parser ran.
use datafusion_common::{Column, TableReference};
use mc_core::serde_json::{Value, json};
use mc_core::{Ctx, Level, enumerate, rayon::prelude::*, run_check};
use serde::{Deserialize, Serialize};

#[derive(Serialize, Deserialize, Clone, Debug, Hash, PartialEq, Eq)]
struct Case {
    /// "table" or "column" (last part = column name, the others = qualifier)
    kind: String,
    parts: Vec<String>,
}

fn demo(which: &str) -> bool {
    std::env::var("VERIF_DEMO_C52").map(|v| v == which).unwrap_or(false)
}

/// Reference classification (independent of `needs_quotes`): identifiers that are
/// their own quoted form: `[a-z_][a-z0-9_]*`.
fn simple(id: &str) -> bool {
    let mut cs = id.chars();
    match cs.next() {
        Some(c) if c.is_ascii_lowercase() || c == '_' => {}
        _ => return false,
    }
    cs.all(|c| c.is_ascii_lowercase() || c.is_ascii_digit() || c == '_')
}

fn table_ref(parts: &[String]) -> TableReference {
    match parts.len() {
        1 => TableReference::bare(parts[0].as_str()),
        2 => TableReference::partial(parts[0].as_str(), parts[1].as_str()),
        3 => TableReference::full(parts[0].as_str(), parts[1].as_str(), parts[2].as_str()),
        n => panic!("MACHINERY: {n} parts"),
    }
}

/// Structural description of a reference (variant + parts), independent of `PartialEq`.
fn shape(r: &TableReference) -> (usize, Vec<String>) {
    match r {
        TableReference::Bare { table } => (1, vec![table.to_string()]),
        TableReference::Partial { schema, table } => (2, vec![schema.to_string(), table.to_string()]),
        TableReference::Full { catalog, schema, table } => (3, vec![catalog.to_string(), schema.to_string(), table.to_string()]),
    }
}

fn run_case(c: &Case) -> Result<(), String> {
    match c.kind.as_str() {
        "table" => {
            let r = table_ref(&c.parts);
            let mut q = r.to_quoted_string();
            if demo("quote") && c.parts.last().map(|p| p.contains('"')).unwrap_or(false) {
                // planted: as if quote_identifier forgot to double embedded quotes
                q = q.replacen("\"\"", "\"", 1);
            }
            let want = shape(&r);
            for (how, back) in [
                ("parse_str", TableReference::parse_str(&q)),
                ("From<&str>", TableReference::from(q.as_str())),
                ("parse_str_normalized(ignore_case)", TableReference::parse_str_normalized(&q, true)),
            ] {
                let got = shape(&back);
                if got != want || back != r {
                    return Err(format!("TableReference {:?}.to_quoted_string() = {q:?}; {how} of it = {:?}", want.1, got.1));
                }
            }
            if c.parts.iter().all(|p| simple(p)) {
                let d = r.to_string();
                let back = TableReference::parse_str(&d);
                if shape(&back) != want {
                    return Err(format!("TableReference {:?} displays as {d:?}; parse_str of it = {:?}", want.1, shape(&back).1));
                }
            }
            Ok(())
        }
        "column" => {
            let (name, rel) = c.parts.split_last().ok_or("MACHINERY: empty column")?;
            let relation = if rel.is_empty() { None } else { Some(table_ref(rel)) };
            let col = Column::new(relation.clone(), name.as_str());
            let q = col.quoted_flat_name();
            let back = Column::from_qualified_name(q.as_str());
            let want_rel = relation.as_ref().map(shape);
            let got_rel = back.relation.as_ref().map(shape);
            if got_rel != want_rel || back.name != *name {
                return Err(format!(
                    "Column {:?}.quoted_flat_name() = {q:?}; from_qualified_name of it = relation {:?}, name {:?}",
                    c.parts,
                    got_rel.map(|x| x.1),
                    back.name
                ));
            }
            if back != col {
                return Err(format!("Column {:?}: parsed column has equal parts but != the original", c.parts));
            }
            if c.parts.iter().all(|p| simple(p)) {
                let f = col.flat_name();
                let back = Column::from_qualified_name(f.as_str());
                if back.relation.as_ref().map(shape) != want_rel || back.name != *name {
                    return Err(format!("Column {:?}.flat_name() = {f:?}; from_qualified_name of it = {:?}", c.parts, back));
                }
            }
            Ok(())
        }
        k => Err(format!("MACHINERY: unknown kind {k}")),
    }
}

fn identifiers(alphabet: &[char], max_len: usize) -> Vec<String> {
    let mut v: Vec<String> = enumerate::sequences(alphabet, 1, max_len).into_iter().map(|cs| cs.into_iter().collect()).collect();
    for k in ["select", "table", "null"] {
        v.push(k.to_string());
    }
    v
}

/// Which identifier parser is compiled into datafusion-common (the `sql` feature
/// switches to sqlparser): the fallback parser keeps a trailing blank in the part.
fn parser_in_use() -> &'static str {
    match TableReference::parse_str("\"A\" ") {
        TableReference::Bare { table } if &*table == "A" => "sqlparser (feature sql)",
        _ => "built-in fallback (feature sql off)",
    }
}

fn explore(ctx: &Ctx) {
    let base = ['a', 'A', '.', '"', ' ', '1', '_', 'é'];
    let extra = ['a', 'A', '.', '"', ' ', '1', '_', 'é', '`', '\'', '\n'];
    let l3 = identifiers(&base, 3);
    let l2 = identifiers(if ctx.quick() { &base } else { &extra }, 2);
    let l2b = identifiers(&base, 2);
    let l1 = identifiers(if ctx.quick() { &base } else { &extra }, 1);
    // (kind, per-position identifier sets)
    let mut spaces: Vec<(&str, Vec<&Vec<String>>)> = vec![
        ("table", vec![&l3]),
        ("column", vec![&l3]),
        ("table", vec![&l3, &l3]),
        ("column", vec![&l2, &l3]),
        ("table", vec![&l2, &l2, &l2]),
        ("column", vec![&l2, &l2, &l2]),
        ("column", vec![&l1, &l1, &l1, &l1]),
    ];
    if ctx.thorough() {
        spaces.push(("column", vec![&l3, &l3]));
        spaces.push(("table", vec![&l3, &l2, &l2]));
        spaces.push(("table", vec![&l2, &l3, &l2]));
        spaces.push(("table", vec![&l2, &l2, &l3]));
        spaces.push(("column", vec![&l2, &l2, &l3]));
        spaces.push(("column", vec![&l2b, &l2b, &l2b, &l2b]));
    }
    ctx.set_extra(
        "bounds",
        json!({
            "alphabet": base.iter().collect::<String>(),
            "extra_alphabet_for_short_sets(thorough)": if ctx.thorough() { "` ' \\n" } else { "-" },
            "keywords": ["select", "table", "null"],
            "identifier_sets": {"L1": l1.len(), "L2": l2.len(), "L3": l3.len()},
            "spaces": spaces.iter().map(|(k, s)| format!("{k}: {}", s.iter().map(|x| x.len().to_string()).collect::<Vec<_>>().join(" x "))).collect::<Vec<_>>(),
            "identifier_parser": parser_in_use(),
        }),
    );
    ctx.assume("identifiers are non-empty (the empty identifier has no quoted form)");
    for (kind, sets) in &spaces {
        let first = sets[0];
        let rest: Vec<usize> = sets[1..].iter().map(|s| s.len()).collect();
        // distinct non-trivial keys are registered for the 1- and 2-part spaces only (bounded memory);
        // the counter `nontrivial_cases` covers every space
        let register = sets.len() <= 2;
        first.par_iter().for_each(|p0| {
            let mut evals = 0u64;
            let mut nontrivial = 0u64;
            let mut run = |idx: &[usize]| {
                if ctx.should_stop() {
                    return;
                }
                let mut parts = vec![p0.clone()];
                for (j, i) in idx.iter().enumerate() {
                    parts.push(sets[j + 1][*i].clone());
                }
                let c = Case { kind: kind.to_string(), parts };
                evals += 1;
                match mc_core::catch(|| run_case(&c)).unwrap_or_else(Err) {
                    Ok(()) => {
                        if c.parts.iter().any(|p| !simple(p)) {
                            nontrivial += 1;
                            if register {
                                ctx.nontrivial(&c);
                            }
                            if c.parts.len() >= 2 && c.parts[0].contains('"') && c.parts[1].contains('.') && ctx.want_sample() {
                                let quoted = if c.kind == "table" {
                                    table_ref(&c.parts).to_quoted_string()
                                } else {
                                    let (n, r) = c.parts.split_last().unwrap();
                                    Column::new(Some(table_ref(r)), n.as_str()).quoted_flat_name()
                                };
                                ctx.sample(json!({"case": c, "quoted": quoted}));
                            }
                        }
                    }
                    Err(what) => {
                        if what.starts_with("MACHINERY") {
                            ctx.machinery_error(what);
                        } else {
                            ctx.violation(serde_json::to_string(&c).unwrap(), what, serde_json::to_value(&c).unwrap());
                        }
                    }
                }
            };
            if rest.is_empty() {
                run(&[]);
            } else {
                enumerate::product(&rest, |idx| run(idx));
            }
            ctx.evals(evals);
            ctx.count("nontrivial_cases", nontrivial);
            ctx.count(&format!("cases[{kind}/{} parts]", sets.len()), evals);
        });
    }
}

fn replay(v: &Value) -> Result<(), String> {
    let c: Case = serde_json::from_value(v.clone()).map_err(|e| format!("bad case: {e}"))?;
    mc_core::catch(|| run_case(&c)).unwrap_or_else(Err)
}

fn main() {
    mc_core::quiet_panics();
    run_check(
        "C52",
        Level::Exploration,
        "every table reference (1-3 parts) and column (0-3 qualifier parts + name) whose parts come from the enumerated identifier sets; \
         quoted text -> parse must give back the same parts; non-trivial = at least one part needs quoting (dot, quote, blank, upper case, leading digit, non-ASCII); \
         distinct_nontrivial registers the 1- and 2-part spaces only, the counter nontrivial_cases covers all spaces",
        explore,
        replay,
    );
}
