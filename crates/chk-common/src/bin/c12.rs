//! C12 — row hashes depend only on the logical row value.
//!
//! Enumerated: for every key type of the menu (all primitives, Boolean, Null,
//! Utf8/Binary families incl. views, FixedSizeBinary, Dictionary, RunEndEncoded,
//! Struct, List, LargeList, ListView, LargeListView, FixedSizeList, Map, sparse and
//! dense Union, some nested in each other) every logical column of length ≤ L over
//! the type's 3–5 value domain (NULL, ±0.0, NaN for floats, inline/out-of-line
//! strings for views) × **every physical encoding** produced by
//! `chk_common::enc::encodings` (type specific layouts × validity/garbage/child
//! slicing knobs × 4 slice offsets), alone and behind 1..3 other key columns.
//!
//! Oracle (per case, per hash family): every encoding gives the same hash vector
//! as the plain encoding; every row hashes like a one-row plain array of its
//! canonical value (⇒ equal rows — NULL = NULL, −0.0 = +0.0 — get equal hashes in
//! any array of the type); the buffered entry point returns the direct result,
//! also after a longer call and a re-entrant call (which must fail cleanly);
//! `ScalarValue`s read from the arrays that compare equal hash equally.
use arrow::array::{Array, ArrayRef, Int64Array};
use chk_common::enc::{self, Enc, T, V};
use datafusion_common::ScalarValue;
use datafusion_common::hash_utils::{
    QualityRandomState, RandomState, create_hashes, create_hashes_with_hasher, with_hashes, with_hashes_with_hasher,
};
use mc_core::serde_json::{Value, json};
use mc_core::{Ctx, Level, enumerate, rayon::prelude::*, run_check};
use serde::{Deserialize, Serialize};
use std::hash::{BuildHasherDefault, Hash, Hasher};
use std::sync::Arc;

#[derive(Serialize, Deserialize, Clone, Debug, Hash)]
struct Case {
    types: Vec<T>,
    cols: Vec<Vec<V>>,
    /// number of slice variants per encoding (1..=4)
    slices: usize,
    /// also check `ScalarValue` Eq/Hash (single-column cases)
    scalars: bool,
}

#[derive(Default)]
struct Stats {
    encodings: u64,
    hash_calls: u64,
    equal_rows: u64,
    null_rows: u64,
    scalar_eq_pairs: u64,
    scalar_unsupported: u64,
    h0: Vec<u64>,
}

#[derive(Clone, Copy, Debug)]
enum Fam {
    Fixed,
    Quality,
    HasherFixed,
    HasherSip,
}
const FAMS: [Fam; 4] = [Fam::Fixed, Fam::Quality, Fam::HasherFixed, Fam::HasherSip];

type Sip = BuildHasherDefault<std::collections::hash_map::DefaultHasher>;

fn direct(f: Fam, arrays: &[ArrayRef]) -> Result<Vec<u64>, String> {
    let n = arrays[0].len();
    let mut buf = vec![0u64; n];
    let r = match f {
        Fam::Fixed => create_hashes(arrays, &RandomState::with_seed(7), &mut buf).map(|_| ()),
        Fam::Quality => create_hashes(arrays, &QualityRandomState::with_seed(7), &mut buf).map(|_| ()),
        Fam::HasherFixed => create_hashes_with_hasher(arrays, &RandomState::with_seed(7), &mut buf).map(|_| ()),
        Fam::HasherSip => create_hashes_with_hasher(arrays, &Sip::default(), &mut buf).map(|_| ()),
    };
    r.map_err(|e| format!("{f:?}: hashing returned an error: {e}"))?;
    Ok(buf)
}

fn buffered(f: Fam, arrays: &[ArrayRef]) -> Result<Vec<u64>, String> {
    let cb = |h: &[u64]| Ok(h.to_vec());
    let r = match f {
        Fam::Fixed => with_hashes(arrays, &RandomState::with_seed(7), cb),
        Fam::Quality => with_hashes(arrays, &QualityRandomState::with_seed(7), cb),
        Fam::HasherFixed => with_hashes_with_hasher(arrays, &RandomState::with_seed(7), cb),
        Fam::HasherSip => with_hashes_with_hasher(arrays, &Sip::default(), cb),
    };
    r.map_err(|e| format!("{f:?}: buffered hashing returned an error: {e}"))
}

/// Leave non-zero stale data of a longer call in the thread-local buffer.
fn dirty_buffer() {
    let a: ArrayRef = Arc::new(Int64Array::from(vec![11, 12, 13, 14, 15, 16, 17]));
    let _ = with_hashes([&a], &RandomState::with_seed(3), |_| Ok(()));
}

fn reentrant(arrays: &[ArrayRef]) -> Result<Vec<u64>, String> {
    let st = RandomState::with_seed(7);
    let mut inner_failed_cleanly = false;
    let out = with_hashes(arrays, &st, |h| {
        let before = h.to_vec();
        let inner = with_hashes(arrays, &st, |_| Ok(()));
        inner_failed_cleanly = inner.is_err();
        if before != h {
            return Ok(vec![u64::MAX]);
        }
        Ok(before)
    })
    .map_err(|e| format!("outer with_hashes failed after a re-entrant call: {e}"))?;
    if !inner_failed_cleanly {
        return Err("re-entrant with_hashes did not return an error".into());
    }
    Ok(out)
}

fn std_hash(s: &ScalarValue) -> u64 {
    let mut h = std::collections::hash_map::DefaultHasher::new();
    s.hash(&mut h);
    h.finish()
}

/// DETECTION-DEMO switch (reference side only, off unless `VERIF_DEMO_C12=canon`
/// is set in the environment): the reference then wrongly claims that the key
/// values 1 and 100 are equal, so "equal rows hash equally" must be reported.
fn demo_break_canon() -> bool {
    static ON: std::sync::OnceLock<bool> = std::sync::OnceLock::new();
    *ON.get_or_init(|| std::env::var("VERIF_DEMO_C12").map(|v| v == "canon").unwrap_or(false))
}

fn canon(v: &V) -> V {
    if demo_break_canon() && *v == V::Int(100) {
        return V::Int(1);
    }
    enc::canon(v)
}

fn run_case(c: &Case) -> Result<Stats, String> {
    let k = c.types.len();
    let n = c.cols[0].len();
    let mut st = Stats::default();
    // encodings of every column, self-checked
    let mut encs: Vec<Vec<Enc>> = vec![];
    for (t, col) in c.types.iter().zip(&c.cols) {
        let es = enc::encodings(t, col, c.slices);
        for e in &es {
            enc::self_check(t, col, e).map_err(|m| format!("MACHINERY: {m}"))?;
        }
        st.encodings += es.len() as u64;
        encs.push(es);
    }
    // combinations: every column alone over its encodings (others plain), plus the diagonal
    let mut combos: Vec<(String, Vec<ArrayRef>)> = vec![];
    let plain: Vec<ArrayRef> = encs.iter().map(|e| e[0].arr.clone()).collect();
    for j in 0..k {
        for e in encs[j].iter().skip(1) {
            let mut a = plain.clone();
            a[j] = e.arr.clone();
            combos.push((format!("col{j}={}", e.name), a));
        }
    }
    if k > 1 {
        let m = encs.iter().map(|e| e.len()).max().unwrap();
        for i in 1..m {
            let a: Vec<ArrayRef> = encs.iter().map(|e| e[i % e.len()].arr.clone()).collect();
            combos.push((format!("diag{i}"), a));
        }
    }
    // canonical one-row references
    let singles: Vec<Vec<ArrayRef>> = (0..n)
        .map(|r| c.types.iter().zip(&c.cols).map(|(t, col)| enc::plain(t, &[canon(&col[r])])).collect())
        .collect();
    let tuples: Vec<Vec<V>> = (0..n).map(|r| c.cols.iter().map(|col| canon(&col[r])).collect()).collect();
    for r in 0..n {
        if tuples[r].iter().any(|v| *v == V::Null) {
            st.null_rows += 1;
        }
    }
    let names = c.types.iter().map(|t| t.name()).collect::<Vec<_>>().join(", ");
    for f in FAMS {
        let h0 = direct(f, &plain)?;
        st.hash_calls += 1;
        if matches!(f, Fam::Fixed) {
            st.h0 = h0.clone();
        }
        for r1 in 0..n {
            for r2 in r1 + 1..n {
                if tuples[r1] == tuples[r2] {
                    st.equal_rows += 1;
                    if h0[r1] != h0[r2] {
                        return Err(format!(
                            "{f:?}({names}): rows {r1} and {r2} are equal ({:?}) but hash to {:#x} and {:#x} (plain encoding)",
                            tuples[r1], h0[r1], h0[r2]
                        ));
                    }
                }
            }
        }
        for (r, single) in singles.iter().enumerate() {
            let hs = direct(f, single)?;
            st.hash_calls += 1;
            if hs[0] != h0[r] {
                return Err(format!(
                    "{f:?}({names}): row {r} = {:?} hashes to {:#x} inside the column but to {:#x} as a one-row array of the same value",
                    tuples[r], h0[r], hs[0]
                ));
            }
        }
        dirty_buffer();
        let hb = buffered(f, &plain)?;
        if hb != h0 {
            return Err(format!("{f:?}({names}): buffered entry point returned {hb:x?}, direct one {h0:x?} (plain encoding)"));
        }
        for (name, arrays) in &combos {
            let h = direct(f, arrays)?;
            st.hash_calls += 1;
            if h != h0 {
                return Err(format!(
                    "{f:?}({names}): encoding [{name}] of the same logical rows hashes to {h:x?}, plain encoding to {h0:x?}"
                ));
            }
            dirty_buffer();
            let hb = buffered(f, arrays)?;
            st.hash_calls += 1;
            if hb != h {
                return Err(format!("{f:?}({names}): buffered entry point returned {hb:x?}, direct one {h:x?} for encoding [{name}]"));
            }
        }
    }
    // re-entrancy: must fail cleanly and leave the outer call intact
    if n > 0 {
        let h = reentrant(&plain)?;
        if h != st.h0 {
            return Err(format!("with_hashes returned {h:x?} around a re-entrant call, expected {:x?}", st.h0));
        }
        let hb = buffered(Fam::Fixed, &plain)?;
        if hb != st.h0 {
            return Err("with_hashes wrong after a failed re-entrant call".into());
        }
    }
    // scalars
    if c.scalars && k == 1 {
        let mut scalars: Vec<(ScalarValue, u64, usize, usize)> = vec![];
        'outer: for (ei, e) in encs[0].iter().enumerate() {
            for r in 0..n {
                match ScalarValue::try_from_array(e.arr.as_ref(), r) {
                    Ok(s) => {
                        let h = std_hash(&s);
                        scalars.push((s, h, ei, r));
                    }
                    Err(_) => {
                        st.scalar_unsupported += 1;
                        break 'outer;
                    }
                }
            }
        }
        for i in 0..scalars.len() {
            for j in i + 1..scalars.len() {
                if scalars[i].0 == scalars[j].0 {
                    if scalars[i].2 != scalars[j].2 {
                        st.scalar_eq_pairs += 1;
                    }
                    if scalars[i].1 != scalars[j].1 {
                        return Err(format!(
                            "ScalarValue({names}): {:?} (encoding {}, row {}) == {:?} (encoding {}, row {}) but their Hash differs",
                            scalars[i].0, encs[0][scalars[i].2].name, scalars[i].3, scalars[j].0, encs[0][scalars[j].2].name, scalars[j].3
                        ));
                    }
                }
            }
        }
    }
    Ok(st)
}

/// A job enumerates, for one tuple of key types, all logical columns of length
/// `min_n..=max_n` (shortest first).  After the first violation the rest of the
/// job is skipped, so at most one (the smallest) violation is reported per tuple
/// of key types.
struct Job {
    types: Vec<T>,
    domains: Vec<Vec<V>>,
    min_n: usize,
    max_n: usize,
    slices: usize,
    scalar_len: usize,
}

fn prefix_type() -> T {
    T::Prim(enc::P::I32)
}
fn prefix_domain() -> Vec<V> {
    vec![V::Null, V::Int(1)]
}

fn job(types: &[&T], prefix: bool, min_n: usize, max_n: usize, slices: usize, scalar_len: usize) -> Job {
    let mut ts = vec![];
    let mut ds = vec![];
    if prefix {
        ts.push(prefix_type());
        ds.push(prefix_domain());
    }
    for t in types {
        ts.push((*t).clone());
        ds.push(t.domain());
    }
    Job { types: ts, domains: ds, min_n, max_n, slices, scalar_len }
}

fn explore(ctx: &Ctx) {
    let no_exotic = std::env::var("C12_NO_EXOTIC").is_ok();
    let base = enc::key_type_menu();
    let exotic = if no_exotic { vec![] } else { enc::exotic_menu() };
    let menu: Vec<T> = base.iter().cloned().chain(exotic.iter().cloned()).collect();
    let rep = enc::representative_menu();
    let l1 = ctx.pick(4, 5);
    let l2 = ctx.pick(3, 4);
    let scalar_len = ctx.pick(2, 3);
    let mut jobs: Vec<Job> = vec![];
    // simplest first: single column, then behind the Int32 prefix column
    for t in &menu {
        jobs.push(job(&[t], false, 0, l1, 4, scalar_len));
    }
    for t in &menu {
        jobs.push(job(&[t], true, 1, l2, 4, 0));
    }
    if ctx.thorough() {
        for x in &rep {
            for y in &base {
                jobs.push(job(&[x, y], false, 1, 2, 2, 0));
            }
        }
        for x in &rep {
            for y in &rep {
                jobs.push(job(&[x, y], true, 1, 2, 2, 0));
            }
        }
        for x in &rep {
            for y in &rep {
                for z in &rep {
                    jobs.push(job(&[x, y, z], true, 1, 1, 2, 0));
                }
            }
        }
    } else {
        // quick: three key columns of mixed types, one row
        for x in &rep {
            for y in &rep {
                jobs.push(job(&[x, y], true, 1, 1, 2, 0));
            }
        }
    }
    let enc_counts: Vec<usize> =
        menu.iter().map(|t| enc::encodings(t, &t.domain()[..1.min(t.domain().len())], 4).len()).collect();
    ctx.set_extra(
        "bounds",
        json!({
            "key_types": menu.len(),
            "key_type_names": menu.iter().map(|t| t.name()).collect::<Vec<_>>(),
            "representative_types": rep.iter().map(|t| t.name()).collect::<Vec<_>>(),
            "domain_size": "3-5 logical values per type incl. NULL (floats: NULL, +0.0, -0.0, 1.5, NaN; views: 1, 12, 13, 13 bytes)",
            "single_column_max_len": l1,
            "two_column_max_len (Int32{NULL,1} prefix x every type)": l2,
            "three_columns": if ctx.quick() { "prefix x rep x rep, 1 row" } else { "prefix x rep x rep, <= 2 rows; rep x every type, <= 2 rows" },
            "four_columns": if ctx.quick() { "-" } else { "prefix x rep^3, 1 row" },
            "encodings_per_one_row_column(min,max)": [enc_counts.iter().min(), enc_counts.iter().max()],
            "hash_families": ["create_hashes(fast FixedState)", "create_hashes(quality FixedState)", "create_hashes_with_hasher(FixedState)", "create_hashes_with_hasher(SipHash)"],
            "scalar_check_max_len": scalar_len,
            "type_tuples": jobs.len(),
            "exotic_types_included": !no_exotic,
            "violations_reported": "at most one (the smallest) per tuple of key types",
        }),
    );
    ctx.assume("hash buffers passed to create_hashes are zero-initialised (as every caller and with_hashes do)");
    ctx.assume("only spec-valid arrays are built (validated constructors; view padding is zero)");
    jobs.par_iter().for_each(|job| {
        let k = job.types.len();
        for n in job.min_n..=job.max_n {
            let dims: Vec<usize> = job.domains.iter().flat_map(|d| std::iter::repeat(d.len()).take(n)).collect();
            let mut idxs: Vec<Vec<usize>> = vec![];
            enumerate::product(&dims, |idx| idxs.push(idx.to_vec()));
            // evaluate one case; Some(violation) if it fails
            let eval = |idx: &Vec<usize>| -> Option<(String, Value)> {
                if ctx.should_stop() {
                    return None;
                }
                let cols: Vec<Vec<V>> =
                    (0..k).map(|j| (0..n).map(|r| job.domains[j][idx[j * n + r]].clone()).collect()).collect();
                let c = Case { types: job.types.clone(), cols, slices: job.slices, scalars: n <= job.scalar_len };
                ctx.eval();
                match mc_core::catch(|| run_case(&c)).unwrap_or_else(Err) {
                    Ok(st) => {
                        ctx.count("encodings_built", st.encodings);
                        ctx.count("hash_calls", st.hash_calls);
                        ctx.count("equal_row_pairs_checked", st.equal_rows);
                        ctx.count("rows_with_null", st.null_rows);
                        ctx.count("scalar_equal_pairs_across_encodings", st.scalar_eq_pairs);
                        ctx.count("scalar_unsupported_types", st.scalar_unsupported);
                        if n >= 1 && st.encodings as usize > k {
                            ctx.nontrivial(&c);
                            if n >= 2 && k == 2 && st.encodings > 100 && st.null_rows > 0 && st.equal_rows > 0 && ctx.want_sample() {
                                ctx.sample(json!({
                                    "types": c.types.iter().map(|t| t.name()).collect::<Vec<_>>(),
                                    "columns": c.cols,
                                    "encodings_per_column": st.encodings,
                                    "hashes(create_hashes, fast state)": st.h0.iter().map(|h| format!("{h:#x}")).collect::<Vec<_>>(),
                                }));
                            }
                        }
                        None
                    }
                    Err(what) => {
                        if what.starts_with("MACHINERY") {
                            ctx.machinery_error(what);
                            return None;
                        }
                        Some((what, serde_json::to_value(&c).unwrap()))
                    }
                }
            };
            // first (smallest) violation of this tuple of key types, deterministically
            let first = idxs.par_iter().map(eval).find_first(|r| r.is_some()).flatten();
            if let Some((what, cv)) = first {
                ctx.violation(serde_json::to_string(&cv).unwrap(), what, cv);
                break;
            }
        }
    });
}

fn replay(v: &Value) -> Result<(), String> {
    let c: Case = serde_json::from_value(v.clone()).map_err(|e| format!("bad case: {e}"))?;
    mc_core::catch(|| run_case(&c)).unwrap_or_else(Err).map(|_| ())
}

fn main() {
    mc_core::quiet_panics();
    run_check(
        "C12",
        Level::Exploration,
        "every (tuple of key types, logical column(s) of bounded length over the per-type value domains); for each, every physical \
         encoding of each column (others plain) plus the diagonal, under 4 hash families, direct and buffered; \
         non-trivial = at least one row and at least two physically different encodings compared",
        explore,
        replay,
    );
}
