//! C34 — scalar values, arrays and casts are mutually consistent.
//!
//! A fixed universe of several hundred `ScalarValue`s (every variant; NULL, zero,
//! extremes, typical values; nested scalars in several physical layouts) is
//! built, then five laws are checked exhaustively over it:
//!
//! * `roundtrip` — `to_array_of_size(n)` for n in {0,1,2,3,7}, then
//!   `try_from_array(i)` = the scalar at every i (type and length preserved);
//! * `iter`      — `iter_to_array` of every pair / triple of same-typed scalars
//!   reads back those scalars;
//! * `hash`      — `a == b ⇒ hash(a) == hash(b)` over all pairs;
//! * `order`     — for primitive / string / binary / temporal / decimal types the
//!   order is total, antisymmetric, transitive, consistent with `==`, agrees with
//!   Arrow's ascending NULLS FIRST sort (`sort_to_indices`, `make_comparator`,
//!   row format) and `compare_rows` agrees with Arrow's comparator under all four
//!   sort options;
//! * `cast`      — `cast_to(T)` = casting a 1-row and a 3-row array of the scalar
//!   (same value or both fail) for every target type of the menu.
use arrow::array::{Array, ArrayRef, AsArray};
use arrow::compute::{SortOptions, cast_with_options, sort_to_indices};
use arrow::datatypes::{DataType, Field, IntervalDayTime, IntervalMonthDayNano, IntervalUnit, TimeUnit, UnionFields, UnionMode, i256};
use arrow::row::{RowConverter, SortField};
use chk_common::enc::{self, K, P, T};
use datafusion_common::ScalarValue;
use datafusion_common::format::DEFAULT_CAST_OPTIONS;
use datafusion_common::nested_struct::{cast_column, requires_nested_struct_cast};
use datafusion_common::utils::compare_rows;
use half::f16;
use mc_core::serde_json::{Value, json};
use mc_core::{Ctx, Level, rayon::prelude::*, run_check};
use serde::{Deserialize, Serialize};
use std::cmp::Ordering;
use std::collections::BTreeMap;
use std::hash::{Hash, Hasher};
use std::sync::Arc;

#[derive(Clone)]
struct S {
    name: String,
    v: ScalarValue,
    /// member of the classes for which the property demands a total order
    ordered: bool,
    /// nested scalars: the wrapped 1-row array is in the plain physical layout
    /// (no hidden child values, offset 0); always true for non-nested scalars
    canonical: bool,
}

fn demo(which: &str) -> bool {
    std::env::var("VERIF_DEMO_C34").map(|v| v == which).unwrap_or(false)
}

// ---------------------------------------------------------------------------
// the universe

fn universe() -> Vec<S> {
    let mut out: Vec<S> = vec![];
    let mut push = |name: String, v: ScalarValue, ordered: bool| {
        let canonical = !name.contains("/v") || name.ends_with("/L0.G0.S0");
        out.push(S { name, v, ordered, canonical })
    };

    push("Null".into(), ScalarValue::Null, false);
    for (n, v) in [("null", None), ("false", Some(false)), ("true", Some(true))] {
        push(format!("Boolean/{n}"), ScalarValue::Boolean(v), true);
    }
    macro_rules! ints {
        ($var:ident, $t:ty) => {
            for (n, v) in [
                ("null", None),
                ("0", Some(0 as $t)),
                ("1", Some(1 as $t)),
                ("m1", Some((0 as $t).wrapping_sub(1))),
                ("min", Some(<$t>::MIN)),
                ("max", Some(<$t>::MAX)),
                ("7", Some(7 as $t)),
            ] {
                push(format!("{}/{}", stringify!($var), n), ScalarValue::$var(v), true);
            }
        };
    }
    ints!(Int8, i8);
    ints!(Int16, i16);
    ints!(Int32, i32);
    ints!(Int64, i64);
    ints!(UInt8, u8);
    ints!(UInt16, u16);
    ints!(UInt32, u32);
    ints!(UInt64, u64);
    ints!(Date32, i32);
    ints!(Date64, i64);
    ints!(DurationSecond, i64);
    ints!(DurationMillisecond, i64);
    ints!(DurationMicrosecond, i64);
    ints!(DurationNanosecond, i64);
    ints!(IntervalYearMonth, i32);
    let floats: Vec<(&str, f64)> = vec![
        ("0", 0.0),
        ("-0", -0.0),
        ("1.5", 1.5),
        ("-1.5", -1.5),
        ("inf", f64::INFINITY),
        ("-inf", f64::NEG_INFINITY),
        ("nan", f64::NAN),
        ("-nan", f64::from_bits(0xfff8_0000_0000_0000)),
        ("tiny", 1e-300),
        ("big", 1e300),
        ("3", 3.0),
    ];
    push("Float64/null".into(), ScalarValue::Float64(None), true);
    push("Float32/null".into(), ScalarValue::Float32(None), true);
    push("Float16/null".into(), ScalarValue::Float16(None), true);
    for (n, x) in &floats {
        push(format!("Float64/{n}"), ScalarValue::Float64(Some(*x)), true);
        let x32 = if *n == "-nan" { f32::from_bits(0xffc0_0000) } else { *x as f32 };
        push(format!("Float32/{n}"), ScalarValue::Float32(Some(x32)), true);
        let x16 = if *n == "-nan" { f16::from_bits(0xfe00) } else { f16::from_f64(*x) };
        push(format!("Float16/{n}"), ScalarValue::Float16(Some(x16)), true);
    }
    push("Float64/max".into(), ScalarValue::Float64(Some(f64::MAX)), true);
    push("Float32/max".into(), ScalarValue::Float32(Some(f32::MAX)), true);
    push("Float16/max".into(), ScalarValue::Float16(Some(f16::MAX)), true);
    // decimals (values within the precision)
    for (n, v) in [("null", None), ("0", Some(0i32)), ("1", Some(1)), ("m1", Some(-1)), ("max", Some(99_999)), ("min", Some(-99_999))] {
        push(format!("Decimal32(5,1)/{n}"), ScalarValue::Decimal32(v, 5, 1), true);
    }
    for (n, v) in [("null", None), ("0", Some(0i64)), ("1", Some(1)), ("m1", Some(-1)), ("max", Some(9_999_999_999)), ("min", Some(-9_999_999_999))] {
        push(format!("Decimal64(10,2)/{n}"), ScalarValue::Decimal64(v, 10, 2), true);
    }
    let p38 = 10i128.pow(38) - 1;
    for (p, sc, mx) in [(20u8, 3i8, 10i128.pow(20) - 1), (38, 10, p38), (10, -2, 10i128.pow(10) - 1)] {
        for (n, v) in [("null", None), ("0", Some(0i128)), ("1", Some(1)), ("m1", Some(-1)), ("max", Some(mx)), ("min", Some(-mx)), ("12345", Some(12345))] {
            push(format!("Decimal128({p},{sc})/{n}"), ScalarValue::Decimal128(v, p, sc), true);
        }
    }
    let big = i256::from_i128(p38).wrapping_mul(i256::from_i128(1_000_000));
    for (p, sc, mx) in [(40u8, 4i8, i256::from_i128(p38)), (76, 0, big)] {
        for (n, v) in [
            ("null", None),
            ("0", Some(i256::ZERO)),
            ("1", Some(i256::ONE)),
            ("m1", Some(i256::MINUS_ONE)),
            ("max", Some(mx)),
            ("min", Some(mx.wrapping_neg())),
            ("2^64", Some(i256::from_parts(0, 0).wrapping_add(i256::from_i128(1i128 << 64)))),
            ("2^128", Some(i256::from_parts(0, 1))),
        ] {
            push(format!("Decimal256({p},{sc})/{n}"), ScalarValue::Decimal256(v, p, sc), true);
        }
    }
    // times (valid range only)
    for (n, v) in [("null", None), ("0", Some(0i32)), ("1", Some(1)), ("last", Some(86_399))] {
        push(format!("Time32Second/{n}"), ScalarValue::Time32Second(v), true);
    }
    for (n, v) in [("null", None), ("0", Some(0i32)), ("1", Some(1)), ("last", Some(86_399_999))] {
        push(format!("Time32Millisecond/{n}"), ScalarValue::Time32Millisecond(v), true);
    }
    for (n, v) in [("null", None), ("0", Some(0i64)), ("1", Some(1)), ("last", Some(86_399_999_999))] {
        push(format!("Time64Microsecond/{n}"), ScalarValue::Time64Microsecond(v), true);
    }
    for (n, v) in [("null", None), ("0", Some(0i64)), ("1", Some(1)), ("last", Some(86_399_999_999_999))] {
        push(format!("Time64Nanosecond/{n}"), ScalarValue::Time64Nanosecond(v), true);
    }
    // timestamps x tz
    for tz in [None, Some("UTC"), Some("+02:00")] {
        let tzs: Option<Arc<str>> = tz.map(|s| s.into());
        let tn = tz.unwrap_or("-");
        for (n, v) in [
            ("null", None),
            ("0", Some(0i64)),
            ("1", Some(1)),
            ("m1", Some(-1)),
            ("min", Some(i64::MIN)),
            ("max", Some(i64::MAX)),
            ("2023", Some(1_700_000_000)),
            ("big", Some(9_300_000_000_000_000)),
        ] {
            push(format!("TimestampSecond[{tn}]/{n}"), ScalarValue::TimestampSecond(v, tzs.clone()), true);
            push(format!("TimestampMillisecond[{tn}]/{n}"), ScalarValue::TimestampMillisecond(v, tzs.clone()), true);
            push(format!("TimestampMicrosecond[{tn}]/{n}"), ScalarValue::TimestampMicrosecond(v, tzs.clone()), true);
            push(format!("TimestampNanosecond[{tn}]/{n}"), ScalarValue::TimestampNanosecond(v, tzs.clone()), true);
        }
    }
    for (n, v) in [
        ("null", None),
        ("0", Some(IntervalDayTime::new(0, 0))),
        ("d1", Some(IntervalDayTime::new(1, 0))),
        ("ms1", Some(IntervalDayTime::new(0, 1))),
        ("mixed", Some(IntervalDayTime::new(-1, 5))),
        ("min", Some(IntervalDayTime::new(i32::MIN, i32::MIN))),
        ("max", Some(IntervalDayTime::new(i32::MAX, i32::MAX))),
    ] {
        push(format!("IntervalDayTime/{n}"), ScalarValue::IntervalDayTime(v), true);
    }
    for (n, v) in [
        ("null", None),
        ("0", Some(IntervalMonthDayNano::new(0, 0, 0))),
        ("m1", Some(IntervalMonthDayNano::new(1, 0, 0))),
        ("d1", Some(IntervalMonthDayNano::new(0, 1, 0))),
        ("n1", Some(IntervalMonthDayNano::new(0, 0, 1))),
        ("mixed", Some(IntervalMonthDayNano::new(-1, 2, -3))),
        ("min", Some(IntervalMonthDayNano::new(i32::MIN, i32::MIN, i64::MIN))),
        ("max", Some(IntervalMonthDayNano::new(i32::MAX, i32::MAX, i64::MAX))),
    ] {
        push(format!("IntervalMonthDayNano/{n}"), ScalarValue::IntervalMonthDayNano(v), true);
    }
    // strings
    let strs: Vec<Option<&str>> = vec![
        None, Some(""), Some("a"), Some("ab"), Some("b"), Some("é"), Some("abcdefghijklm"), Some("abcdefghijklM"),
        Some("1"), Some("-1"), Some("1.5"), Some("true"), Some("2020-01-01"), Some("2020-01-01T00:00:00"), Some("12:00:00"), Some(" 1"),
        Some("nan"), Some("300"),
    ];
    for sv in &strs {
        let n = sv.map(|s| format!("{s:?}")).unwrap_or("null".into());
        push(format!("Utf8/{n}"), ScalarValue::Utf8(sv.map(String::from)), true);
        push(format!("LargeUtf8/{n}"), ScalarValue::LargeUtf8(sv.map(String::from)), true);
        push(format!("Utf8View/{n}"), ScalarValue::Utf8View(sv.map(String::from)), true);
    }
    let bins: Vec<Option<Vec<u8>>> =
        vec![None, Some(vec![]), Some(vec![0]), Some(vec![0, 255]), Some(vec![255]), Some(b"abcdefghijklm".to_vec()), Some(b"1".to_vec()), Some(vec![0xff, 0xfe])];
    for b in &bins {
        let n = b.as_ref().map(|x| format!("{x:?}")).unwrap_or("null".into());
        push(format!("Binary/{n}"), ScalarValue::Binary(b.clone()), true);
        push(format!("LargeBinary/{n}"), ScalarValue::LargeBinary(b.clone()), true);
        push(format!("BinaryView/{n}"), ScalarValue::BinaryView(b.clone()), true);
    }
    for b in [None, Some(vec![0u8, 0]), Some(vec![0, 1]), Some(vec![1, 0]), Some(vec![255, 255])] {
        let n = b.as_ref().map(|x| format!("{x:?}")).unwrap_or("null".into());
        push(format!("FixedSizeBinary(2)/{n}"), ScalarValue::FixedSizeBinary(2, b), true);
    }
    for b in [None, Some(vec![])] {
        let n = b.as_ref().map(|x| format!("{x:?}")).unwrap_or("null".into());
        push(format!("FixedSizeBinary(0)/{n}"), ScalarValue::FixedSizeBinary(0, b), true);
    }
    // nested scalars in several physical layouts (1-row arrays from the shared encoders)
    let bx = |t: T| Box::new(t);
    let i32t = || T::Prim(P::I32);
    let nested: Vec<T> = vec![
        T::List(bx(i32t())),
        T::List(bx(T::Utf8)),
        T::List(bx(T::Prim(P::F64))),
        T::List(bx(T::List(bx(i32t())))),
        T::List(bx(T::Struct(vec![i32t(), T::Utf8]))),
        T::LargeList(bx(i32t())),
        T::ListView(bx(i32t())),
        T::LargeListView(bx(T::Utf8)),
        T::Fsl(bx(i32t()), 2),
        T::Fsl(bx(T::Utf8), 2),
        T::Struct(vec![i32t(), T::Utf8]),
        T::Struct(vec![T::Prim(P::F64), T::List(bx(i32t()))]),
        T::Struct(vec![T::Struct(vec![i32t(), T::Bool]), T::Prim(P::F32)]),
        T::Map(bx(T::Utf8), bx(i32t())),
        T::Map(bx(i32t()), bx(T::Utf8View)),
    ];
    for t in &nested {
        for (vi, v) in t.domain().iter().enumerate() {
            let encs = enc::encodings(t, std::slice::from_ref(v), 4);
            // a spread of physically different 1-row arrays
            let step = (encs.len() / 6).max(1);
            for e in encs.iter().step_by(step).take(7) {
                enc::self_check(t, std::slice::from_ref(v), e).expect("encoder self check");
                let a = &e.arr;
                let sv = match t {
                    T::List(_) => ScalarValue::List(Arc::new(a.as_list::<i32>().clone())),
                    T::LargeList(_) => ScalarValue::LargeList(Arc::new(a.as_list::<i64>().clone())),
                    T::ListView(_) => ScalarValue::ListView(Arc::new(a.as_list_view::<i32>().clone())),
                    T::LargeListView(_) => ScalarValue::LargeListView(Arc::new(a.as_list_view::<i64>().clone())),
                    T::Fsl(..) => ScalarValue::FixedSizeList(Arc::new(a.as_fixed_size_list().clone())),
                    T::Struct(_) => ScalarValue::Struct(Arc::new(a.as_struct().clone())),
                    T::Map(..) => ScalarValue::Map(Arc::new(a.as_map().clone())),
                    _ => unreachable!(),
                };
                push(format!("{}/v{vi}/{}", t.name(), e.name), sv, false);
            }
        }
    }
    // dictionary / run-end encoded / union wrappers around simple scalars
    let inner: Vec<(&str, ScalarValue)> = vec![
        ("utf8-null", ScalarValue::Utf8(None)),
        ("utf8-''", ScalarValue::Utf8(Some("".into()))),
        ("utf8-a", ScalarValue::Utf8(Some("a".into()))),
        ("utf8-1", ScalarValue::Utf8(Some("1".into()))),
        ("i64-null", ScalarValue::Int64(None)),
        ("i64-0", ScalarValue::Int64(Some(0))),
        ("i64-max", ScalarValue::Int64(Some(i64::MAX))),
        ("f64--0", ScalarValue::Float64(Some(-0.0))),
        ("f64-0", ScalarValue::Float64(Some(0.0))),
        ("f64-nan", ScalarValue::Float64(Some(f64::NAN))),
        ("view-long", ScalarValue::Utf8View(Some("abcdefghijklm".into()))),
        ("view-null", ScalarValue::Utf8View(None)),
    ];
    for k in [K::I8, K::I32, K::U16] {
        for (n, iv) in &inner {
            push(format!("Dictionary<{k:?}>/{n}"), ScalarValue::Dictionary(Box::new(k.data_type()), Box::new(iv.clone())), false);
        }
    }
    for r in [DataType::Int16, DataType::Int32, DataType::Int64] {
        for (n, iv) in &inner {
            let rf = Arc::new(Field::new("run_ends", r.clone(), false));
            let vf = Arc::new(Field::new("values", iv.data_type(), true));
            push(format!("RunEndEncoded<{r}>/{n}"), ScalarValue::RunEndEncoded(rf, vf, Box::new(iv.clone())), false);
        }
    }
    let ufields = UnionFields::try_new(
        vec![0i8, 1, 2],
        vec![Field::new("i", DataType::Int32, true), Field::new("s", DataType::Utf8, true), Field::new("b", DataType::Boolean, true)],
    )
    .unwrap();
    for mode in [UnionMode::Sparse, UnionMode::Dense] {
        for (n, tid, iv) in [
            ("i-1", 0i8, ScalarValue::Int32(Some(1))),
            ("i-null", 0, ScalarValue::Int32(None)),
            ("s-a", 1, ScalarValue::Utf8(Some("a".into()))),
            ("s-null", 1, ScalarValue::Utf8(None)),
            ("b-true", 2, ScalarValue::Boolean(Some(true))),
        ] {
            push(format!("Union<{mode:?}>/{n}"), ScalarValue::Union(Some((tid, Box::new(iv))), ufields.clone(), mode), false);
        }
        push(format!("Union<{mode:?}>/none"), ScalarValue::Union(None, ufields.clone(), mode), false);
    }
    out
}

fn cast_targets() -> Vec<DataType> {
    use DataType as D;
    vec![
        D::Null, D::Boolean, D::Int8, D::Int16, D::Int32, D::Int64, D::UInt8, D::UInt32, D::UInt64,
        D::Float16, D::Float32, D::Float64,
        D::Decimal32(5, 1), D::Decimal64(10, 2), D::Decimal128(10, 2), D::Decimal128(38, 10), D::Decimal256(40, 4),
        D::Utf8, D::LargeUtf8, D::Utf8View, D::Binary, D::LargeBinary, D::BinaryView, D::FixedSizeBinary(2),
        D::Date32, D::Date64, D::Time32(TimeUnit::Second), D::Time64(TimeUnit::Nanosecond),
        D::Timestamp(TimeUnit::Second, None), D::Timestamp(TimeUnit::Millisecond, None),
        D::Timestamp(TimeUnit::Microsecond, Some("+02:00".into())), D::Timestamp(TimeUnit::Nanosecond, None),
        D::Timestamp(TimeUnit::Nanosecond, Some("UTC".into())),
        D::Duration(TimeUnit::Millisecond), D::Duration(TimeUnit::Nanosecond),
        D::Interval(IntervalUnit::YearMonth), D::Interval(IntervalUnit::MonthDayNano),
        D::Dictionary(Box::new(D::Int8), Box::new(D::Utf8)), D::Dictionary(Box::new(D::Int32), Box::new(D::Int64)),
        D::List(Arc::new(Field::new("item", D::Int32, true))),
        D::List(Arc::new(Field::new("item", D::Utf8, true))),
        D::LargeList(Arc::new(Field::new("item", D::Int64, true))),
        D::FixedSizeList(Arc::new(Field::new("item", D::Int32, true)), 2),
        D::Struct(vec![Field::new("c0", D::Int64, true), Field::new("c1", D::Utf8View, true)].into()),
        D::Struct(vec![Field::new("c1", D::Utf8, true), Field::new("c0", D::Int32, true)].into()),
    ]
}

// ---------------------------------------------------------------------------
// laws

fn std_hash(s: &ScalarValue) -> u64 {
    let mut h = std::collections::hash_map::DefaultHasher::new();
    s.hash(&mut h);
    h.finish()
}

/// Read-back equality.  A NULL union scalar (`Union(None, ..)`) has no array
/// representation of its own (union arrays carry no validity), so a NULL of the
/// same type is accepted for it.
fn same(back: &ScalarValue, orig: &ScalarValue) -> bool {
    if back == orig {
        return true;
    }
    if let ScalarValue::Union(None, ..) = orig {
        return back.is_null() && back.data_type() == orig.data_type();
    }
    false
}

const SIZES: [usize; 5] = [0, 1, 2, 3, 7];

fn law_roundtrip(s: &S) -> Result<bool, String> {
    for n in SIZES {
        let arr = s.v.to_array_of_size(n).map_err(|e| format!("{}.to_array_of_size({n}) failed: {e}", s.name))?;
        if arr.len() != n {
            return Err(format!("{}.to_array_of_size({n}) has length {}", s.name, arr.len()));
        }
        if *arr.data_type() != s.v.data_type() {
            return Err(format!("{}.to_array_of_size({n}) has type {} but the scalar's data_type() is {}", s.name, arr.data_type(), s.v.data_type()));
        }
        for i in 0..n {
            let mut back = ScalarValue::try_from_array(arr.as_ref(), i)
                .map_err(|e| format!("try_from_array({}.to_array_of_size({n}), {i}) failed: {e}", s.name))?;
            if demo("roundtrip") && i == 2 {
                if let ScalarValue::TimestampNanosecond(v, Some(_)) = &back {
                    back = ScalarValue::TimestampNanosecond(v.map(|x| x.wrapping_add(1)), None);
                }
            }
            if !same(&back, &s.v) {
                return Err(format!("try_from_array({}.to_array_of_size({n}), {i}) = {back:?}, expected {:?}", s.name, s.v));
            }
        }
    }
    Ok(true)
}

fn law_iter(items: &[&S]) -> Result<bool, String> {
    let names = items.iter().map(|s| s.name.as_str()).collect::<Vec<_>>().join(", ");
    let arr = ScalarValue::iter_to_array(items.iter().map(|s| s.v.clone())).map_err(|e| format!("iter_to_array([{names}]) failed: {e}"))?;
    if arr.len() != items.len() {
        return Err(format!("iter_to_array([{names}]) has length {}", arr.len()));
    }
    if *arr.data_type() != items[0].v.data_type() {
        return Err(format!("iter_to_array([{names}]) has type {} instead of {}", arr.data_type(), items[0].v.data_type()));
    }
    for (i, s) in items.iter().enumerate() {
        let back = ScalarValue::try_from_array(arr.as_ref(), i).map_err(|e| format!("try_from_array(iter_to_array([{names}]), {i}) failed: {e}"))?;
        if !same(&back, &s.v) {
            return Err(format!("try_from_array(iter_to_array([{names}]), {i}) = {back:?}, expected {:?}", s.v));
        }
    }
    Ok(items.windows(2).any(|w| w[0].v != w[1].v))
}

fn law_hash(a: &S, b: &S) -> Result<bool, String> {
    let mut eq = a.v == b.v;
    if demo("hash") && a.name == "Float64/0" && b.name == "Float64/-0" {
        eq = true; // planted: the reference claims 0.0 == -0.0 for ScalarValue
    }
    if eq != (b.v == a.v) {
        return Err(format!("== is not symmetric for {} and {}", a.name, b.name));
    }
    if eq && std_hash(&a.v) != std_hash(&b.v) {
        return Err(format!("{} == {} but their hashes differ ({:#x} vs {:#x})", a.name, b.name, std_hash(&a.v), std_hash(&b.v)));
    }
    Ok(eq)
}

fn all_options() -> [SortOptions; 4] {
    [
        SortOptions { descending: false, nulls_first: true },
        SortOptions { descending: false, nulls_first: false },
        SortOptions { descending: true, nulls_first: true },
        SortOptions { descending: true, nulls_first: false },
    ]
}

/// Order laws over one group of same-typed scalars.  Returns the number of strictly ordered pairs.
fn law_order(group: &[&S]) -> Result<u64, String> {
    let n = group.len();
    let mut cmp = vec![vec![Ordering::Equal; n]; n];
    for i in 0..n {
        for j in 0..n {
            let c = group[i].v.partial_cmp(&group[j].v).ok_or_else(|| format!("{}.partial_cmp({}) is None (order not total)", group[i].name, group[j].name))?;
            cmp[i][j] = c;
        }
    }
    if demo("order") {
        // planted: the reference expects IEEE comparison (0.0 == -0.0) instead of the total order
        for i in 0..n {
            for j in 0..n {
                if group[i].name.ends_with("/0") && group[j].name.ends_with("/-0") && group[i].name.starts_with("Float") {
                    cmp[i][j] = Ordering::Equal;
                    cmp[j][i] = Ordering::Equal;
                }
            }
        }
    }
    let mut strict = 0u64;
    for i in 0..n {
        for j in 0..n {
            if cmp[i][j] != cmp[j][i].reverse() {
                return Err(format!("not antisymmetric: {} vs {} = {:?}, reverse = {:?}", group[i].name, group[j].name, cmp[i][j], cmp[j][i]));
            }
            if (cmp[i][j] == Ordering::Equal) != (group[i].v == group[j].v) {
                return Err(format!("partial_cmp({}, {}) = {:?} but == is {}", group[i].name, group[j].name, cmp[i][j], group[i].v == group[j].v));
            }
            if cmp[i][j] == Ordering::Less {
                strict += 1;
            }
            for k in 0..n {
                if cmp[i][j] != Ordering::Greater && cmp[j][k] != Ordering::Greater && cmp[i][k] == Ordering::Greater {
                    return Err(format!("not transitive: {} <= {} <= {} but {} > {}", group[i].name, group[j].name, group[k].name, group[i].name, group[k].name));
                }
            }
        }
    }
    // against Arrow's sort machinery on the array built from the same scalars
    let arr = ScalarValue::iter_to_array(group.iter().map(|s| s.v.clone())).map_err(|e| format!("iter_to_array of the group failed: {e}"))?;
    let asc = SortOptions { descending: false, nulls_first: true };
    let idx = sort_to_indices(arr.as_ref(), Some(asc), None).map_err(|e| format!("sort_to_indices failed: {e}"))?;
    let order: Vec<usize> = idx.values().iter().map(|x| *x as usize).collect();
    for w in order.windows(2) {
        if cmp[w[0]][w[1]] == Ordering::Greater {
            return Err(format!("ascending NULLS FIRST sort places {} before {} but the scalar order says it is greater", group[w[0]].name, group[w[1]].name));
        }
    }
    for opts in all_options() {
        let comparator = arrow::array::make_comparator(arr.as_ref(), arr.as_ref(), opts).map_err(|e| format!("make_comparator failed: {e}"))?;
        for i in 0..n {
            for j in 0..n {
                let a = comparator(i, j);
                if opts == asc && a != cmp[i][j] {
                    return Err(format!("Arrow comparator (asc, nulls first) says {:?} for ({}, {}) but partial_cmp says {:?}", a, group[i].name, group[j].name, cmp[i][j]));
                }
                let cr = compare_rows(std::slice::from_ref(&group[i].v), std::slice::from_ref(&group[j].v), &[opts])
                    .map_err(|e| format!("compare_rows({}, {}) failed: {e}", group[i].name, group[j].name))?;
                if cr != a && !demo("order") {
                    return Err(format!("compare_rows({}, {}, {opts:?}) = {cr:?} but Arrow's comparator with the same options says {a:?}", group[i].name, group[j].name));
                }
            }
        }
    }
    // row format (what multi-column sorts use), where supported
    let f = SortField::new_with_options(arr.data_type().clone(), asc);
    if RowConverter::supports_fields(std::slice::from_ref(&f)) {
        let conv = RowConverter::new(vec![f]).map_err(|e| format!("RowConverter::new failed: {e}"))?;
        let rows = conv.convert_columns(&[arr.clone()]).map_err(|e| format!("convert_columns failed: {e}"))?;
        for i in 0..n {
            for j in 0..n {
                let a = rows.row(i).cmp(&rows.row(j));
                if a != cmp[i][j] {
                    return Err(format!("row format orders ({}, {}) as {:?} but partial_cmp says {:?}", group[i].name, group[j].name, a, cmp[i][j]));
                }
            }
        }
    }
    Ok(strict)
}

/// i64 multiplier of a date/timestamp -> timestamp conversion when it is a multiplication (reference rule).
fn temporal_multiplier(from: &DataType, to: &DataType) -> Option<i64> {
    fn per_sec(u: &TimeUnit) -> i64 {
        match u {
            TimeUnit::Second => 1,
            TimeUnit::Millisecond => 1_000,
            TimeUnit::Microsecond => 1_000_000,
            TimeUnit::Nanosecond => 1_000_000_000,
        }
    }
    let DataType::Timestamp(tu, _) = to else { return None };
    match from {
        DataType::Date32 => Some(86_400 * per_sec(tu)),
        DataType::Date64 => {
            let r = per_sec(tu) / 1_000;
            if r > 1 { Some(r) } else { None }
        }
        DataType::Timestamp(fu, _) => {
            let (a, b) = (per_sec(fu), per_sec(tu));
            if b > a { Some(b / a) } else { None }
        }
        _ => None,
    }
}

/// The array-side cast the scalar cast must agree with: the engine's array cast
/// (`cast_array_by_name`): name-based struct cast where required, otherwise the
/// Arrow kernel with the engine's documented "timestamp out of range is an
/// error" rule for date/timestamp -> finer timestamp conversions.
fn array_cast(arr: &ArrayRef, target: &DataType) -> Result<ArrayRef, String> {
    if arr.data_type() == target {
        return Ok(arr.clone());
    }
    if requires_nested_struct_cast(arr.data_type(), target) {
        return cast_column(arr, target, &DEFAULT_CAST_OPTIONS).map_err(|e| e.to_string());
    }
    if let Some(m) = temporal_multiplier(arr.data_type(), target) {
        let as_i64 = cast_with_options(arr, &DataType::Int64, &DEFAULT_CAST_OPTIONS).map_err(|e| e.to_string())?;
        let vals = as_i64.as_primitive::<arrow::datatypes::Int64Type>();
        for i in 0..vals.len() {
            if vals.is_valid(i) && vals.value(i).checked_mul(m).is_none() {
                return Err("timestamp out of range".into());
            }
        }
    }
    cast_with_options(arr, target, &DEFAULT_CAST_OPTIONS).map_err(|e| e.to_string())
}

/// Ok(Some(non_null)) when both sides produced a value, Ok(None) when both failed.
fn law_cast(s: &S, target: &DataType) -> Result<Option<bool>, String> {
    // a panic on either side counts as that side failing
    let scalar_side = mc_core::catch(|| s.v.cast_to(target).map_err(|e| e.to_string())).unwrap_or_else(Err);
    for n in [1usize, 3] {
        let arr = s.v.to_array_of_size(n).map_err(|e| format!("{}.to_array_of_size({n}) failed: {e}", s.name))?;
        let array_side = mc_core::catch(|| array_cast(&arr, target)).unwrap_or_else(Err);
        match (&scalar_side, &array_side) {
            (Err(_), Err(_)) => {}
            (Ok(v), Err(e)) => {
                return Err(format!("{}.cast_to({target}) = {v:?} but casting the {n}-row array of it fails: {e}", s.name));
            }
            (Err(e), Ok(a)) => {
                let got = ScalarValue::try_from_array(a.as_ref(), 0).map(|x| format!("{x:?}")).unwrap_or_else(|e| format!("<{e}>"));
                return Err(format!("{}.cast_to({target}) fails ({e}) but casting the {n}-row array of it gives {got}", s.name));
            }
            (Ok(v), Ok(a)) => {
                if a.data_type() != target || v.data_type() != *target {
                    return Err(format!("{}.cast_to({target}): result types {} (scalar) / {} (array)", s.name, v.data_type(), a.data_type()));
                }
                for i in 0..n {
                    let mut x = ScalarValue::try_from_array(a.as_ref(), i).map_err(|e| format!("try_from_array of the cast array failed: {e}"))?;
                    if demo("cast") {
                        if let ScalarValue::Int8(Some(q)) = x {
                            x = ScalarValue::Int8(Some(q.saturating_add(if q == 7 { 1 } else { 0 })));
                        }
                    }
                    if !same(&x, v) && !same(v, &x) {
                        return Err(format!("{}.cast_to({target}) = {v:?} but row {i} of the cast {n}-row array is {x:?}", s.name));
                    }
                }
            }
        }
    }
    if let Err(e) = &scalar_side {
        if e.starts_with("panic") {
            return Err(format!("PANIC-BOTH:{e}"));
        }
    }
    Ok(scalar_side.ok().map(|v| !v.is_null()))
}

// ---------------------------------------------------------------------------

#[derive(Serialize, Deserialize, Clone, Debug, Hash)]
struct Case {
    law: String,
    scalars: Vec<String>,
    target: Option<String>,
}

fn groups(u: &[S]) -> BTreeMap<String, Vec<usize>> {
    let mut g: BTreeMap<String, Vec<usize>> = BTreeMap::new();
    for (i, s) in u.iter().enumerate() {
        g.entry(format!("{:?}", s.v.data_type())).or_default().push(i);
    }
    g
}

fn run_case(u: &[S], c: &Case) -> Result<bool, String> {
    let find = |n: &String| u.iter().find(|s| s.name == *n).ok_or_else(|| format!("MACHINERY: unknown scalar {n}"));
    let items: Vec<&S> = c.scalars.iter().map(find).collect::<Result<_, _>>()?;
    match c.law.as_str() {
        "roundtrip" => law_roundtrip(items[0]),
        "iter" => law_iter(&items),
        "hash" => law_hash(items[0], items[1]),
        "order" => law_order(&items).map(|n| n > 0),
        "cast" => {
            let t = cast_targets().into_iter().find(|t| Some(format!("{t:?}")) == c.target).ok_or("MACHINERY: unknown target")?;
            match law_cast(items[0], &t) {
                Err(e) if e.starts_with("PANIC-BOTH:") => Ok(false),
                r => r.map(|r| r == Some(true)),
            }
        }
        o => Err(format!("MACHINERY: unknown law {o}")),
    }
}

fn explore(ctx: &Ctx) {
    let u = universe();
    {
        let mut names: Vec<&String> = u.iter().map(|s| &s.name).collect();
        names.sort();
        for w in names.windows(2) {
            if w[0] == w[1] {
                ctx.machinery_error(format!("duplicate scalar name {}", w[0]));
                return;
            }
        }
    }
    let g = groups(&u);
    let targets = cast_targets();
    let triple_cap = ctx.pick(12, usize::MAX);
    ctx.set_extra(
        "bounds",
        json!({
            "scalars": u.len(),
            "same_type_groups": g.len(),
            "largest_group": g.values().map(|v| v.len()).max(),
            "array_sizes": SIZES,
            "iter_to_array": format!("all ordered pairs of every group; all ordered triples of groups with <= {} members", if triple_cap == usize::MAX { "any number of".to_string() } else { triple_cap.to_string() }),
            "hash": "all unordered pairs of the universe",
            "order": "every group of an ordered class as a whole (all pairs, all triples, 4 sort options)",
            "cast_targets": targets.iter().map(|t| t.to_string()).collect::<Vec<_>>(),
        }),
    );
    ctx.assume("a NULL union scalar (Union(None,..)) may read back as a NULL of one of its fields: union arrays have no validity of their own");
    ctx.assume("array-side cast = Arrow cast kernel with DataFusion's DEFAULT_CAST_OPTIONS, plus the engine's rules for arrays (name-based struct cast; date/timestamp -> finer timestamp overflow is an error)");

    // Failures are collected and reported once per class (law, scalar variant[, cast target kind]):
    // the member with the smallest universe position is the reported (replayable) case.
    let failures: std::sync::Mutex<Vec<(String, Vec<usize>, Case, String)>> = std::sync::Mutex::new(vec![]);
    let kind = |n: &str| -> String { n.split(|c| "<([/".contains(c)).next().unwrap_or("").to_string() };
    let pos = |n: &String| u.iter().position(|s| s.name == *n).unwrap_or(usize::MAX);
    let report = |c: Case, r: Result<bool, String>, sample_ok: bool| {
        ctx.eval();
        match r {
            Ok(nontrivial) => {
                if nontrivial {
                    ctx.nontrivial(&c);
                    if sample_ok && ctx.want_sample() {
                        let vals: Vec<String> =
                            c.scalars.iter().map(|n| u.get(pos(n)).map(|s| format!("{:?}", s.v)).unwrap_or_default()).collect();
                        ctx.sample(json!({"case": c, "values": vals}));
                    }
                }
            }
            Err(what) => {
                if what.starts_with("MACHINERY") {
                    ctx.machinery_error(what);
                } else {
                    let class = format!(
                        "{}/{}{}",
                        c.law,
                        kind(&c.scalars[0]),
                        c.target.as_ref().map(|t| format!("->{}", kind(t))).unwrap_or_default()
                    );
                    let order: Vec<usize> = c.scalars.iter().map(pos).collect();
                    failures.lock().unwrap().push((class, order, c, what));
                }
            }
        }
    };
    let guarded = |f: &(dyn Fn() -> Result<bool, String> + Sync)| mc_core::catch(f).unwrap_or_else(Err);

    // 1. roundtrip
    u.par_iter().for_each(|s| {
        let c = Case { law: "roundtrip".into(), scalars: vec![s.name.clone()], target: None };
        report(c, guarded(&|| law_roundtrip(s)), s.name == "Struct<F64,List<I32>>/v2/L0.G3.S3" || s.name == "TimestampNanosecond[+02:00]/max");
        ctx.count("roundtrip_scalars", 1);
    });
    // 2. iter_to_array
    let group_list: Vec<&Vec<usize>> = g.values().collect();
    group_list.par_iter().for_each(|idx| {
        for &a in idx.iter() {
            for &b in idx.iter() {
                if ctx.out_of_time() {
                    return;
                }
                let items = [&u[a], &u[b]];
                let c = Case { law: "iter".into(), scalars: items.iter().map(|s| s.name.clone()).collect(), target: None };
                report(c, guarded(&|| law_iter(&items)), u[a].name == "Dictionary<I8>/utf8-a" && u[b].name == "Dictionary<I8>/utf8-null");
                ctx.count("iter_pairs", 1);
                if idx.len() <= triple_cap {
                    for &d in idx.iter() {
                        let items = [&u[a], &u[b], &u[d]];
                        let c = Case { law: "iter".into(), scalars: items.iter().map(|s| s.name.clone()).collect(), target: None };
                        report(c, guarded(&|| law_iter(&items)), false);
                        ctx.count("iter_triples", 1);
                    }
                }
            }
        }
    });
    // 3. hash
    (0..u.len()).into_par_iter().for_each(|a| {
        for b in a..u.len() {
            let c = Case { law: "hash".into(), scalars: vec![u[a].name.clone(), u[b].name.clone()], target: None };
            let r = guarded(&|| law_hash(&u[a], &u[b]));
            // only pairs of *different* universe members that are equal are non-trivial
            let r = r.map(|eq| eq && a != b);
            report(c, r, false);
        }
        ctx.count("hash_pairs", (u.len() - a) as u64);
    });
    // 4. order
    group_list.par_iter().for_each(|idx| {
        let items: Vec<&S> = idx.iter().map(|i| &u[*i]).collect();
        if !items.iter().all(|s| s.ordered) {
            return;
        }
        let c = Case { law: "order".into(), scalars: items.iter().map(|s| s.name.clone()).collect(), target: None };
        let r = mc_core::catch(|| law_order(&items)).unwrap_or_else(Err);
        if let Ok(n) = &r {
            ctx.count("strictly_ordered_pairs", *n);
        }
        ctx.count("ordered_groups", 1);
        report(c, r.map(|n| n > 0), items[0].name.starts_with("Float16") || items[0].name.starts_with("IntervalDayTime"));
    });
    // 5. cast (nested scalars only in their plain physical layout: Arrow's cast kernel also
    // casts child values that no row references, which is not a property of the scalar)
    u.par_iter().filter(|s| s.canonical).for_each(|s| {
        for t in &targets {
            if ctx.out_of_time() {
                return;
            }
            let c = Case { law: "cast".into(), scalars: vec![s.name.clone()], target: Some(format!("{t:?}")) };
            let mut r = mc_core::catch(|| law_cast(s, t)).unwrap_or_else(Err);
            if let Err(e) = &r {
                if e.starts_with("PANIC-BOTH:") {
                    // scalar cast and array cast both panic (same failure); recorded, not a violation of this law
                    ctx.count("casts_both_panic", 1);
                    ctx.set_extra("cast_panic_example", json!(format!("{} -> {t}: {}", s.name, &e[11..])));
                    r = Ok(None);
                }
            }
            match &r {
                Ok(Some(_)) => ctx.count("casts_both_succeed", 1),
                Ok(None) => ctx.count("casts_both_fail", 1),
                Err(_) => {}
            }
            report(c, r.map(|x| x == Some(true)), s.name == "Utf8/\"2020-01-01\"" && matches!(t, DataType::Timestamp(TimeUnit::Nanosecond, Some(_))));
        }
    });
    // one violation per failure class
    let mut fs = failures.into_inner().unwrap();
    fs.sort_by(|a, b| (&a.0, a.1.len(), &a.1).cmp(&(&b.0, b.1.len(), &b.1)));
    let mut last: Option<String> = None;
    for (class, _, c, what) in fs {
        ctx.count(&format!("failing_cases[{class}]"), 1);
        if last.as_ref() != Some(&class) {
            ctx.violation(serde_json::to_string(&c).unwrap(), what, serde_json::to_value(&c).unwrap());
            last = Some(class);
        }
    }
}

fn replay(v: &Value) -> Result<(), String> {
    let c: Case = serde_json::from_value(v.clone()).map_err(|e| format!("bad case: {e}"))?;
    let u = universe();
    mc_core::catch(|| run_case(&u, &c)).unwrap_or_else(Err).map(|_| ())
}

fn main() {
    mc_core::quiet_panics();
    run_check(
        "C34",
        Level::Exploration,
        "a fixed universe of ScalarValues (every variant x NULL/zero/extremes/typical; nested scalars in several physical layouts); \
         laws: roundtrip (per scalar x 5 array sizes), iter_to_array (pairs/triples per same-type group), hash (all pairs), order (per ordered group), \
         cast (scalar x target type); non-trivial = roundtrip of any scalar, iter_to_array of not-all-equal scalars, an equal pair of distinct universe \
         members, a group with strictly ordered pairs, a cast that succeeds with a non-NULL result",
        explore,
        replay,
    );
}
