//! C43 — configuration options round-trip through their text form
//! (`ConfigOptions::set` / `entries()` level).
//!
//! Operation histories of depth ≤ 2 (`set k1 v1; set k2 v2`) over *every* key of
//! `ConfigOptions::entries()` (plus a registered test extension) × a value domain
//! chosen by the key's **declared type** (read from the `config_namespace!`
//! declarations in `/repo/datafusion/common/src/config.rs`, which is only parsed for
//! the `name: type` pairs), are run on the real object and on a boring reference
//! model (a map key → reported text).  After every operation the complete
//! `entries()` listing is compared with the model:
//!
//! * a valid value is accepted, reported in its canonical text, and changes no
//!   other option (except the documented umbrella option
//!   `enable_dynamic_filter_pushdown`, which overrides its three sub-options);
//! * the reported text is a fixpoint: setting the option from the text it reports
//!   leaves the whole listing unchanged (checked for every option of every state
//!   reached by one operation, and for the touched option of deeper states);
//! * an invalid value returns `Err` and leaves the whole listing unchanged.
use datafusion_common::config::{ConfigExtension, ConfigOptions, Extensions};
use datafusion_common::extensions_options;
use mc_core::serde_json::{Value, json};
use mc_core::{Ctx, Level, rayon::prelude::*, run_check};
use serde::{Deserialize, Serialize};
use std::collections::{BTreeMap, HashMap, HashSet};
use std::sync::Mutex;

const SRC: &str = include_str!("/repo/datafusion/common/src/config.rs");
const UMBRELLA: &str = "datafusion.optimizer.enable_dynamic_filter_pushdown";
const UMBRELLA_SUBS: [&str; 3] = [
    "datafusion.optimizer.enable_topk_dynamic_filter_pushdown",
    "datafusion.optimizer.enable_join_dynamic_filter_pushdown",
    "datafusion.optimizer.enable_aggregate_dynamic_filter_pushdown",
];

extensions_options! {
    /// Test extension registered by the check.
    pub struct VerifExt {
        /// a flag
        pub flag: bool, default = true
        /// a count
        pub count: usize, default = 3
        /// a label
        pub label: String, default = "x".to_string()
        /// an optional count
        pub maybe: Option<usize>, default = None
    }
}
impl ConfigExtension for VerifExt {
    const PREFIX: &'static str = "verif";
}

fn demo(which: &str) -> bool {
    std::env::var("VERIF_DEMO_C43").map(|v| v == which).unwrap_or(false)
}

// ---------------------------------------------------------------------------
// declared types

#[derive(Clone, Debug, PartialEq)]
enum Ty {
    Bool,
    UInt(u32),
    I32,
    F64,
    Str { lower: bool },
    U8,
    NonZero,
    MinTwo,
    Parallelism,
    Selectivity,
    Positive,
    Enum(&'static [&'static str]),
    Opaque,
}

#[derive(Clone, Debug)]
struct KeyInfo {
    ty: Ty,
    declared: String,
}

struct Decl {
    name: String,
    ty: String,
    transform: Option<String>,
}

/// `struct name -> fields` for every struct declared with a `default = ..` field syntax.
fn parse_structs() -> HashMap<String, Vec<Decl>> {
    let mut out: HashMap<String, Vec<Decl>> = HashMap::new();
    let mut cur: Option<String> = None;
    for line in SRC.lines() {
        let t = line.trim();
        if t.starts_with("//") {
            continue;
        }
        if let Some(rest) = t.strip_prefix("pub struct ") {
            if rest.ends_with('{') {
                let name = rest.trim_end_matches('{').trim().to_string();
                cur = Some(name);
                continue;
            }
        }
        let Some(s) = &cur else { continue };
        if t == "}" {
            cur = None;
            continue;
        }
        let Some(rest) = t.strip_prefix("pub ") else { continue };
        let Some((name, after)) = rest.split_once(": ") else { continue };
        let Some(di) = after.find("default = ") else { continue };
        let head = &after[..di];
        // type = up to the first ", " outside angle brackets
        let mut depth = 0i32;
        let mut end = head.len();
        for (i, ch) in head.char_indices() {
            match ch {
                '<' => depth += 1,
                '>' => depth -= 1,
                ',' if depth == 0 => {
                    end = i;
                    break;
                }
                _ => {}
            }
        }
        let ty = head[..end].trim().to_string();
        let transform = head.find("transform = ").map(|i| head[i + 12..].split(',').next().unwrap_or("").trim().to_string());
        out.entry(s.clone()).or_default().push(Decl { name: name.trim().to_string(), ty, transform });
    }
    out
}

fn classify(ty: &str, transform: Option<&str>) -> Ty {
    let inner = ty.strip_prefix("Option<").and_then(|x| x.strip_suffix('>')).unwrap_or(ty);
    match inner {
        "bool" => Ty::Bool,
        "usize" if transform.map(|t| t.contains("normalized_parallelism")).unwrap_or(false) => Ty::Parallelism,
        "usize" | "u64" => Ty::UInt(64),
        "u32" => Ty::UInt(32),
        "i32" => Ty::I32,
        "f64" => Ty::F64,
        "String" => Ty::Str { lower: transform.map(|t| t.contains("to_lowercase")).unwrap_or(false) },
        "u8" => Ty::U8,
        "ConfigNonZeroUsize" => Ty::NonZero,
        "ConfigMinTwoUsize" => Ty::MinTwo,
        "ConfigFilterSelectivity" => Ty::Selectivity,
        "MaxRowGroupBytes" => Ty::Positive,
        "Dialect" => Ty::Enum(&[
            "generic", "mysql", "postgresql", "hive", "sqlite", "snowflake", "redshift", "mssql", "clickhouse", "bigquery", "ansi", "duckdb",
            "databricks", "spark",
        ]),
        "SpillCompression" => Ty::Enum(&["zstd", "lz4_frame", "uncompressed"]),
        "MapKeyDedupPolicy" => Ty::Enum(&["EXCEPTION", "LAST_WIN"]),
        "ConfigDurationFormat" => Ty::Enum(&["pretty", "iso8601"]),
        "ExplainFormat" => Ty::Enum(&["indent", "tree", "pgjson", "graphviz"]),
        "MetricType" => Ty::Enum(&["summary", "dev"]),
        "ExplainAnalyzeCategories" => Ty::Enum(&["all", "none"]),
        "DFParquetWriterVersion" => Ty::Enum(&["1.0", "2.0"]),
        _ => Ty::Opaque,
    }
}

fn key_info(key: &str, structs: &HashMap<String, Vec<Decl>>) -> KeyInfo {
    let opaque = |d: &str| KeyInfo { ty: Ty::Opaque, declared: d.to_string() };
    if let Some(rest) = key.strip_prefix("verif.") {
        return match rest {
            "flag" => KeyInfo { ty: Ty::Bool, declared: "bool".into() },
            "count" => KeyInfo { ty: Ty::UInt(64), declared: "usize".into() },
            "label" => KeyInfo { ty: Ty::Str { lower: false }, declared: "String".into() },
            "maybe" => KeyInfo { ty: Ty::UInt(64), declared: "Option<usize>".into() },
            _ => opaque("?"),
        };
    }
    let Some(rest) = key.strip_prefix("datafusion.") else { return opaque("?") };
    let mut segs = rest.split('.');
    let root = match segs.next() {
        Some("catalog") => "CatalogOptions",
        Some("execution") => "ExecutionOptions",
        Some("optimizer") => "OptimizerOptions",
        Some("sql_parser") => "SqlParserOptions",
        Some("explain") => "ExplainOptions",
        Some("format") => "FormatOptions",
        Some("spark") => "SparkOptions",
        _ => return opaque("?"),
    };
    let mut cur = root.to_string();
    let segs: Vec<&str> = segs.collect();
    for (i, seg) in segs.iter().enumerate() {
        let Some(fields) = structs.get(&cur) else { return opaque("?") };
        let Some(d) = fields.iter().find(|d| d.name == *seg) else { return opaque("?") };
        if i + 1 == segs.len() {
            return KeyInfo { ty: classify(&d.ty, d.transform.as_deref()), declared: d.ty.clone() };
        }
        cur = d.ty.clone();
    }
    opaque("?")
}

// ---------------------------------------------------------------------------
// value domains

#[derive(Clone, Debug, PartialEq)]
enum Exp {
    /// must be accepted and reported as this text
    Accept(String),
    /// must be accepted; the reported text is learned and must be a fixpoint
    AcceptAny,
    /// must be rejected
    Reject,
    /// may be accepted (then like AcceptAny) or rejected (then nothing may change)
    Either,
}

fn domain(info: &KeyInfo, default_text: &Option<String>) -> Vec<(String, Exp)> {
    let same = |xs: &[&str]| -> Vec<(String, Exp)> { xs.iter().map(|x| (x.to_string(), Exp::Accept(x.to_string()))).collect() };
    let rej = |xs: &[&str]| -> Vec<(String, Exp)> { xs.iter().map(|x| (x.to_string(), Exp::Reject)).collect() };
    let mut d: Vec<(String, Exp)> = match &info.ty {
        Ty::Bool => {
            let mut v = same(&["true", "false"]);
            v.push(("TRUE".into(), Exp::Either));
            v.extend(rej(&["", "x", "tru", "-1", "1e999"]));
            v
        }
        Ty::UInt(64) => {
            let mut v = same(&["0", "1", "7", "4294967295", "18446744073709551615"]);
            v.extend(rej(&["", "x", "-1", "1e999", "tru", "18446744073709551616"]));
            v
        }
        Ty::UInt(_) => {
            let mut v = same(&["0", "1", "65535", "4294967295"]);
            v.extend(rej(&["", "x", "-1", "1e999", "tru", "4294967296"]));
            v
        }
        Ty::I32 => {
            let mut v = same(&["0", "1", "-1", "2147483647", "-2147483648"]);
            v.extend(rej(&["", "x", "1e999", "tru", "2147483648"]));
            v
        }
        Ty::F64 => {
            let mut v = same(&["0", "0.5", "1", "2.5", "-1"]);
            v.push(("1.0".into(), Exp::Accept("1".into())));
            v.push(("1e999".into(), Exp::Either));
            v.extend(rej(&["", "x", "tru"]));
            v
        }
        Ty::Str { lower } => ["", "x", "-1", "1e999", "tru", "ABC", "a b"]
            .iter()
            .map(|x| (x.to_string(), Exp::Accept(if *lower { x.to_lowercase() } else { x.to_string() })))
            .collect(),
        Ty::U8 => {
            let mut v = same(&["0", "44", "255"]);
            v.push(("a".into(), Exp::Accept("97".into())));
            v.push((",".into(), Exp::Accept("44".into())));
            v.push(("x".into(), Exp::Accept("120".into())));
            v.extend(rej(&["", "ab", "é", "256", "-1"]));
            v
        }
        Ty::NonZero => {
            let mut v = same(&["1", "2", "18446744073709551615"]);
            if demo("accept0") {
                // planted (reference side): the model wrongly believes 0 is a valid value
                v.extend(same(&["0"]));
            } else {
                v.extend(rej(&["0"]));
            }
            v.extend(rej(&["", "x", "-1", "tru", "1e999"]));
            v
        }
        Ty::MinTwo => {
            let mut v = same(&["2", "3"]);
            v.extend(rej(&["0", "1", "", "x", "-1"]));
            v
        }
        Ty::Parallelism => {
            let mut v = same(&["1", "2", "64"]);
            if let Some(t) = default_text {
                // documented: 0 means "number of available cores" (= the default)
                v.push(("0".into(), Exp::Accept(t.clone())));
            }
            v.extend(rej(&["", "x", "-1", "tru"]));
            v
        }
        Ty::Selectivity => {
            let mut v = same(&["0", "1", "100"]);
            v.extend(rej(&["101", "256", "-1", "", "x", "tru"]));
            v
        }
        Ty::Positive => {
            let mut v = same(&["1", "1048576"]);
            v.extend(rej(&["0", "", "x", "-1"]));
            v
        }
        Ty::Enum(vars) => {
            let mut v: Vec<(String, Exp)> = vec![];
            for x in vars.iter() {
                v.push((x.to_string(), Exp::AcceptAny));
                let other = if x.chars().any(|c| c.is_ascii_lowercase()) { x.to_uppercase() } else { x.to_lowercase() };
                if other != *x {
                    v.push((other, Exp::Either));
                }
            }
            v.push(("".into(), Exp::Either));
            v.push(("no_such_variant_xyz".into(), Exp::Reject));
            // ExplainAnalyzeCategories is a list-valued option: proper subsets of the categories are reported as
            // written (only adjacent duplicates are merged), never widened to `all`
            if vars.contains(&"all") && vars.contains(&"none") {
                v.extend(same(&["rows", "rows,bytes", "rows,bytes,timing", "rows,bytes,rows,bytes", "timing,rows,timing,rows"]));
            }
            v
        }
        Ty::Opaque => vec![("".into(), Exp::Either), ("x".into(), Exp::Either)],
    };
    // the reported default text must always be accepted and reported unchanged
    if let Some(t) = default_text {
        if !d.iter().any(|(v, _)| v == t) {
            d.insert(0, (t.clone(), Exp::Accept(t.clone())));
        } else if let Some(e) = d.iter_mut().find(|(v, _)| v == t) {
            e.1 = Exp::Accept(t.clone());
        }
    }
    d
}

// ---------------------------------------------------------------------------
// model

type Snap = BTreeMap<String, Option<String>>;

/// The listing as key -> reported text.  `entries()` lists the options of an
/// extension *without* its namespace prefix ("count", not "verif.count"); the only
/// registered extension is ours, so the prefix under which the option is settable
/// is added here.
fn snapshot(c: &ConfigOptions) -> Snap {
    c.entries()
        .into_iter()
        .map(|e| if e.key.starts_with("datafusion.") { (e.key, e.value) } else { (format!("verif.{}", e.key), e.value) })
        .collect()
}

fn fresh() -> ConfigOptions {
    let mut ext = Extensions::new();
    ext.insert(VerifExt::default());
    ConfigOptions::new().with_extensions(ext)
}

fn diff(a: &Snap, b: &Snap) -> String {
    let mut out = vec![];
    for (k, v) in a {
        if b.get(k) != Some(v) {
            out.push(format!("{k}: {:?} -> {:?}", v, b.get(k).cloned().flatten()));
        }
    }
    for k in b.keys() {
        if !a.contains_key(k) {
            out.push(format!("{k}: new"));
        }
    }
    out.join("; ")
}

struct World {
    infos: BTreeMap<String, KeyInfo>,
    domains: BTreeMap<String, Vec<(String, Exp)>>,
}

fn world() -> World {
    let structs = parse_structs();
    let d = snapshot(&fresh());
    let mut infos = BTreeMap::new();
    let mut domains = BTreeMap::new();
    for (k, v) in &d {
        let info = key_info(k, &structs);
        domains.insert(k.clone(), domain(&info, v));
        infos.insert(k.clone(), info);
    }
    World { infos, domains }
}

#[derive(Serialize, Deserialize, Clone, Debug, Hash, PartialEq, Eq, PartialOrd, Ord)]
struct Case {
    history: Vec<(String, String)>,
    /// after the history: set every option from its own reported text
    sweep: bool,
}

/// A failed law: (law name, index of the operation it failed at, description).
struct Fail {
    law: &'static str,
    key: String,
    what: String,
}

/// Apply one operation to implementation and model, checking every law.  Returns the number of `set` calls.
fn step(w: &World, c: &mut ConfigOptions, m: &mut Snap, key: &str, value: &str) -> Result<u64, Fail> {
    let fail = |law: &'static str, what: String| Fail { law, key: key.to_string(), what };
    let exp = w.domains.get(key).and_then(|d| d.iter().find(|(v, _)| v == value)).map(|x| x.1.clone()).unwrap_or(Exp::Either);
    let before = m.clone();
    let r = c.set(key, value);
    let mut calls = 1;
    let after = snapshot(c);
    match (&r, &exp) {
        (Err(e), Exp::Accept(_) | Exp::AcceptAny) => {
            return Err(fail("valid-accepted", format!("set({key:?}, {value:?}) must be accepted but failed: {e}")));
        }
        (Ok(()), Exp::Reject) => {
            return Err(fail(
                "invalid-rejected",
                format!("set({key:?}, {value:?}) must be rejected but returned Ok; now reported as {:?}", after.get(key).cloned().flatten()),
            ));
        }
        _ => {}
    }
    if r.is_err() {
        if after != before {
            return Err(fail(
                "rejected-unchanged",
                format!("set({key:?}, {value:?}) returned Err but the configuration changed: {}", diff(&before, &after)),
            ));
        }
        return Ok(calls);
    }
    // accepted
    let reported = after.get(key).cloned().flatten();
    let expect_text = match &exp {
        Exp::Accept(t) => Some(t.clone()),
        _ => reported.clone(),
    };
    m.insert(key.to_string(), expect_text.clone());
    if key == UMBRELLA {
        for s in UMBRELLA_SUBS {
            m.insert(s.to_string(), expect_text.clone());
        }
    }
    if after != *m {
        let law = if after.get(key) != m.get(key) { "reported-text" } else { "no-crosstalk" };
        return Err(fail(law, format!("after set({key:?}, {value:?}) the listing differs from the model: {}", diff(m, &after))));
    }
    if reported.is_none() {
        return Err(fail("reported-text", format!("set({key:?}, {value:?}) returned Ok but the option is reported as unset")));
    }
    // fixpoint: the reported text sets the same configuration
    let t = reported.unwrap();
    let r2 = c.set(key, &t);
    calls += 1;
    let again = snapshot(c);
    if let Err(e) = r2 {
        return Err(fail("fixpoint", format!("{key:?} reports {t:?} (after set to {value:?}) but set({key:?}, {t:?}) fails: {e}")));
    }
    if again != *m {
        return Err(fail("fixpoint", format!("{key:?} reports {t:?} but set({key:?}, {t:?}) changes the configuration: {}", diff(m, &again))));
    }
    Ok(calls)
}

/// Set every option from its own reported text; nothing may change (umbrella: documented override).
fn sweep(c: &ConfigOptions, m: &Snap) -> Result<u64, Fail> {
    let mut calls = 0;
    for (k, v) in m {
        let Some(t) = v else { continue };
        let mut c2 = c.clone();
        let r = c2.set(k, t);
        calls += 1;
        let mut want = m.clone();
        if k == UMBRELLA && !demo("umbrella") {
            for s in UMBRELLA_SUBS {
                want.insert(s.to_string(), Some(t.clone()));
            }
        }
        if let Err(e) = r {
            return Err(Fail { law: "self-set", key: k.clone(), what: format!("{k:?} reports {t:?} but set({k:?}, {t:?}) fails: {e}") });
        }
        let got = snapshot(&c2);
        if got != want {
            return Err(Fail {
                law: "self-set",
                key: k.clone(),
                what: format!("set({k:?}, {t:?}) (its own reported text) changes the configuration: {}", diff(&want, &got)),
            });
        }
    }
    Ok(calls)
}

fn run_case(w: &World, case: &Case) -> Result<u64, Fail> {
    let mut c = fresh();
    let mut m = snapshot(&c);
    let mut calls = 0;
    for (k, v) in &case.history {
        calls += step(w, &mut c, &mut m, k, v)?;
    }
    if case.sweep {
        calls += sweep(&c, &m)?;
    }
    Ok(calls)
}

fn explore(ctx: &Ctx) {
    let w = world();
    let defaults = snapshot(&fresh());
    let opaque: Vec<String> = w.infos.iter().filter(|(_, i)| i.ty == Ty::Opaque).map(|(k, i)| format!("{k} ({})", i.declared)).collect();
    let ops: Vec<(String, String)> = w.domains.iter().flat_map(|(k, d)| d.iter().map(move |(v, _)| (k.clone(), v.clone()))).collect();
    // second operations: quick = per key the first accepted non-default value, the first rejected value and
    // (booleans) both values; thorough = everything
    let ops2: Vec<(String, String)> = if ctx.thorough() {
        ops.clone()
    } else {
        let mut v = vec![];
        for (k, d) in &w.domains {
            let dflt = defaults.get(k).cloned().flatten();
            let mut picked: Vec<&String> = vec![];
            if let Some((x, _)) = d.iter().find(|(x, e)| matches!(e, Exp::Accept(_) | Exp::AcceptAny) && Some(x) != dflt.as_ref()) {
                picked.push(x);
            }
            if let Some((x, _)) = d.iter().find(|(_, e)| *e == Exp::Reject) {
                picked.push(x);
            }
            if w.infos[k].ty == Ty::Bool {
                for (x, _) in d.iter().filter(|(x, _)| x == "true" || x == "false") {
                    if !picked.contains(&x) {
                        picked.push(x);
                    }
                }
            }
            for x in picked {
                v.push((k.clone(), x.clone()));
            }
        }
        v
    };
    let mut by_type: BTreeMap<String, usize> = BTreeMap::new();
    for i in w.infos.values() {
        *by_type.entry(format!("{:?}", i.ty).split('(').next().unwrap_or("").split(' ').next().unwrap_or("").to_string()).or_default() += 1;
    }
    ctx.set_extra(
        "bounds",
        json!({
            "keys": w.infos.len(),
            "keys_by_type_class": by_type,
            "opaque_keys (declared type unknown to the check: only type-free laws)": opaque,
            "first_operations": ops.len(),
            "second_operations": ops2.len(),
            "depth": 2,
            "self_set_sweep": "every option, on the default state and on every state reached by one operation",
            "extension": "verif.{flag,count,label,maybe} registered through Extensions::insert",
        }),
    );
    ctx.assume("declared option types are read from the config_namespace! declarations in /repo/datafusion/common/src/config.rs");
    ctx.assume("documented: setting enable_dynamic_filter_pushdown overrides the topk/join/aggregate sub-options; target_partitions/planning_concurrency = 0 means available parallelism");

    // failures: keep the smallest history per (law, declared type of the key)
    let failures: Mutex<BTreeMap<String, (Case, String, u64)>> = Mutex::new(BTreeMap::new());
    let states: Mutex<HashSet<u64>> = Mutex::new(HashSet::new());
    let record = |case: Case, f: Fail| {
        if f.what.starts_with("MACHINERY") {
            ctx.machinery_error(f.what);
            return;
        }
        let declared = w.infos.get(&f.key).map(|i| i.declared.clone()).unwrap_or_default();
        let class = format!("{}/{}", f.law, declared);
        let mut g = failures.lock().unwrap();
        match g.get_mut(&class) {
            Some(e) => {
                e.2 += 1;
                if (case.history.len(), &case) < (e.0.history.len(), &e.0) {
                    e.0 = case;
                    e.1 = f.what;
                }
            }
            None => {
                g.insert(class, (case, f.what, 1));
            }
        }
    };

    // depth 0: sweep on the default state
    {
        let case = Case { history: vec![], sweep: true };
        ctx.eval();
        match run_case(&w, &case) {
            Ok(n) => ctx.add_transitions(n),
            Err(f) => record(case, f),
        }
    }
    ops.par_iter().for_each(|op1| {
        if ctx.out_of_time() {
            return;
        }
        // depth 1 (+ sweep)
        let case1 = Case { history: vec![op1.clone()], sweep: true };
        ctx.eval();
        let mut c1 = fresh();
        let mut m1 = snapshot(&c1);
        let mut local_states: Vec<u64> = vec![];
        match step(&w, &mut c1, &mut m1, &op1.0, &op1.1) {
            Ok(n) => {
                ctx.add_transitions(n);
                ctx.nontrivial(&case1);
                local_states.push(mc_core::stable_hash(&m1));
                match sweep(&c1, &m1) {
                    Ok(n) => ctx.add_transitions(n),
                    Err(f) => record(case1.clone(), f),
                }
                if m1 != defaults && op1.0.contains("parquet") && ctx.want_sample() {
                    ctx.sample(json!({"history": case1.history, "reported_after": m1.get(&op1.0)}));
                }
            }
            Err(f) => {
                record(Case { history: vec![op1.clone()], sweep: false }, f);
                return; // the object is not in a modelled state any more
            }
        }
        // depth 2
        let mut trans = 0u64;
        let mut evals = 0u64;
        for op2 in &ops2 {
            let mut c2 = c1.clone();
            let mut m2 = m1.clone();
            evals += 1;
            match step(&w, &mut c2, &mut m2, &op2.0, &op2.1) {
                Ok(n) => {
                    trans += n;
                    local_states.push(mc_core::stable_hash(&m2));
                }
                Err(f) => record(Case { history: vec![op1.clone(), op2.clone()], sweep: false }, f),
            }
        }
        ctx.evals(evals);
        ctx.add_transitions(trans);
        ctx.count("depth2_histories", evals);
        states.lock().unwrap().extend(local_states);
    });
    ctx.add_states(states.lock().unwrap().len() as u64);
    // a second distinct non-trivial marker family: operations that were rejected
    for (class, (case, what, n)) in failures.into_inner().unwrap() {
        ctx.count(&format!("failing_histories[{class}]"), n);
        ctx.violation(serde_json::to_string(&case).unwrap(), what, serde_json::to_value(&case).unwrap());
    }
}

fn replay(v: &Value) -> Result<(), String> {
    let case: Case = serde_json::from_value(v.clone()).map_err(|e| format!("bad case: {e}"))?;
    let w = world();
    match mc_core::catch(|| run_case(&w, &case).map_err(|f| format!("[{}] {}", f.law, f.what))) {
        Ok(r) => r.map(|_| ()),
        Err(p) => Err(p),
    }
}

fn main() {
    mc_core::quiet_panics();
    run_check(
        "C43",
        Level::ModelChecking,
        "every history `set k1 v1 [; set k2 v2]` over all keys of entries() x the value domain of the key's declared type (valid, boundary, invalid), \
         each step compared (full entries() listing) with a key->text reference model, followed by the fixpoint re-set; every depth-1 state is also swept \
         (every option set from its own reported text); states = distinct listings reached, transitions = set calls; non-trivial = depth-1 operations that \
         did not fail a law (accepted or rejected)",
        explore,
        replay,
    );
}
