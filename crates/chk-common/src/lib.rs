//! shared helpers for the chk-common checks
pub mod enc;
