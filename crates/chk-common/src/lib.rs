//! shared helpers for the chk-common checks
