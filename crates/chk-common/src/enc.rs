//! Logical values, type descriptors and "every physical encoding of one logical
//! column" for the chk-common checks (C12 mainly, C34 re-uses the scalars).
//!
//! A *logical column* is a `Vec<V>`.  [`encodings`] returns Arrow arrays that all
//! have exactly the same `DataType` and all decode (through [`decode`], which
//! only uses Arrow accessors and shares nothing with the encoders) to the same
//! logical column, but differ physically: validity buffer present or not, values
//! under NULL slots, slice offsets, dictionary key assignment / unused /
//! duplicated / NULL dictionary values, string-view buffer layout, run
//! boundaries, list offsets with leading/trailing unused children, list-view
//! storage order and sharing, child values under NULL parents, union child
//! layout.
use arrow::array::*;
use arrow::buffer::{BooleanBuffer, Buffer, NullBuffer, OffsetBuffer, ScalarBuffer};
use arrow::datatypes::*;
use half::f16;
use serde::{Deserialize, Serialize};
use std::sync::Arc;

/// Logical value.
#[derive(Clone, Debug, PartialEq, Eq, Hash, PartialOrd, Ord, Serialize, Deserialize)]
pub enum V {
    Null,
    Int(i64),
    /// f64 bits (narrowed for Float16/Float32 columns; only exactly representable values are used)
    F(u64),
    Str(String),
    Bin(Vec<u8>),
    Bool(bool),
    /// list / fixed size list / list view
    List(Vec<V>),
    Struct(Vec<V>),
    Map(Vec<(V, V)>),
    /// (field position, value)
    Union(usize, Box<V>),
}

pub fn f(x: f64) -> V {
    V::F(x.to_bits())
}
pub fn s(x: &str) -> V {
    V::Str(x.to_string())
}

/// Canonical form for *logical equality as the property defines it*:
/// `-0.0` = `+0.0` (recursively); everything else structural.
pub fn canon(v: &V) -> V {
    match v {
        V::F(b) => {
            let x = f64::from_bits(*b);
            if x == 0.0 { V::F(0) } else { V::F(*b) }
        }
        V::List(xs) => V::List(xs.iter().map(canon).collect()),
        V::Struct(xs) => V::Struct(xs.iter().map(canon).collect()),
        V::Map(xs) => V::Map(xs.iter().map(|(k, v)| (canon(k), canon(v))).collect()),
        V::Union(i, x) => V::Union(*i, Box::new(canon(x))),
        o => o.clone(),
    }
}

#[derive(Clone, Copy, Debug, PartialEq, Eq, Hash, Serialize, Deserialize)]
pub enum P {
    I8, I16, I32, I64, U8, U16, U32, U64, F16, F32, F64,
    Dec32, Dec64, Dec128, Dec256,
    Date32, Date64, T32S, T32Ms, T64Us, T64Ns,
    TsS, TsMs, TsUs, TsNs, TsNsUtc, TsSTz,
    DurS, DurMs, DurUs, DurNs,
    IvYM, IvDT, IvMDN,
}

pub const ALL_PRIMS: [P; 34] = [
    P::I8, P::I16, P::I32, P::I64, P::U8, P::U16, P::U32, P::U64, P::F16, P::F32, P::F64,
    P::Dec32, P::Dec64, P::Dec128, P::Dec256,
    P::Date32, P::Date64, P::T32S, P::T32Ms, P::T64Us, P::T64Ns,
    P::TsS, P::TsMs, P::TsUs, P::TsNs, P::TsNsUtc, P::TsSTz,
    P::DurS, P::DurMs, P::DurUs, P::DurNs,
    P::IvYM, P::IvDT, P::IvMDN,
];

#[derive(Clone, Copy, Debug, PartialEq, Eq, Hash, Serialize, Deserialize)]
pub enum K {
    I8, I16, I32, I64, U8, U16, U32, U64,
}

#[derive(Clone, Copy, Debug, PartialEq, Eq, Hash, Serialize, Deserialize)]
pub enum R {
    I16, I32, I64,
}

/// Type descriptor (a closed sub-language of Arrow `DataType`s with fixed field names).
#[derive(Clone, Debug, PartialEq, Eq, Hash, Serialize, Deserialize)]
pub enum T {
    Null,
    Bool,
    Prim(P),
    Utf8, LargeUtf8, Utf8View, Binary, LargeBinary, BinaryView,
    Fsb(i32),
    Dict(K, Box<T>),
    Ree(R, Box<T>),
    Struct(Vec<T>),
    List(Box<T>), LargeList(Box<T>), ListView(Box<T>), LargeListView(Box<T>),
    Fsl(Box<T>, i32),
    Map(Box<T>, Box<T>),
    /// (children, dense)
    Union(Vec<T>, bool),
}

impl P {
    pub fn is_float(self) -> bool {
        matches!(self, P::F16 | P::F32 | P::F64)
    }
    pub fn data_type(self) -> DataType {
        use DataType as D;
        match self {
            P::I8 => D::Int8, P::I16 => D::Int16, P::I32 => D::Int32, P::I64 => D::Int64,
            P::U8 => D::UInt8, P::U16 => D::UInt16, P::U32 => D::UInt32, P::U64 => D::UInt64,
            P::F16 => D::Float16, P::F32 => D::Float32, P::F64 => D::Float64,
            P::Dec32 => D::Decimal32(5, 1), P::Dec64 => D::Decimal64(10, 2),
            P::Dec128 => D::Decimal128(20, 3), P::Dec256 => D::Decimal256(40, 4),
            P::Date32 => D::Date32, P::Date64 => D::Date64,
            P::T32S => D::Time32(TimeUnit::Second), P::T32Ms => D::Time32(TimeUnit::Millisecond),
            P::T64Us => D::Time64(TimeUnit::Microsecond), P::T64Ns => D::Time64(TimeUnit::Nanosecond),
            P::TsS => D::Timestamp(TimeUnit::Second, None),
            P::TsMs => D::Timestamp(TimeUnit::Millisecond, None),
            P::TsUs => D::Timestamp(TimeUnit::Microsecond, None),
            P::TsNs => D::Timestamp(TimeUnit::Nanosecond, None),
            P::TsNsUtc => D::Timestamp(TimeUnit::Nanosecond, Some("UTC".into())),
            P::TsSTz => D::Timestamp(TimeUnit::Second, Some("+02:00".into())),
            P::DurS => D::Duration(TimeUnit::Second), P::DurMs => D::Duration(TimeUnit::Millisecond),
            P::DurUs => D::Duration(TimeUnit::Microsecond), P::DurNs => D::Duration(TimeUnit::Nanosecond),
            P::IvYM => D::Interval(IntervalUnit::YearMonth),
            P::IvDT => D::Interval(IntervalUnit::DayTime),
            P::IvMDN => D::Interval(IntervalUnit::MonthDayNano),
        }
    }
}

impl K {
    pub fn data_type(self) -> DataType {
        match self {
            K::I8 => DataType::Int8, K::I16 => DataType::Int16, K::I32 => DataType::Int32, K::I64 => DataType::Int64,
            K::U8 => DataType::UInt8, K::U16 => DataType::UInt16, K::U32 => DataType::UInt32, K::U64 => DataType::UInt64,
        }
    }
}
impl R {
    pub fn data_type(self) -> DataType {
        match self {
            R::I16 => DataType::Int16, R::I32 => DataType::Int32, R::I64 => DataType::Int64,
        }
    }
}

fn item_field(t: &T) -> FieldRef {
    Arc::new(Field::new("item", t.data_type(), true))
}
fn struct_fields(ts: &[T]) -> Fields {
    ts.iter()
        .enumerate()
        .map(|(i, t)| Field::new(format!("c{i}"), t.data_type(), true))
        .collect::<Vec<_>>()
        .into()
}
fn map_entries_fields(k: &T, v: &T) -> Fields {
    vec![Field::new("key", k.data_type(), false), Field::new("value", v.data_type(), true)].into()
}
fn map_field(k: &T, v: &T) -> FieldRef {
    Arc::new(Field::new("entries", DataType::Struct(map_entries_fields(k, v)), false))
}
/// Union type ids are deliberately not 0..n.
pub fn union_type_id(pos: usize) -> i8 {
    [0i8, 1, 2, 3][pos]
}
fn union_fields(ts: &[T]) -> UnionFields {
    UnionFields::try_new(
        (0..ts.len()).map(union_type_id),
        ts.iter().enumerate().map(|(i, t)| Field::new(format!("u{i}"), t.data_type(), true)),
    )
    .unwrap()
}

impl T {
    pub fn data_type(&self) -> DataType {
        use DataType as D;
        match self {
            T::Null => D::Null,
            T::Bool => D::Boolean,
            T::Prim(p) => p.data_type(),
            T::Utf8 => D::Utf8, T::LargeUtf8 => D::LargeUtf8, T::Utf8View => D::Utf8View,
            T::Binary => D::Binary, T::LargeBinary => D::LargeBinary, T::BinaryView => D::BinaryView,
            T::Fsb(n) => D::FixedSizeBinary(*n),
            T::Dict(k, v) => D::Dictionary(Box::new(k.data_type()), Box::new(v.data_type())),
            T::Ree(r, v) => D::RunEndEncoded(
                Arc::new(Field::new("run_ends", r.data_type(), false)),
                Arc::new(Field::new("values", v.data_type(), true)),
            ),
            T::Struct(ts) => D::Struct(struct_fields(ts)),
            T::List(t) => D::List(item_field(t)),
            T::LargeList(t) => D::LargeList(item_field(t)),
            T::ListView(t) => D::ListView(item_field(t)),
            T::LargeListView(t) => D::LargeListView(item_field(t)),
            T::Fsl(t, n) => D::FixedSizeList(item_field(t), *n),
            T::Map(k, v) => D::Map(map_field(k, v), false),
            T::Union(ts, dense) => {
                D::Union(union_fields(ts), if *dense { UnionMode::Dense } else { UnionMode::Sparse })
            }
        }
    }

    /// Short printable name.
    pub fn name(&self) -> String {
        match self {
            T::Prim(p) => format!("{p:?}"),
            T::Fsb(n) => format!("Fsb{n}"),
            T::Dict(k, v) => format!("Dict<{k:?},{}>", v.name()),
            T::Ree(r, v) => format!("Ree<{r:?},{}>", v.name()),
            T::Struct(ts) => format!("Struct<{}>", ts.iter().map(|t| t.name()).collect::<Vec<_>>().join(",")),
            T::List(t) => format!("List<{}>", t.name()),
            T::LargeList(t) => format!("LargeList<{}>", t.name()),
            T::ListView(t) => format!("ListView<{}>", t.name()),
            T::LargeListView(t) => format!("LargeListView<{}>", t.name()),
            T::Fsl(t, n) => format!("Fsl<{},{n}>", t.name()),
            T::Map(k, v) => format!("Map<{},{}>", k.name(), v.name()),
            T::Union(ts, d) => format!(
                "{}Union<{}>",
                if *d { "Dense" } else { "Sparse" },
                ts.iter().map(|t| t.name()).collect::<Vec<_>>().join(",")
            ),
            o => format!("{o:?}"),
        }
    }

    /// Can a slot of this type be NULL at its own level?
    pub fn nullable_here(&self) -> bool {
        match self {
            T::Union(..) => false,
            T::Dict(_, v) | T::Ree(_, v) => v.nullable_here(),
            _ => true,
        }
    }

    /// The small logical value domain of the type (first element NULL when the type can be NULL).
    pub fn domain(&self) -> Vec<V> {
        let nn = |t: &T| -> Vec<V> { t.domain().into_iter().filter(|v| *v != V::Null).collect() };
        match self {
            T::Null => vec![V::Null],
            T::Bool => vec![V::Null, V::Bool(false), V::Bool(true)],
            T::Prim(p) if p.is_float() => vec![V::Null, f(0.0), f(-0.0), f(1.5), f(f64::NAN)],
            T::Prim(_) => vec![V::Null, V::Int(0), V::Int(1), V::Int(100)],
            T::Utf8 | T::LargeUtf8 => vec![V::Null, s(""), s("a"), s("ab")],
            T::Utf8View => vec![V::Null, s("a"), s("abcdefghijkl"), s("abcdefghijklm"), s("abcdefghijklM")],
            T::Binary | T::LargeBinary => {
                vec![V::Null, V::Bin(vec![]), V::Bin(vec![0]), V::Bin(vec![0, 255])]
            }
            T::BinaryView => vec![
                V::Null,
                V::Bin(vec![7]),
                V::Bin(b"abcdefghijkl".to_vec()),
                V::Bin(b"abcdefghijklm".to_vec()),
                V::Bin(b"abcdefghijklM".to_vec()),
            ],
            T::Fsb(n) => {
                let n = *n as usize;
                let mut a = vec![0u8; n];
                let mut b = vec![0u8; n];
                let mut c = vec![0u8; n];
                if n > 0 {
                    b[n - 1] = 1;
                    c[0] = 1;
                    a[0] = 0;
                }
                vec![V::Null, V::Bin(a), V::Bin(b), V::Bin(c)]
            }
            T::Dict(_, v) | T::Ree(_, v) => v.domain(),
            T::Struct(ts) => {
                let first: Vec<V> = ts.iter().map(|t| nn(t)[0].clone()).collect();
                let mut second = first.clone();
                second[0] = {
                    let d = nn(&ts[0]);
                    d[1.min(d.len() - 1)].clone()
                };
                let mut last_null = first.clone();
                let l = last_null.len() - 1;
                if ts[l].nullable_here() {
                    last_null[l] = V::Null;
                }
                let all_null: Vec<V> =
                    ts.iter().zip(&first).map(|(t, x)| if t.nullable_here() { V::Null } else { x.clone() }).collect();
                vec![V::Null, V::Struct(first), V::Struct(last_null), V::Struct(all_null), V::Struct(second)]
            }
            T::List(t) | T::LargeList(t) | T::ListView(t) | T::LargeListView(t) => {
                let d = nn(t);
                let c1 = d[0].clone();
                let n = if t.nullable_here() { V::Null } else { d[d.len() - 1].clone() };
                vec![
                    V::Null,
                    V::List(vec![]),
                    V::List(vec![c1.clone()]),
                    V::List(vec![c1.clone(), n.clone()]),
                    V::List(vec![n, c1]),
                ]
            }
            T::Fsl(t, n) => {
                let d = nn(t);
                let c1 = d[0].clone();
                let c2 = d[1.min(d.len() - 1)].clone();
                let nul = if t.nullable_here() { V::Null } else { c2.clone() };
                let n = *n as usize;
                let mk = |a: &V, b: &V| V::List((0..n).map(|i| if i % 2 == 0 { a.clone() } else { b.clone() }).collect());
                vec![V::Null, mk(&c1, &c2), mk(&c1, &nul), mk(&nul, &nul), mk(&c2, &c1)]
            }
            T::Map(k, v) => {
                let kd = nn(k);
                let vd = nn(v);
                vec![
                    V::Null,
                    V::Map(vec![]),
                    V::Map(vec![(kd[0].clone(), vd[0].clone())]),
                    V::Map(vec![(kd[0].clone(), V::Null)]),
                    V::Map(vec![(kd[0].clone(), vd[0].clone()), (kd[1].clone(), vd[1.min(vd.len() - 1)].clone())]),
                ]
            }
            T::Union(ts, _) => {
                let mut out = vec![];
                let d0 = nn(&ts[0]);
                out.push(V::Union(0, Box::new(d0[0].clone())));
                if ts[0].nullable_here() {
                    out.push(V::Union(0, Box::new(V::Null)));
                }
                out.push(V::Union(1, Box::new(nn(&ts[1])[0].clone())));
                out.push(V::Union(0, Box::new(d0[1.min(d0.len() - 1)].clone())));
                for (i, t) in ts.iter().enumerate().skip(2) {
                    out.push(V::Union(i, Box::new(nn(t)[0].clone())));
                }
                out
            }
        }
    }

    /// What is physically stored under a NULL slot: the type's "zero" or a garbage (valid-looking) value.
    pub fn fill(&self, garbage: bool) -> V {
        if garbage {
            let d = self.domain();
            if let Some(v) = d.iter().rev().find(|v| **v != V::Null) {
                return v.clone();
            }
        }
        match self {
            T::Null => V::Null,
            T::Bool => V::Bool(false),
            T::Prim(p) if p.is_float() => f(0.0),
            T::Prim(_) => V::Int(0),
            T::Utf8 | T::LargeUtf8 | T::Utf8View => s(""),
            T::Binary | T::LargeBinary | T::BinaryView => V::Bin(vec![]),
            T::Fsb(n) => V::Bin(vec![0; *n as usize]),
            T::Dict(_, v) | T::Ree(_, v) => v.fill(false),
            T::Struct(ts) => V::Struct(ts.iter().map(|t| if t.nullable_here() { V::Null } else { t.fill(false) }).collect()),
            T::List(_) | T::LargeList(_) | T::ListView(_) | T::LargeListView(_) => V::List(vec![]),
            T::Fsl(t, n) => {
                V::List((0..*n).map(|_| if t.nullable_here() { V::Null } else { t.fill(false) }).collect())
            }
            T::Map(..) => V::Map(vec![]),
            T::Union(ts, _) => V::Union(0, Box::new(if ts[0].nullable_here() { V::Null } else { ts[0].fill(false) })),
        }
    }

    /// Number of type-specific physical layouts (see [`build`]).
    pub fn layouts(&self) -> usize {
        match self {
            T::Null | T::Bool | T::Prim(_) | T::Fsb(_) => 1,
            T::Utf8 | T::LargeUtf8 | T::Binary | T::LargeBinary => 2,
            T::Utf8View | T::BinaryView => 3,
            T::Dict(..) => 6,
            T::Ree(_, v) => 8 * v.layouts().min(6),
            T::Struct(ts) => ts.iter().map(|t| t.layouts()).max().unwrap_or(1).min(4),
            T::List(t) | T::LargeList(t) | T::Map(_, t) => 2 * t.layouts().min(3),
            T::ListView(t) | T::LargeListView(t) => 3 * t.layouts().min(2),
            T::Fsl(t, _) => t.layouts().min(3),
            T::Union(ts, dense) => {
                let c = ts.iter().map(|t| t.layouts()).max().unwrap_or(1).min(2);
                if *dense { 3 * c } else { c }
            }
        }
    }
}

/// Physical knobs that apply to every type.
#[derive(Clone, Copy, Debug, PartialEq, Eq, Hash, Serialize, Deserialize)]
pub struct G {
    /// keep a validity buffer even when every slot is valid
    pub force_validity: bool,
    /// store a valid-looking value (instead of the zero value) under NULL slots
    pub garbage: bool,
    /// child arrays of nested types are slices (offset 1) of longer arrays
    pub child_slice: bool,
}

pub const GS: [G; 4] = [
    G { force_validity: false, garbage: false, child_slice: false },
    G { force_validity: true, garbage: false, child_slice: false },
    G { force_validity: false, garbage: true, child_slice: false },
    G { force_validity: true, garbage: true, child_slice: true },
];

fn nulls_of(col: &[V], g: G) -> Option<NullBuffer> {
    let any = col.iter().any(|v| *v == V::Null);
    if any || g.force_validity {
        Some(NullBuffer::from(col.iter().map(|v| *v != V::Null).collect::<Vec<bool>>()))
    } else {
        None
    }
}

/// Physical content of every slot (NULL slots replaced by the fill value).
fn phys(t: &T, col: &[V], g: G) -> Vec<V> {
    let fill = t.fill(g.garbage);
    col.iter().map(|v| if *v == V::Null { fill.clone() } else { v.clone() }).collect()
}

fn as_i(v: &V) -> i64 {
    match v {
        V::Int(i) => *i,
        o => panic!("encoder: expected Int, got {o:?}"),
    }
}
fn as_f(v: &V) -> f64 {
    match v {
        V::F(b) => f64::from_bits(*b),
        o => panic!("encoder: expected F, got {o:?}"),
    }
}
fn as_bytes(v: &V) -> Vec<u8> {
    match v {
        V::Str(s) => s.as_bytes().to_vec(),
        V::Bin(b) => b.clone(),
        o => panic!("encoder: expected Str/Bin, got {o:?}"),
    }
}
fn as_list(v: &V) -> &Vec<V> {
    match v {
        V::List(x) => x,
        o => panic!("encoder: expected List, got {o:?}"),
    }
}

macro_rules! prim {
    ($ty:ty, $vals:expr, $nulls:expr, $conv:expr) => {{
        let v: Vec<<$ty as ArrowPrimitiveType>::Native> = $vals.iter().map($conv).collect();
        PrimitiveArray::<$ty>::new(v.into(), $nulls)
    }};
}

fn prim_array(p: P, vals: &[V], nulls: Option<NullBuffer>) -> ArrayRef {
    let dt = p.data_type();
    match p {
        P::I8 => Arc::new(prim!(Int8Type, vals, nulls, |v| as_i(v) as i8)),
        P::I16 => Arc::new(prim!(Int16Type, vals, nulls, |v| as_i(v) as i16)),
        P::I32 => Arc::new(prim!(Int32Type, vals, nulls, |v| as_i(v) as i32)),
        P::I64 => Arc::new(prim!(Int64Type, vals, nulls, |v| as_i(v))),
        P::U8 => Arc::new(prim!(UInt8Type, vals, nulls, |v| as_i(v) as u8)),
        P::U16 => Arc::new(prim!(UInt16Type, vals, nulls, |v| as_i(v) as u16)),
        P::U32 => Arc::new(prim!(UInt32Type, vals, nulls, |v| as_i(v) as u32)),
        P::U64 => Arc::new(prim!(UInt64Type, vals, nulls, |v| as_i(v) as u64)),
        P::F16 => Arc::new(prim!(Float16Type, vals, nulls, |v| f16::from_f64(as_f(v)))),
        P::F32 => Arc::new(prim!(Float32Type, vals, nulls, |v| as_f(v) as f32)),
        P::F64 => Arc::new(prim!(Float64Type, vals, nulls, |v| as_f(v))),
        P::Dec32 => Arc::new(prim!(Decimal32Type, vals, nulls, |v| as_i(v) as i32).with_data_type(dt)),
        P::Dec64 => Arc::new(prim!(Decimal64Type, vals, nulls, |v| as_i(v)).with_data_type(dt)),
        P::Dec128 => Arc::new(prim!(Decimal128Type, vals, nulls, |v| as_i(v) as i128).with_data_type(dt)),
        P::Dec256 => {
            Arc::new(prim!(Decimal256Type, vals, nulls, |v| i256::from_i128(as_i(v) as i128)).with_data_type(dt))
        }
        P::Date32 => Arc::new(prim!(Date32Type, vals, nulls, |v| as_i(v) as i32)),
        P::Date64 => Arc::new(prim!(Date64Type, vals, nulls, |v| as_i(v))),
        P::T32S => Arc::new(prim!(Time32SecondType, vals, nulls, |v| as_i(v) as i32)),
        P::T32Ms => Arc::new(prim!(Time32MillisecondType, vals, nulls, |v| as_i(v) as i32)),
        P::T64Us => Arc::new(prim!(Time64MicrosecondType, vals, nulls, |v| as_i(v))),
        P::T64Ns => Arc::new(prim!(Time64NanosecondType, vals, nulls, |v| as_i(v))),
        P::TsS | P::TsSTz => Arc::new(prim!(TimestampSecondType, vals, nulls, |v| as_i(v)).with_data_type(dt)),
        P::TsMs => Arc::new(prim!(TimestampMillisecondType, vals, nulls, |v| as_i(v))),
        P::TsUs => Arc::new(prim!(TimestampMicrosecondType, vals, nulls, |v| as_i(v))),
        P::TsNs | P::TsNsUtc => Arc::new(prim!(TimestampNanosecondType, vals, nulls, |v| as_i(v)).with_data_type(dt)),
        P::DurS => Arc::new(prim!(DurationSecondType, vals, nulls, |v| as_i(v))),
        P::DurMs => Arc::new(prim!(DurationMillisecondType, vals, nulls, |v| as_i(v))),
        P::DurUs => Arc::new(prim!(DurationMicrosecondType, vals, nulls, |v| as_i(v))),
        P::DurNs => Arc::new(prim!(DurationNanosecondType, vals, nulls, |v| as_i(v))),
        P::IvYM => Arc::new(prim!(IntervalYearMonthType, vals, nulls, |v| as_i(v) as i32)),
        P::IvDT => Arc::new(prim!(IntervalDayTimeType, vals, nulls, |v| {
            let i = as_i(v);
            IntervalDayTime::new(i as i32, (i * 7) as i32)
        })),
        P::IvMDN => Arc::new(prim!(IntervalMonthDayNanoType, vals, nulls, |v| {
            let i = as_i(v);
            IntervalMonthDayNano::new(i as i32, (i * 3) as i32, i * 1000)
        })),
    }
}

fn key_array<KT: ArrowDictionaryKeyType>(keys: &[usize], nulls: Option<NullBuffer>) -> PrimitiveArray<KT> {
    let v: Vec<KT::Native> = keys.iter().map(|k| KT::Native::from_usize(*k).unwrap()).collect();
    PrimitiveArray::<KT>::new(v.into(), nulls)
}

fn dict_array(k: K, keys: &[usize], nulls: Option<NullBuffer>, values: ArrayRef) -> ArrayRef {
    macro_rules! mk {
        ($kt:ty) => {
            Arc::new(DictionaryArray::<$kt>::try_new(key_array::<$kt>(keys, nulls), values).expect("encoder: dictionary"))
                as ArrayRef
        };
    }
    match k {
        K::I8 => mk!(Int8Type), K::I16 => mk!(Int16Type), K::I32 => mk!(Int32Type), K::I64 => mk!(Int64Type),
        K::U8 => mk!(UInt8Type), K::U16 => mk!(UInt16Type), K::U32 => mk!(UInt32Type), K::U64 => mk!(UInt64Type),
    }
}

fn ree_array(r: R, ends: &[usize], values: ArrayRef) -> ArrayRef {
    macro_rules! mk {
        ($rt:ty) => {{
            let e: Vec<<$rt as ArrowPrimitiveType>::Native> = ends.iter().map(|x| *x as _).collect();
            let e = PrimitiveArray::<$rt>::new(e.into(), None);
            Arc::new(RunArray::<$rt>::try_new(&e, values.as_ref()).expect("encoder: run array")) as ArrayRef
        }};
    }
    match r {
        R::I16 => mk!(Int16Type), R::I32 => mk!(Int32Type), R::I64 => mk!(Int64Type),
    }
}

/// A child array of a nested type: optionally a slice (offset 1) of a longer array.
fn child(t: &T, col: &[V], layout: usize, g: G) -> Option<ArrayRef> {
    let layout = layout % t.layouts();
    if g.child_slice {
        let mut longer = vec![t.fill(true)];
        longer.extend_from_slice(col);
        // a layout number that does not exist for this column falls back to layout 0
        let a = build(t, &longer, layout, g).or_else(|| build(t, &longer, 0, g))?;
        Some(a.slice(1, col.len()))
    } else {
        build(t, col, layout, g).or_else(|| build(t, col, 0, g))
    }
}

fn bytes_array<O: OffsetSizeTrait>(t: &T, col: &[V], layout: usize, g: G, utf8: bool) -> ArrayRef {
    let p = phys(t, col, g);
    let mut data: Vec<u8> = vec![];
    let mut offsets: Vec<O> = vec![];
    if layout == 1 {
        data.extend_from_slice(b"###");
    }
    offsets.push(O::usize_as(data.len()));
    for v in &p {
        data.extend_from_slice(&as_bytes(v));
        offsets.push(O::usize_as(data.len()));
    }
    if layout == 1 {
        data.extend_from_slice(b"@@");
    }
    let offsets = OffsetBuffer::new(ScalarBuffer::from(offsets));
    let nulls = nulls_of(col, g);
    if utf8 {
        Arc::new(GenericStringArray::<O>::new(offsets, Buffer::from(data), nulls))
    } else {
        Arc::new(GenericBinaryArray::<O>::new(offsets, Buffer::from(data), nulls))
    }
}

fn view_array(t: &T, col: &[V], layout: usize, g: G, utf8: bool) -> ArrayRef {
    let nulls = nulls_of(col, g);
    let mut buffers: Vec<Vec<u8>> = vec![];
    let mut views: Vec<u128> = vec![];
    match layout {
        1 => buffers.push(b"unused-buffer-000".to_vec()),
        2 => buffers.push(b"%%".to_vec()),
        _ => {}
    }
    let mut shared: Vec<(Vec<u8>, u32, u32)> = vec![];
    for v in col {
        let bytes = if *v == V::Null {
            if !g.garbage {
                views.push(0);
                continue;
            }
            as_bytes(&t.fill(true))
        } else {
            as_bytes(v)
        };
        if bytes.len() <= 12 {
            views.push(make_view(&bytes, 0, 0));
            continue;
        }
        match layout {
            0 => {
                if buffers.is_empty() {
                    buffers.push(vec![]);
                }
                let off = buffers[0].len() as u32;
                buffers[0].extend_from_slice(&bytes);
                views.push(make_view(&bytes, 0, off));
            }
            1 => {
                // one buffer per long string, two junk bytes in front
                let mut b = b"##".to_vec();
                b.extend_from_slice(&bytes);
                buffers.push(b);
                views.push(make_view(&bytes, (buffers.len() - 1) as u32, 2));
            }
            _ => {
                // equal strings share their bytes
                if let Some((_, bi, off)) = shared.iter().find(|(b, _, _)| *b == bytes) {
                    views.push(make_view(&bytes, *bi, *off));
                } else {
                    let off = buffers[0].len() as u32;
                    buffers[0].extend_from_slice(&bytes);
                    buffers[0].push(b'%');
                    shared.push((bytes.clone(), 0, off));
                    views.push(make_view(&bytes, 0, off));
                }
            }
        }
    }
    let buffers: Vec<Buffer> = buffers.into_iter().map(Buffer::from).collect();
    if utf8 {
        Arc::new(StringViewArray::try_new(ScalarBuffer::from(views), buffers, nulls).expect("encoder: string view"))
    } else {
        Arc::new(BinaryViewArray::try_new(ScalarBuffer::from(views), buffers, nulls).expect("encoder: binary view"))
    }
}

/// All compositions of `col` into runs of (exactly) equal values.
pub fn run_partitions(col: &[V]) -> Vec<Vec<usize>> {
    let n = col.len();
    if n == 0 {
        return vec![vec![]];
    }
    let mut out = vec![];
    // cut mask over n-1 gaps; a gap between different values must be cut
    for m in 0..(1usize << (n - 1)) {
        let mut ok = true;
        let mut ends = vec![];
        for i in 0..n - 1 {
            let cut = (m >> i) & 1 == 1;
            if col[i] != col[i + 1] && !cut {
                ok = false;
                break;
            }
            if cut {
                ends.push(i + 1);
            }
        }
        if ok {
            ends.push(n);
            out.push(ends);
        }
    }
    // fewest runs first
    out.sort_by_key(|e: &Vec<usize>| e.len());
    out
}

/// Build one physical array for the logical column `col` of type `t`.
/// `None` when this layout number does not exist for this column.
pub fn build(t: &T, col: &[V], layout: usize, g: G) -> Option<ArrayRef> {
    let n = col.len();
    Some(match t {
        T::Null => {
            assert!(col.iter().all(|v| *v == V::Null));
            Arc::new(NullArray::new(n))
        }
        T::Bool => {
            let p = phys(t, col, g);
            let bits: Vec<bool> = p.iter().map(|v| matches!(v, V::Bool(true))).collect();
            Arc::new(BooleanArray::new(BooleanBuffer::from(bits), nulls_of(col, g)))
        }
        T::Prim(p) => prim_array(*p, &phys(t, col, g), nulls_of(col, g)),
        T::Utf8 => bytes_array::<i32>(t, col, layout, g, true),
        T::LargeUtf8 => bytes_array::<i64>(t, col, layout, g, true),
        T::Binary => bytes_array::<i32>(t, col, layout, g, false),
        T::LargeBinary => bytes_array::<i64>(t, col, layout, g, false),
        T::Utf8View => view_array(t, col, layout, g, true),
        T::BinaryView => view_array(t, col, layout, g, false),
        T::Fsb(size) => {
            let p = phys(t, col, g);
            let mut data = vec![];
            for v in &p {
                let b = as_bytes(v);
                assert_eq!(b.len(), *size as usize);
                data.extend_from_slice(&b);
            }
            Arc::new(
                FixedSizeBinaryArray::try_new_with_len(*size, Buffer::from(data), nulls_of(col, g), n)
                    .expect("encoder: fixed size binary"),
            )
        }
        T::Dict(k, inner) => {
            // distinct non-null values in first-occurrence order
            let mut distinct: Vec<V> = vec![];
            for v in col {
                if *v != V::Null && !distinct.contains(v) {
                    distinct.push(v.clone());
                }
            }
            let d = distinct.len();
            // values array and the position(s) of every distinct value in it
            let (values, pos, null_pos): (Vec<V>, Vec<Vec<usize>>, Option<usize>) = match layout {
                0 => (distinct.clone(), (0..d).map(|i| vec![i]).collect(), None),
                1 => (distinct.iter().rev().cloned().collect(), (0..d).map(|i| vec![d - 1 - i]).collect(), None),
                2 => {
                    let mut v = vec![inner.fill(true)];
                    v.extend(distinct.iter().cloned());
                    v.push(inner.fill(false));
                    (v, (0..d).map(|i| vec![i + 1]).collect(), None)
                }
                3 | 4 => {
                    if !inner.nullable_here() {
                        return None;
                    }
                    let mut v = distinct.clone();
                    v.push(V::Null);
                    (v, (0..d).map(|i| vec![i]).collect(), Some(d))
                }
                5 => {
                    let mut v = distinct.clone();
                    v.extend(distinct.iter().cloned());
                    (v, (0..d).map(|i| vec![i, i + d]).collect(), None)
                }
                _ => return None,
            };
            let mut keys = vec![];
            let mut valid = vec![];
            let mut seen = vec![0usize; d];
            let mut nulls_seen = 0usize;
            let garbage_key = if g.garbage && !values.is_empty() { values.len() - 1 } else { 0 };
            for v in col {
                if *v == V::Null {
                    let via_value = match layout {
                        3 => true,
                        4 => nulls_seen % 2 == 1,
                        _ => false,
                    };
                    nulls_seen += 1;
                    if via_value {
                        keys.push(null_pos.unwrap());
                        valid.push(true);
                    } else {
                        keys.push(garbage_key);
                        valid.push(false);
                    }
                } else {
                    let i = distinct.iter().position(|x| x == v).unwrap();
                    keys.push(pos[i][seen[i] % pos[i].len()]);
                    seen[i] += 1;
                    valid.push(true);
                }
            }
            let key_nulls = if valid.iter().any(|x| !*x) || g.force_validity { Some(NullBuffer::from(valid)) } else { None };
            let values = child(inner, &values, layout, g)?;
            dict_array(*k, &keys, key_nulls, values)
        }
        T::Ree(r, inner) => {
            // layout = (run partition number, layout of the values child)
            let parts = run_partitions(col);
            let ends = parts.get(layout % 8)?;
            let cl = layout / 8;
            let mut vals = vec![];
            let mut start = 0;
            for e in ends {
                vals.push(col[start].clone());
                start = *e;
            }
            let values = child(inner, &vals, cl, g)?;
            ree_array(*r, ends, values)
        }
        T::Struct(ts) => {
            let p = phys(t, col, g);
            let mut arrays = vec![];
            for (j, ct) in ts.iter().enumerate() {
                let ccol: Vec<V> = p
                    .iter()
                    .map(|v| match v {
                        V::Struct(xs) => xs[j].clone(),
                        o => panic!("encoder: expected Struct, got {o:?}"),
                    })
                    .collect();
                arrays.push(child(ct, &ccol, layout, g)?);
            }
            Arc::new(
                StructArray::try_new_with_length(struct_fields(ts), arrays, nulls_of(col, g), n).expect("encoder: struct"),
            )
        }
        T::List(inner) => list_array::<i32>(t, inner, col, layout, g)?,
        T::LargeList(inner) => list_array::<i64>(t, inner, col, layout, g)?,
        T::ListView(inner) => list_view_array::<i32>(t, inner, col, layout, g)?,
        T::LargeListView(inner) => list_view_array::<i64>(t, inner, col, layout, g)?,
        T::Fsl(inner, size) => {
            let p = phys(t, col, g);
            let mut flat = vec![];
            for v in &p {
                let l = as_list(v);
                assert_eq!(l.len(), *size as usize);
                flat.extend(l.iter().cloned());
            }
            let values = child(inner, &flat, layout, g)?;
            Arc::new(
                FixedSizeListArray::try_new_with_length(item_field(inner), *size, values, nulls_of(col, g), n)
                    .expect("encoder: fixed size list"),
            )
        }
        T::Map(kt, vt) => {
            let own = layout % 2;
            let cl = layout / 2;
            let p = phys(t, col, g);
            let mut ks = vec![];
            let mut vs = vec![];
            let mut offsets: Vec<i32> = vec![];
            if own == 1 {
                let fk = kt.fill(true);
                ks.push(fk.clone());
                vs.push(vt.fill(true));
                ks.push(fk);
                vs.push(vt.fill(false));
            }
            offsets.push(ks.len() as i32);
            for v in &p {
                match v {
                    V::Map(es) => {
                        for (k, x) in es {
                            ks.push(k.clone());
                            vs.push(x.clone());
                        }
                    }
                    o => panic!("encoder: expected Map, got {o:?}"),
                }
                offsets.push(ks.len() as i32);
            }
            if own == 1 {
                ks.push(kt.fill(true));
                vs.push(vt.fill(true));
            }
            // keys are non-nullable: never force a validity buffer into trouble (all valid is fine)
            let karr = child(kt, &ks, cl, g)?;
            let varr = child(vt, &vs, cl, g)?;
            let entries = StructArray::try_new_with_length(map_entries_fields(kt, vt), vec![karr, varr], None, ks.len())
                .expect("encoder: map entries");
            Arc::new(
                MapArray::try_new(
                    map_field(kt, vt),
                    OffsetBuffer::new(ScalarBuffer::from(offsets)),
                    entries,
                    nulls_of(col, g),
                    false,
                )
                .expect("encoder: map"),
            )
        }
        T::Union(ts, dense) => {
            let own = if *dense { layout % 3 } else { 0 };
            let cl = if *dense { layout / 3 } else { layout };
            let type_ids: Vec<i8> = col
                .iter()
                .map(|v| match v {
                    V::Union(i, _) => union_type_id(*i),
                    o => panic!("encoder: expected Union, got {o:?}"),
                })
                .collect();
            let parts: Vec<(usize, V)> = col
                .iter()
                .map(|v| match v {
                    V::Union(i, x) => (*i, (**x).clone()),
                    _ => unreachable!(),
                })
                .collect();
            let mut children = vec![];
            let mut offsets: Vec<i32> = vec![0; n];
            for (j, ct) in ts.iter().enumerate() {
                if !*dense {
                    // unselected slots: NULL (or zero) / garbage
                    let other = if g.garbage {
                        ct.fill(true)
                    } else if ct.nullable_here() {
                        V::Null
                    } else {
                        ct.fill(false)
                    };
                    let ccol: Vec<V> = parts.iter().map(|(i, x)| if *i == j { x.clone() } else { other.clone() }).collect();
                    children.push(child(ct, &ccol, cl, g)?);
                } else {
                    let rows: Vec<usize> = (0..n).filter(|r| parts[*r].0 == j).collect();
                    let mut ccol: Vec<V> = vec![];
                    match own {
                        0 => {
                            for r in &rows {
                                offsets[*r] = ccol.len() as i32;
                                ccol.push(parts[*r].1.clone());
                            }
                        }
                        1 => {
                            // junk slot in front, rows stored in reverse order
                            ccol.push(ct.fill(true));
                            for r in rows.iter().rev() {
                                offsets[*r] = ccol.len() as i32;
                                ccol.push(parts[*r].1.clone());
                            }
                        }
                        _ => {
                            // equal values share one slot
                            for r in &rows {
                                if let Some(p) = ccol.iter().position(|x| *x == parts[*r].1) {
                                    offsets[*r] = p as i32;
                                } else {
                                    offsets[*r] = ccol.len() as i32;
                                    ccol.push(parts[*r].1.clone());
                                }
                            }
                            ccol.push(ct.fill(true));
                        }
                    }
                    children.push(child(ct, &ccol, cl, g)?);
                }
            }
            Arc::new(
                UnionArray::try_new(
                    union_fields(ts),
                    ScalarBuffer::from(type_ids),
                    if *dense { Some(ScalarBuffer::from(offsets)) } else { None },
                    children,
                )
                .expect("encoder: union"),
            )
        }
    })
}

fn list_array<O: OffsetSizeTrait>(t: &T, inner: &T, col: &[V], layout: usize, g: G) -> Option<ArrayRef> {
    let own = layout % 2;
    let cl = layout / 2;
    let p = phys(t, col, g);
    let mut flat: Vec<V> = vec![];
    let mut offsets: Vec<O> = vec![];
    if own == 1 {
        flat.push(inner.fill(true));
        flat.push(inner.fill(false));
    }
    offsets.push(O::usize_as(flat.len()));
    for v in &p {
        flat.extend(as_list(v).iter().cloned());
        offsets.push(O::usize_as(flat.len()));
    }
    if own == 1 {
        flat.push(inner.fill(true));
    }
    let values = child(inner, &flat, cl, g)?;
    Some(Arc::new(
        GenericListArray::<O>::try_new(item_field(inner), OffsetBuffer::new(ScalarBuffer::from(offsets)), values, nulls_of(col, g))
            .expect("encoder: list"),
    ))
}

fn list_view_array<O: OffsetSizeTrait>(t: &T, inner: &T, col: &[V], layout: usize, g: G) -> Option<ArrayRef> {
    let own = layout % 3;
    let cl = layout / 3;
    let n = col.len();
    let p = phys(t, col, g);
    let mut flat: Vec<V> = vec![];
    let mut offs = vec![0usize; n];
    let mut sizes = vec![0usize; n];
    match own {
        0 => {
            for (i, v) in p.iter().enumerate() {
                // a NULL slot without garbage points at (0, 0)
                if col[i] == V::Null && !g.garbage {
                    continue;
                }
                let l = as_list(v);
                offs[i] = flat.len();
                sizes[i] = l.len();
                flat.extend(l.iter().cloned());
            }
        }
        1 => {
            // rows stored back to front
            for i in (0..n).rev() {
                let l = as_list(&p[i]);
                offs[i] = flat.len();
                sizes[i] = l.len();
                flat.extend(l.iter().cloned());
            }
        }
        _ => {
            // junk in front, (exactly) equal lists share one range
            flat.push(inner.fill(true));
            let mut seen: Vec<(Vec<V>, usize)> = vec![];
            for (i, v) in p.iter().enumerate() {
                let l = as_list(v);
                sizes[i] = l.len();
                if let Some((_, o)) = seen.iter().find(|(x, _)| x == l) {
                    offs[i] = *o;
                } else {
                    offs[i] = flat.len();
                    seen.push((l.clone(), flat.len()));
                    flat.extend(l.iter().cloned());
                }
            }
        }
    }
    let values = child(inner, &flat, cl, g)?;
    let offs: Vec<O> = offs.into_iter().map(O::usize_as).collect();
    let sizes: Vec<O> = sizes.into_iter().map(O::usize_as).collect();
    Some(Arc::new(
        GenericListViewArray::<O>::try_new(
            item_field(inner),
            ScalarBuffer::from(offs),
            ScalarBuffer::from(sizes),
            values,
            nulls_of(col, g),
        )
        .expect("encoder: list view"),
    ))
}

/// One physical encoding of a logical column.
#[derive(Clone)]
pub struct Enc {
    pub name: String,
    pub arr: ArrayRef,
}

/// Slice variants applied on top of every (layout, G) combination.
pub const SLICES: usize = 4;

fn pad_values(t: &T) -> Vec<V> {
    t.domain()
}

/// Build `col` as a slice of a longer array.  Variant 0 = not sliced.
pub fn build_sliced(t: &T, col: &[V], layout: usize, g: G, slice: usize) -> Option<ArrayRef> {
    let n = col.len();
    let d = pad_values(t);
    let (prefix, suffix): (Vec<V>, Vec<V>) = match slice {
        0 => return build(t, col, layout, g),
        // offset 1, first padding value of the domain (NULL where possible) in front, a valid value behind
        1 => (vec![d[0].clone()], vec![d[d.len() - 1].clone()]),
        // offset 2, neighbours repeat the adjacent values (runs span the slice boundary)
        2 => {
            let first = col.first().cloned().unwrap_or_else(|| d[d.len() - 1].clone());
            let last = col.last().cloned().unwrap_or_else(|| d[0].clone());
            (vec![first.clone(), first], vec![last])
        }
        // offset 9: the validity bitmap / boolean bits start in the second byte
        3 => ((0..9).map(|i| d[i % d.len()].clone()).collect(), vec![]),
        _ => return None,
    };
    let mut longer = prefix.clone();
    longer.extend_from_slice(col);
    longer.extend(suffix);
    Some(build(t, &longer, layout, g)?.slice(prefix.len(), n))
}

/// All physical encodings of `col` (same `DataType`, same logical content).
/// `max_slices` ≤ [`SLICES`] limits the slice variants (1 = unsliced only).
pub fn encodings(t: &T, col: &[V], max_slices: usize) -> Vec<Enc> {
    let mut out = vec![];
    for layout in 0..t.layouts() {
        for (gi, g) in GS.iter().enumerate() {
            for sl in 0..max_slices.min(SLICES) {
                if let Some(arr) = build_sliced(t, col, layout, *g, sl) {
                    out.push(Enc { name: format!("L{layout}.G{gi}.S{sl}"), arr });
                }
            }
        }
    }
    out
}

/// The boring encoding (layout 0, no forced validity, zero under NULL, not sliced).
pub fn plain(t: &T, col: &[V]) -> ArrayRef {
    build(t, col, 0, GS[0]).expect("layout 0 always exists")
}

// ---------------------------------------------------------------------------
// decoding (independent of the encoders: Arrow accessors only)

macro_rules! dec_prim {
    ($arr:expr, $i:expr, $ty:ty, $conv:expr) => {{
        let a = $arr.as_any().downcast_ref::<PrimitiveArray<$ty>>().expect("decode: primitive downcast");
        if a.is_null($i) { V::Null } else { ($conv)(a.value($i)) }
    }};
}

fn dec_float(x: f64) -> V {
    if x.is_nan() { f(f64::NAN) } else { f(x) }
}

/// Logical value at row `i`.
pub fn decode(arr: &dyn Array, i: usize) -> V {
    use DataType as D;
    match arr.data_type() {
        D::Null => V::Null,
        D::Boolean => {
            let a = arr.as_boolean();
            if a.is_null(i) { V::Null } else { V::Bool(a.value(i)) }
        }
        D::Int8 => dec_prim!(arr, i, Int8Type, |x| V::Int(x as i64)),
        D::Int16 => dec_prim!(arr, i, Int16Type, |x| V::Int(x as i64)),
        D::Int32 => dec_prim!(arr, i, Int32Type, |x| V::Int(x as i64)),
        D::Int64 => dec_prim!(arr, i, Int64Type, |x| V::Int(x)),
        D::UInt8 => dec_prim!(arr, i, UInt8Type, |x| V::Int(x as i64)),
        D::UInt16 => dec_prim!(arr, i, UInt16Type, |x| V::Int(x as i64)),
        D::UInt32 => dec_prim!(arr, i, UInt32Type, |x| V::Int(x as i64)),
        D::UInt64 => dec_prim!(arr, i, UInt64Type, |x| V::Int(x as i64)),
        D::Float16 => dec_prim!(arr, i, Float16Type, |x: f16| dec_float(x.to_f64())),
        D::Float32 => dec_prim!(arr, i, Float32Type, |x| dec_float(x as f64)),
        D::Float64 => dec_prim!(arr, i, Float64Type, |x| dec_float(x)),
        D::Decimal32(..) => dec_prim!(arr, i, Decimal32Type, |x| V::Int(x as i64)),
        D::Decimal64(..) => dec_prim!(arr, i, Decimal64Type, |x| V::Int(x)),
        D::Decimal128(..) => dec_prim!(arr, i, Decimal128Type, |x| V::Int(x as i64)),
        D::Decimal256(..) => dec_prim!(arr, i, Decimal256Type, |x: i256| V::Int(x.to_i128().unwrap() as i64)),
        D::Date32 => dec_prim!(arr, i, Date32Type, |x| V::Int(x as i64)),
        D::Date64 => dec_prim!(arr, i, Date64Type, |x| V::Int(x)),
        D::Time32(TimeUnit::Second) => dec_prim!(arr, i, Time32SecondType, |x| V::Int(x as i64)),
        D::Time32(_) => dec_prim!(arr, i, Time32MillisecondType, |x| V::Int(x as i64)),
        D::Time64(TimeUnit::Microsecond) => dec_prim!(arr, i, Time64MicrosecondType, |x| V::Int(x)),
        D::Time64(_) => dec_prim!(arr, i, Time64NanosecondType, |x| V::Int(x)),
        D::Timestamp(TimeUnit::Second, _) => dec_prim!(arr, i, TimestampSecondType, |x| V::Int(x)),
        D::Timestamp(TimeUnit::Millisecond, _) => dec_prim!(arr, i, TimestampMillisecondType, |x| V::Int(x)),
        D::Timestamp(TimeUnit::Microsecond, _) => dec_prim!(arr, i, TimestampMicrosecondType, |x| V::Int(x)),
        D::Timestamp(TimeUnit::Nanosecond, _) => dec_prim!(arr, i, TimestampNanosecondType, |x| V::Int(x)),
        D::Duration(TimeUnit::Second) => dec_prim!(arr, i, DurationSecondType, |x| V::Int(x)),
        D::Duration(TimeUnit::Millisecond) => dec_prim!(arr, i, DurationMillisecondType, |x| V::Int(x)),
        D::Duration(TimeUnit::Microsecond) => dec_prim!(arr, i, DurationMicrosecondType, |x| V::Int(x)),
        D::Duration(TimeUnit::Nanosecond) => dec_prim!(arr, i, DurationNanosecondType, |x| V::Int(x)),
        D::Interval(IntervalUnit::YearMonth) => dec_prim!(arr, i, IntervalYearMonthType, |x| V::Int(x as i64)),
        D::Interval(IntervalUnit::DayTime) => dec_prim!(arr, i, IntervalDayTimeType, |x: IntervalDayTime| {
            assert_eq!(x.milliseconds, x.days * 7);
            V::Int(x.days as i64)
        }),
        D::Interval(IntervalUnit::MonthDayNano) => {
            dec_prim!(arr, i, IntervalMonthDayNanoType, |x: IntervalMonthDayNano| {
                assert_eq!(x.days, x.months * 3);
                assert_eq!(x.nanoseconds, x.months as i64 * 1000);
                V::Int(x.months as i64)
            })
        }
        D::Utf8 => {
            let a = arr.as_string::<i32>();
            if a.is_null(i) { V::Null } else { s(a.value(i)) }
        }
        D::LargeUtf8 => {
            let a = arr.as_string::<i64>();
            if a.is_null(i) { V::Null } else { s(a.value(i)) }
        }
        D::Utf8View => {
            let a = arr.as_string_view();
            if a.is_null(i) { V::Null } else { s(a.value(i)) }
        }
        D::Binary => {
            let a = arr.as_binary::<i32>();
            if a.is_null(i) { V::Null } else { V::Bin(a.value(i).to_vec()) }
        }
        D::LargeBinary => {
            let a = arr.as_binary::<i64>();
            if a.is_null(i) { V::Null } else { V::Bin(a.value(i).to_vec()) }
        }
        D::BinaryView => {
            let a = arr.as_binary_view();
            if a.is_null(i) { V::Null } else { V::Bin(a.value(i).to_vec()) }
        }
        D::FixedSizeBinary(_) => {
            let a = arr.as_fixed_size_binary();
            if a.is_null(i) { V::Null } else { V::Bin(a.value(i).to_vec()) }
        }
        D::Dictionary(..) => {
            let a = arr.as_any_dictionary();
            if a.keys().is_null(i) {
                V::Null
            } else {
                let k = a.normalized_keys()[i];
                decode(a.values().as_ref(), k)
            }
        }
        D::RunEndEncoded(..) => {
            macro_rules! run {
                ($rt:ty) => {
                    if let Some(a) = arr.as_any().downcast_ref::<RunArray<$rt>>() {
                        let p = a.get_physical_index(i);
                        return decode(a.values().as_ref(), p);
                    }
                };
            }
            run!(Int16Type);
            run!(Int32Type);
            run!(Int64Type);
            panic!("decode: run array downcast")
        }
        D::Struct(_) => {
            let a = arr.as_struct();
            if a.is_null(i) { V::Null } else { V::Struct(a.columns().iter().map(|c| decode(c.as_ref(), i)).collect()) }
        }
        D::List(_) => dec_list(arr.is_null(i), || arr.as_list::<i32>().value(i)),
        D::LargeList(_) => dec_list(arr.is_null(i), || arr.as_list::<i64>().value(i)),
        D::ListView(_) => dec_list(arr.is_null(i), || arr.as_list_view::<i32>().value(i)),
        D::LargeListView(_) => dec_list(arr.is_null(i), || arr.as_list_view::<i64>().value(i)),
        D::FixedSizeList(..) => dec_list(arr.is_null(i), || arr.as_fixed_size_list().value(i)),
        D::Map(..) => {
            let a = arr.as_map();
            if a.is_null(i) {
                V::Null
            } else {
                let e = a.value(i);
                V::Map(
                    (0..e.len())
                        .map(|j| (decode(e.column(0).as_ref(), j), decode(e.column(1).as_ref(), j)))
                        .collect(),
                )
            }
        }
        D::Union(fields, _) => {
            let a = arr.as_any().downcast_ref::<UnionArray>().expect("decode: union downcast");
            let tid = a.type_id(i);
            let pos = fields.iter().position(|(id, _)| id == tid).expect("decode: type id");
            let off = a.value_offset(i);
            V::Union(pos, Box::new(decode(a.child(tid).as_ref(), off)))
        }
        #[allow(unreachable_patterns)]
        other => panic!("decode: unsupported type {other}"),
    }
}

fn dec_list(is_null: bool, value: impl FnOnce() -> ArrayRef) -> V {
    if is_null {
        V::Null
    } else {
        let v = value();
        V::List((0..v.len()).map(|j| decode(v.as_ref(), j)).collect())
    }
}

pub fn decode_all(arr: &dyn Array) -> Vec<V> {
    (0..arr.len()).map(|i| decode(arr, i)).collect()
}

/// Canonical-form comparison used by the encoder self-check: NaN payloads are
/// already canonical, `-0.0`/`+0.0` are kept distinct (the encoders never merge them).
pub fn self_check(t: &T, col: &[V], e: &Enc) -> Result<(), String> {
    if *e.arr.data_type() != t.data_type() {
        return Err(format!("encoder {} produced type {} instead of {}", e.name, e.arr.data_type(), t.data_type()));
    }
    if e.arr.len() != col.len() {
        return Err(format!("encoder {} produced length {} instead of {}", e.name, e.arr.len(), col.len()));
    }
    let back = decode_all(e.arr.as_ref());
    if back != col {
        return Err(format!("encoder {} decodes to {:?} instead of {:?}", e.name, back, col));
    }
    Ok(())
}

/// The full key-type menu of C12.
pub fn key_type_menu() -> Vec<T> {
    let b = |t: T| Box::new(t);
    let i32t = || T::Prim(P::I32);
    let mut m = vec![T::Null, T::Bool];
    m.extend(ALL_PRIMS.iter().map(|p| T::Prim(*p)));
    m.extend([T::Utf8, T::LargeUtf8, T::Utf8View, T::Binary, T::LargeBinary, T::BinaryView, T::Fsb(2)]);
    m.extend([
        T::Dict(K::I8, b(T::Utf8)),
        T::Dict(K::I32, b(T::Prim(P::I64))),
        T::Dict(K::U16, b(T::Utf8View)),
        T::Dict(K::U8, b(T::Prim(P::F64))),
        T::Dict(K::I64, b(T::Binary)),
        T::Dict(K::I16, b(T::Struct(vec![i32t(), T::Utf8]))),
        T::Dict(K::U32, b(T::List(b(i32t())))),
        T::Ree(R::I16, b(i32t())),
        T::Ree(R::I32, b(T::Utf8)),
        T::Ree(R::I64, b(T::Prim(P::F64))),
        T::Ree(R::I32, b(T::Utf8View)),
        T::Ree(R::I32, b(T::Struct(vec![i32t(), T::Utf8]))),
        T::Struct(vec![i32t(), T::Utf8]),
        T::Struct(vec![T::Prim(P::F64), T::List(b(i32t()))]),
        T::Struct(vec![T::Dict(K::I8, b(T::Utf8)), T::Utf8View]),
        T::Struct(vec![T::Struct(vec![i32t(), T::Bool]), T::Prim(P::F32)]),
        T::List(b(i32t())),
        T::List(b(T::Utf8View)),
        T::List(b(T::Prim(P::F64))),
        T::List(b(T::Struct(vec![i32t(), T::Utf8]))),
        T::List(b(T::Dict(K::I8, b(T::Utf8)))),
        T::List(b(T::List(b(i32t())))),
        T::LargeList(b(i32t())),
        T::LargeList(b(T::Utf8)),
        T::ListView(b(i32t())),
        T::ListView(b(T::Utf8)),
        T::LargeListView(b(i32t())),
        T::Fsl(b(i32t()), 2),
        T::Fsl(b(T::Utf8), 2),
        T::Fsl(b(T::Prim(P::F64)), 1),
        T::Map(b(T::Utf8), b(i32t())),
        T::Map(b(i32t()), b(T::Utf8View)),
        T::Union(vec![i32t(), T::Utf8], false),
        T::Union(vec![i32t(), T::Utf8, T::Bool], false),
        T::Union(vec![i32t(), T::Utf8], true),
        T::Union(vec![T::Prim(P::F64), T::Utf8View, T::Bool], true),
        T::Union(vec![T::Struct(vec![i32t(), T::Utf8]), T::List(b(i32t())), T::Bool], false),
    ]);
    m
}

/// Types whose NULLs can be physically expressed in two different places of a
/// nested *non-nullable-looking* container (dictionary inside run-end / dictionary).
pub fn exotic_menu() -> Vec<T> {
    let b = |t: T| Box::new(t);
    vec![
        T::Ree(R::I32, b(T::Dict(K::I8, b(T::Utf8)))),
        T::Dict(K::I8, b(T::Dict(K::I8, b(T::Utf8)))),
        T::Dict(K::I8, b(T::Ree(R::I32, b(T::Utf8)))),
    ]
}

/// One representative per hash kernel family (used for the deeper multi-column tiers).
pub fn representative_menu() -> Vec<T> {
    let b = |t: T| Box::new(t);
    let i32t = || T::Prim(P::I32);
    vec![
        T::Null,
        T::Bool,
        i32t(),
        T::Prim(P::F64),
        T::Utf8,
        T::Utf8View,
        T::Dict(K::I8, b(T::Utf8)),
        T::Ree(R::I32, b(T::Utf8)),
        T::Struct(vec![i32t(), T::Utf8]),
        T::List(b(i32t())),
        T::ListView(b(i32t())),
        T::Fsl(b(i32t()), 2),
        T::Map(b(T::Utf8), b(i32t())),
        T::Union(vec![i32t(), T::Utf8, T::Bool], false),
        T::Union(vec![i32t(), T::Utf8], true),
    ]
}
