//! mc-core: shared plumbing for every bounded-exhaustive check.
//!
//! A check binary calls [`run_check`] with an `explore` closure (enumerates the
//! bounded space, calls back into [`Ctx`] to count and to report violations)
//! and a `replay` closure (re-executes exactly one recorded case without the
//! explorer).  `run_check` handles argument parsing (`--tier`, `--replay`,
//! `--part`), wall caps, the determinism guard, replay artefacts, known
//! findings, the evidence file and the exit code:
//!
//! * exit 0 — property held on everything explored (known findings are
//!   printed as `KNOWN-FINDING:` lines),
//! * exit 1 — at least one unlisted violation (`VIOLATION property=… replay=…`),
//! * exit 2 — machinery error (non-deterministic replay, vacuous exploration,
//!   I/O problem): never a verdict.

use serde_json::{Map, Value, json};
use std::collections::{BTreeMap, HashSet};
use std::hash::{Hash, Hasher};
use std::path::{Path, PathBuf};
use std::sync::Mutex;
use std::sync::atomic::{AtomicBool, AtomicU64, Ordering};
use std::time::{Duration, Instant};

pub use rayon;
pub use serde_json;

pub mod enumerate;
pub mod explore;

#[derive(Clone, Copy, Debug, PartialEq, Eq)]
pub enum Tier {
    Quick,
    Thorough,
}

#[derive(Clone, Copy, Debug, PartialEq, Eq)]
pub enum Level {
    Exploration,
    FaultEnumeration,
    ModelChecking,
}

impl Level {
    fn as_str(&self) -> &'static str {
        match self {
            Level::Exploration => "exploration",
            Level::FaultEnumeration => "fault_enumeration",
            Level::ModelChecking => "model_checking",
        }
    }
}

#[derive(Clone, Debug)]
pub struct Violation {
    pub key: String,
    pub what: String,
    pub case: Value,
}

/// Root of the verification tree (`/verif`), overridable with `VERIF_ROOT`.
pub fn verif_root() -> PathBuf {
    if let Ok(r) = std::env::var("VERIF_ROOT") {
        return PathBuf::from(r);
    }
    // crates/mc-core -> /verif
    Path::new(env!("CARGO_MANIFEST_DIR"))
        .parent()
        .and_then(|p| p.parent())
        .map(|p| p.to_path_buf())
        .unwrap_or_else(|| PathBuf::from("/verif"))
}

pub fn stable_hash<T: Hash + ?Sized>(t: &T) -> u64 {
    // FNV-1a based hasher so that hashes are stable across processes.
    struct Fnv(u64);
    impl Hasher for Fnv {
        fn finish(&self) -> u64 {
            self.0
        }
        fn write(&mut self, bytes: &[u8]) {
            for b in bytes {
                self.0 ^= *b as u64;
                self.0 = self.0.wrapping_mul(0x100000001b3);
            }
        }
    }
    let mut h = Fnv(0xcbf29ce484222325);
    t.hash(&mut h);
    h.finish()
}

pub struct Ctx {
    pub property: String,
    pub part: Option<String>,
    pub tier: Tier,
    pub seed: u64,
    pub level: Level,
    start: Instant,
    wall_cap: Duration,
    evaluations: AtomicU64,
    states: AtomicU64,
    transitions: AtomicU64,
    distinct: Mutex<HashSet<u64>>,
    samples: Mutex<Vec<Value>>,
    max_samples: usize,
    violations: Mutex<Vec<Violation>>,
    violation_keys: Mutex<HashSet<String>>,
    extra: Mutex<BTreeMap<String, Value>>,
    counters: Mutex<BTreeMap<String, u64>>,
    assumptions: Mutex<Vec<String>>,
    capped: AtomicBool,
    machinery_error: Mutex<Option<String>>,
}

impl Ctx {
    fn new(property: &str, part: Option<String>, tier: Tier, seed: u64, level: Level) -> Self {
        let default_cap = match tier {
            Tier::Quick => 55,
            Tier::Thorough => 45 * 60,
        };
        let cap = std::env::var("VERIF_WALL_CAP_S")
            .ok()
            .and_then(|s| s.parse::<u64>().ok())
            .unwrap_or(default_cap);
        Ctx {
            property: property.to_string(),
            part,
            tier,
            seed,
            level,
            start: Instant::now(),
            wall_cap: Duration::from_secs(cap),
            evaluations: AtomicU64::new(0),
            states: AtomicU64::new(0),
            transitions: AtomicU64::new(0),
            distinct: Mutex::new(HashSet::new()),
            samples: Mutex::new(Vec::new()),
            max_samples: 6,
            violations: Mutex::new(Vec::new()),
            violation_keys: Mutex::new(HashSet::new()),
            extra: Mutex::new(BTreeMap::new()),
            counters: Mutex::new(BTreeMap::new()),
            assumptions: Mutex::new(Vec::new()),
            capped: AtomicBool::new(false),
            machinery_error: Mutex::new(None),
        }
    }

    pub fn quick(&self) -> bool {
        self.tier == Tier::Quick
    }
    pub fn thorough(&self) -> bool {
        self.tier == Tier::Thorough
    }
    /// `q` in quick tier, `t` in thorough tier.
    pub fn pick<T>(&self, q: T, t: T) -> T {
        if self.quick() { q } else { t }
    }
    pub fn elapsed(&self) -> Duration {
        self.start.elapsed()
    }

    /// One more case executed against the implementation.
    pub fn eval(&self) {
        self.evaluations.fetch_add(1, Ordering::Relaxed);
    }
    pub fn evals(&self, n: u64) {
        self.evaluations.fetch_add(n, Ordering::Relaxed);
    }
    pub fn evaluations(&self) -> u64 {
        self.evaluations.load(Ordering::Relaxed)
    }
    /// Register a *non-trivial* case by a key that identifies it; the number of
    /// distinct keys is reported as `distinct_nontrivial`.
    pub fn nontrivial<H: Hash + ?Sized>(&self, key: &H) {
        let h = stable_hash(key);
        self.distinct.lock().unwrap().insert(h);
    }
    pub fn nontrivial_count(&self) -> u64 {
        self.distinct.lock().unwrap().len() as u64
    }
    pub fn state(&self) {
        self.states.fetch_add(1, Ordering::Relaxed);
    }
    pub fn add_states(&self, n: u64) {
        self.states.fetch_add(n, Ordering::Relaxed);
    }
    pub fn transition(&self) {
        self.transitions.fetch_add(1, Ordering::Relaxed);
    }
    pub fn add_transitions(&self, n: u64) {
        self.transitions.fetch_add(n, Ordering::Relaxed);
    }
    /// Keep the case as one of the written-out samples (first few only).
    pub fn sample(&self, v: Value) {
        let mut s = self.samples.lock().unwrap();
        if s.len() < self.max_samples {
            s.push(v);
        }
    }
    pub fn want_sample(&self) -> bool {
        self.samples.lock().unwrap().len() < self.max_samples
    }
    /// Named counter reported under `coverage.counters`.
    pub fn count(&self, name: &str, n: u64) {
        *self.counters.lock().unwrap().entry(name.to_string()).or_insert(0) += n;
    }
    pub fn set_extra(&self, key: &str, v: Value) {
        self.extra.lock().unwrap().insert(key.to_string(), v);
    }
    pub fn assume(&self, s: &str) {
        let mut a = self.assumptions.lock().unwrap();
        if !a.iter().any(|x| x == s) {
            a.push(s.to_string());
        }
    }
    /// Report a violation.  `key` identifies the failing case (used for
    /// known-finding matching and de-duplication), `case` is what `replay`
    /// needs to re-execute it.
    pub fn violation(&self, key: impl Into<String>, what: impl Into<String>, case: Value) {
        let key = key.into();
        let mut keys = self.violation_keys.lock().unwrap();
        if !keys.insert(key.clone()) {
            return;
        }
        let mut v = self.violations.lock().unwrap();
        if v.len() < 50 {
            v.push(Violation { key, what: what.into(), case });
        }
    }
    pub fn violation_count(&self) -> usize {
        self.violation_keys.lock().unwrap().len()
    }
    /// True once enough violations were collected that exploring further is pointless.
    pub fn should_stop(&self) -> bool {
        self.violation_count() >= 25 || self.out_of_time()
    }
    /// True when the wall cap was hit; records that the run is *not* exhaustive.
    pub fn out_of_time(&self) -> bool {
        if self.capped.load(Ordering::Relaxed) {
            return true;
        }
        if self.start.elapsed() > self.wall_cap {
            self.capped.store(true, Ordering::Relaxed);
            return true;
        }
        false
    }
    /// Mark the run as capped (not exhaustive) for another reason.
    pub fn mark_capped(&self, why: &str) {
        self.capped.store(true, Ordering::Relaxed);
        self.set_extra("cap_reason", json!(why));
    }
    pub fn machinery_error(&self, msg: impl Into<String>) {
        *self.machinery_error.lock().unwrap() = Some(msg.into());
    }
}

/// Run `f`, turning a panic into `Err(message)`.
pub fn catch<T>(f: impl FnOnce() -> T) -> Result<T, String> {
    match std::panic::catch_unwind(std::panic::AssertUnwindSafe(f)) {
        Ok(v) => Ok(v),
        Err(e) => {
            let msg = if let Some(s) = e.downcast_ref::<&str>() {
                s.to_string()
            } else if let Some(s) = e.downcast_ref::<String>() {
                s.clone()
            } else {
                "panic (non-string payload)".to_string()
            };
            Err(format!("panic: {msg}"))
        }
    }
}

/// Install a panic hook that prints nothing (checks catch panics themselves).
pub fn quiet_panics() {
    std::panic::set_hook(Box::new(|_| {}));
}

struct Args {
    tier: Tier,
    replay: Option<PathBuf>,
    part: Option<String>,
    rest: Vec<String>,
}

fn parse_args() -> Args {
    let mut tier = match std::env::var("VERIF_TIER").as_deref() {
        Ok("thorough") => Tier::Thorough,
        _ => Tier::Quick,
    };
    let mut replay = None;
    let mut part = None;
    let mut rest = vec![];
    let mut it = std::env::args().skip(1);
    while let Some(a) = it.next() {
        match a.as_str() {
            "--tier" => {
                tier = match it.next().as_deref() {
                    Some("thorough") => Tier::Thorough,
                    _ => Tier::Quick,
                }
            }
            "--replay" => replay = it.next().map(PathBuf::from),
            "--part" => part = it.next(),
            _ => rest.push(a),
        }
    }
    Args { tier, replay, part, rest }
}

/// Extra (non-framework) command line arguments of this process.
pub fn extra_args() -> Vec<String> {
    parse_args().rest
}

#[derive(Default)]
struct KnownFindings {
    known: Vec<(String, String, String)>, // property, key, what
}

fn load_known() -> KnownFindings {
    let p = verif_root().join("known_findings.json");
    let mut k = KnownFindings::default();
    if let Ok(s) = std::fs::read_to_string(&p) {
        if let Ok(v) = serde_json::from_str::<Value>(&s) {
            if let Some(arr) = v.get("known").and_then(|x| x.as_array()) {
                for e in arr {
                    let prop = e.get("property").and_then(|x| x.as_str()).unwrap_or("");
                    let key = e.get("key").and_then(|x| x.as_str()).unwrap_or("");
                    let what = e.get("what").and_then(|x| x.as_str()).unwrap_or("");
                    k.known.push((prop.to_string(), key.to_string(), what.to_string()));
                }
            }
        }
    }
    k
}

/// Entry point of every check binary.
///
/// * `rule` — text for `coverage.rule`: how cases are enumerated and what makes
///   one non-trivial.
/// * `explore(ctx)` — enumerate the bounded space.
/// * `replay(case)` — re-execute one recorded case; `Err(what)` iff it violates.
pub fn run_check(
    property: &str,
    level: Level,
    rule: &str,
    explore: impl FnOnce(&Ctx),
    replay: impl Fn(&Value) -> Result<(), String>,
) -> ! {
    let args = parse_args();
    let seed = std::env::var("VERIF_SEED").ok().and_then(|s| s.parse::<u64>().ok()).unwrap_or(0);
    let root = verif_root();

    if let Some(path) = args.replay {
        let text = std::fs::read_to_string(&path).unwrap_or_else(|e| {
            eprintln!("cannot read replay file {}: {e}", path.display());
            std::process::exit(2)
        });
        let v: Value = serde_json::from_str(&text).unwrap_or_else(|e| {
            eprintln!("replay file is not JSON: {e}");
            std::process::exit(2)
        });
        let case = v.get("case").cloned().unwrap_or(v.clone());
        let r1 = catch(|| replay(&case)).unwrap_or_else(Err);
        let r2 = catch(|| replay(&case)).unwrap_or_else(Err);
        if r1.is_ok() != r2.is_ok() {
            eprintln!("MACHINERY-ERROR: replay is not deterministic: {r1:?} vs {r2:?}");
            std::process::exit(2);
        }
        match r1 {
            Ok(()) => {
                println!("replay: property {property} holds on this case");
                std::process::exit(0)
            }
            Err(what) => {
                println!("replay: {what}");
                println!("VIOLATION property={property} replay={}", path.display());
                std::process::exit(1)
            }
        }
    }

    let ctx = Ctx::new(property, args.part.clone(), args.tier, seed, level);
    let res = catch(|| explore(&ctx));
    if let Err(e) = res {
        eprintln!("MACHINERY-ERROR: explorer panicked outside a case: {e}");
        std::process::exit(2);
    }
    if let Some(e) = ctx.machinery_error.lock().unwrap().clone() {
        eprintln!("MACHINERY-ERROR: {e}");
        std::process::exit(2);
    }

    // --- violations: determinism guard, replay artefacts, known findings
    let known = load_known();
    let violations = ctx.violations.lock().unwrap().clone();
    let mut unlisted = 0usize;
    let mut known_hits = 0usize;
    let mut lines = vec![];
    for v in &violations {
        let r1 = catch(|| replay(&v.case)).unwrap_or_else(Err);
        let r2 = catch(|| replay(&v.case)).unwrap_or_else(Err);
        if r1.is_ok() || r2.is_ok() {
            eprintln!(
                "MACHINERY-ERROR: violation '{}' ({}) did not reproduce on replay ({:?}/{:?}); harness is not deterministic",
                v.key, v.what, r1.is_ok(), r2.is_ok()
            );
            std::process::exit(2);
        }
        let dir = root.join("replays").join(property);
        let _ = std::fs::create_dir_all(&dir);
        let file = dir.join(format!("{:016x}.json", stable_hash(&v.key)));
        let body = json!({"property": property, "part": args.part, "key": v.key, "what": v.what, "case": v.case});
        let _ = std::fs::write(&file, serde_json::to_string_pretty(&body).unwrap());
        if let Some((_, _, what)) = known.known.iter().find(|(p, k, _)| p == property && *k == v.key) {
            known_hits += 1;
            lines.push(format!("KNOWN-FINDING: property={property} {what} [key={}]", v.key));
        } else {
            unlisted += 1;
            eprintln!("violation: key={} :: {}", v.key, v.what);
            lines.push(format!("VIOLATION property={property} replay={}", file.display()));
        }
    }

    // --- evidence
    let evaluations = ctx.evaluations.load(Ordering::Relaxed);
    let distinct = ctx.distinct.lock().unwrap().len() as u64;
    let states = ctx.states.load(Ordering::Relaxed);
    let transitions = ctx.transitions.load(Ordering::Relaxed);
    let samples = ctx.samples.lock().unwrap().clone();
    let exhaustive = !ctx.capped.load(Ordering::Relaxed);
    let mut cov = Map::new();
    cov.insert("evaluations".into(), json!(evaluations));
    cov.insert("distinct_nontrivial".into(), json!(distinct));
    cov.insert("rule".into(), json!(rule));
    cov.insert("samples".into(), Value::Array(samples.clone()));
    cov.insert("exhaustive".into(), json!(exhaustive));
    if level == Level::ModelChecking {
        cov.insert("states".into(), json!(states));
        cov.insert("transitions".into(), json!(transitions));
        cov.insert("traces_validated_against_impl".into(), json!(transitions));
    }
    let counters = ctx.counters.lock().unwrap().clone();
    if !counters.is_empty() {
        cov.insert("counters".into(), json!(counters));
    }
    for (k, v) in ctx.extra.lock().unwrap().iter() {
        cov.insert(k.clone(), v.clone());
    }
    let wall = ctx.start.elapsed().as_secs_f64();
    let ev = json!({
        "property_id": property,
        "tier": if args.tier == Tier::Quick { "quick" } else { "thorough" },
        "seed": seed,
        "level": level.as_str(),
        "coverage": Value::Object(cov),
        "assumptions": ctx.assumptions.lock().unwrap().clone(),
        "wall_s": wall,
        "violations": violations.len(),
        "known_findings_matched": known_hits,
    });
    let evpath = match &args.part {
        Some(p) => {
            let d = root.join("evidence").join(".parts");
            let _ = std::fs::create_dir_all(&d);
            d.join(format!("{property}.{p}.json"))
        }
        None => {
            let d = root.join("evidence");
            let _ = std::fs::create_dir_all(&d);
            d.join(format!("{property}.json"))
        }
    };
    if let Err(e) = std::fs::write(&evpath, serde_json::to_string_pretty(&ev).unwrap()) {
        eprintln!("MACHINERY-ERROR: cannot write evidence {}: {e}", evpath.display());
        std::process::exit(2);
    }

    // --- vacuity guard
    let vacuous = evaluations == 0 || samples.is_empty() || distinct < 2;
    println!(
        "{property}{}: tier={:?} evaluations={evaluations} distinct_nontrivial={distinct} states={states} transitions={transitions} exhaustive={exhaustive} violations={} known={known_hits} wall={wall:.1}s",
        args.part.as_ref().map(|p| format!("[{p}]")).unwrap_or_default(),
        args.tier,
        violations.len()
    );
    for l in &lines {
        println!("{l}");
    }
    if unlisted > 0 {
        std::process::exit(1);
    }
    if vacuous {
        eprintln!("MACHINERY-ERROR: vacuous exploration (evaluations={evaluations}, distinct_nontrivial={distinct}, samples={})", samples.len());
        std::process::exit(2);
    }
    std::process::exit(0);
}
