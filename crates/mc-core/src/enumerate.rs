//! Small exhaustive enumerators (all simplest-first).

/// All sequences over `alphabet` with length in `min_len..=max_len`, shortest first.
pub fn sequences<T: Clone>(alphabet: &[T], min_len: usize, max_len: usize) -> Vec<Vec<T>> {
    let mut out = vec![];
    let mut layer: Vec<Vec<T>> = vec![vec![]];
    for len in 0..=max_len {
        if len >= min_len {
            out.extend(layer.iter().cloned());
        }
        if len == max_len {
            break;
        }
        let mut next = Vec::with_capacity(layer.len() * alphabet.len());
        for s in &layer {
            for a in alphabet {
                let mut t = s.clone();
                t.push(a.clone());
                next.push(t);
            }
        }
        layer = next;
    }
    out
}

/// All multisets (as non-decreasing index sequences mapped to items) of size `min..=max`.
pub fn multisets<T: Clone>(alphabet: &[T], min_len: usize, max_len: usize) -> Vec<Vec<T>> {
    fn rec<T: Clone>(alphabet: &[T], start: usize, left: usize, cur: &mut Vec<T>, out: &mut Vec<Vec<T>>) {
        if left == 0 {
            out.push(cur.clone());
            return;
        }
        for i in start..alphabet.len() {
            cur.push(alphabet[i].clone());
            rec(alphabet, i, left - 1, cur, out);
            cur.pop();
        }
    }
    let mut out = vec![];
    for n in min_len..=max_len {
        rec(alphabet, 0, n, &mut vec![], &mut out);
    }
    out
}

/// All ways to cut `0..n` into at most `max_parts` consecutive non-empty ranges
/// (returned as lists of part lengths).  `n == 0` yields one empty composition.
pub fn splits(n: usize, max_parts: usize) -> Vec<Vec<usize>> {
    fn rec(left: usize, parts_left: usize, cur: &mut Vec<usize>, out: &mut Vec<Vec<usize>>) {
        if left == 0 {
            out.push(cur.clone());
            return;
        }
        if parts_left == 0 {
            return;
        }
        for k in (1..=left).rev() {
            cur.push(k);
            rec(left - k, parts_left - 1, cur, out);
            cur.pop();
        }
    }
    let mut out = vec![];
    if n == 0 {
        return vec![vec![]];
    }
    rec(n, max_parts, &mut vec![], &mut out);
    out
}

/// Cut `items` according to a composition produced by [`splits`].
pub fn apply_split<T: Clone>(items: &[T], parts: &[usize]) -> Vec<Vec<T>> {
    let mut out = vec![];
    let mut i = 0;
    for &p in parts {
        out.push(items[i..i + p].to_vec());
        i += p;
    }
    out
}

/// All assignments of `n` items to at most `k` labelled bins, up to renaming of
/// bins (restricted-growth strings): element 0 is in bin 0, element i is in a
/// bin ≤ 1 + max(previous).
pub fn partitions_up_to_renaming(n: usize, k: usize) -> Vec<Vec<usize>> {
    fn rec(n: usize, k: usize, cur: &mut Vec<usize>, maxb: usize, out: &mut Vec<Vec<usize>>) {
        if cur.len() == n {
            out.push(cur.clone());
            return;
        }
        let hi = if cur.is_empty() { 0 } else { (maxb + 1).min(k - 1) };
        for b in 0..=hi {
            cur.push(b);
            rec(n, k, cur, maxb.max(b), out);
            cur.pop();
        }
    }
    let mut out = vec![];
    if k == 0 {
        return out;
    }
    rec(n, k, &mut vec![], 0, &mut out);
    out
}

/// All boolean masks of length `n` (as Vec<bool>), 2^n of them.
pub fn masks(n: usize) -> Vec<Vec<bool>> {
    (0..(1usize << n)).map(|m| (0..n).map(|i| (m >> i) & 1 == 1).collect()).collect()
}

/// Cartesian product of index ranges: calls `f` with every index vector.
pub fn product(dims: &[usize], mut f: impl FnMut(&[usize])) {
    if dims.iter().any(|&d| d == 0) {
        return;
    }
    let mut idx = vec![0usize; dims.len()];
    loop {
        f(&idx);
        let mut i = dims.len();
        loop {
            if i == 0 {
                return;
            }
            i -= 1;
            idx[i] += 1;
            if idx[i] < dims[i] {
                break;
            }
            idx[i] = 0;
        }
    }
}

/// All subsets of size ≤ `max` of `0..n` (as sorted index vectors), smallest first.
pub fn subsets_up_to(n: usize, max: usize) -> Vec<Vec<usize>> {
    fn rec(n: usize, start: usize, left: usize, cur: &mut Vec<usize>, out: &mut Vec<Vec<usize>>) {
        if left == 0 {
            out.push(cur.clone());
            return;
        }
        for i in start..n {
            cur.push(i);
            rec(n, i + 1, left - 1, cur, out);
            cur.pop();
        }
    }
    let mut out = vec![];
    for k in 0..=max.min(n) {
        rec(n, 0, k, &mut vec![], &mut out);
    }
    out
}

#[cfg(test)]
mod tests {
    use super::*;
    #[test]
    fn counts() {
        assert_eq!(sequences(&[0, 1, 2], 0, 2).len(), 1 + 3 + 9);
        assert_eq!(multisets(&[0, 1, 2], 2, 2).len(), 6);
        assert_eq!(splits(3, 3).len(), 4);
        assert_eq!(splits(3, 2).len(), 3);
        assert_eq!(partitions_up_to_renaming(3, 2).len(), 4);
        assert_eq!(masks(3).len(), 8);
        let mut n = 0;
        product(&[2, 3], |_| n += 1);
        assert_eq!(n, 6);
        assert_eq!(subsets_up_to(3, 2).len(), 1 + 3 + 3);
    }
}
