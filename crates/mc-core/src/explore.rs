//! Generic explorers over the *real implementation*.
//!
//! [`bfs_histories`] — explicit-state breadth-first search where a state is the
//! operation history reaching it (live objects rarely clone): each step rebuilds
//! a fresh subject, replays the history, applies one more operation, checks the
//! oracle and de-duplicates by a canonical key supplied by the harness.
//!
//! [`dfs_deviations`] — deviation-bounded stateless exploration: an execution is
//! a list of choices; choice 0 is the default at every point; each non-default
//! choice costs one deviation.

use std::collections::HashSet;

pub struct BfsStats {
    pub states: u64,
    pub transitions: u64,
    pub max_depth: usize,
    pub complete: bool,
}

/// Result of applying a history to a fresh subject.
pub enum Step<K> {
    /// Oracle satisfied; canonical key of the reached state.
    Ok(K),
    /// Operation not enabled in this state (history is not extended).
    Disabled,
    /// Oracle violated.
    Violation(String),
}

/// Breadth-first search over operation histories.
///
/// `run(history)` must build a *fresh* subject + reference model, replay
/// `history` checking the oracle after every step, and return the canonical key
/// of the final state.  `ops` is the alphabet.  `stop()` is polled to honour
/// wall caps.  `on_violation(history, what)` is called for every violating
/// history (which is not extended further).
pub fn bfs_histories<Op: Clone, K: std::hash::Hash + Eq>(
    ops: &[Op],
    max_depth: usize,
    mut run: impl FnMut(&[Op]) -> Step<K>,
    mut stop: impl FnMut() -> bool,
    mut on_violation: impl FnMut(&[Op], String),
) -> BfsStats {
    let mut seen: HashSet<K> = HashSet::new();
    let mut frontier: Vec<Vec<Op>> = vec![vec![]];
    let mut stats = BfsStats { states: 0, transitions: 0, max_depth: 0, complete: true };
    match run(&[]) {
        Step::Ok(k) => {
            seen.insert(k);
            stats.states = 1;
        }
        Step::Disabled => return stats,
        Step::Violation(w) => {
            on_violation(&[], w);
            return stats;
        }
    }
    for depth in 1..=max_depth {
        let mut next = vec![];
        for hist in &frontier {
            for op in ops {
                if stop() {
                    stats.complete = false;
                    return stats;
                }
                let mut h = hist.clone();
                h.push(op.clone());
                match run(&h) {
                    Step::Ok(k) => {
                        stats.transitions += 1;
                        if seen.insert(k) {
                            stats.states += 1;
                            next.push(h);
                        }
                    }
                    Step::Disabled => {}
                    Step::Violation(w) => {
                        stats.transitions += 1;
                        on_violation(&h, w);
                    }
                }
            }
        }
        if !next.is_empty() {
            stats.max_depth = depth;
        }
        frontier = next;
        if frontier.is_empty() {
            break;
        }
    }
    stats
}

/// One executed run for [`dfs_deviations`]: the choice taken and the number of
/// alternatives that were enabled at each choice point.
pub struct Trace {
    pub choices: Vec<usize>,
    pub enabled: Vec<usize>,
}

pub struct DfsStats {
    pub executions: u64,
    pub complete: bool,
    /// runs whose trace did not reproduce their prefix (a source of nondeterminism the harness
    /// does not own); their subtrees are not explored and the run must not be called exhaustive
    pub diverged: u64,
}

/// Deviation-bounded exploration.  `run(prefix)` must replay `prefix` (a list of
/// choice indices; an out-of-range index must be reported by panicking), take
/// choice 0 at every later point, check the oracle, and return the trace.
pub fn dfs_deviations(
    bound: usize,
    mut run: impl FnMut(&[usize]) -> Trace,
    mut stop: impl FnMut() -> bool,
) -> DfsStats {
    let mut stats = DfsStats { executions: 0, complete: true, diverged: 0 };
    // stack of (prefix, deviations used in prefix)
    let mut stack: Vec<(Vec<usize>, usize)> = vec![(vec![], 0)];
    while let Some((prefix, used)) = stack.pop() {
        if stop() {
            stats.complete = false;
            return stats;
        }
        let t = run(&prefix);
        stats.executions += 1;
        if t.choices.len() < prefix.len() || t.choices[..prefix.len()] != prefix[..] {
            stats.diverged += 1;
            continue;
        }
        if used >= bound {
            continue;
        }
        for i in (prefix.len()..t.choices.len()).rev() {
            for alt in (1..t.enabled[i]).rev() {
                let mut p = t.choices[..i].to_vec();
                p.push(alt);
                stack.push((p, used + 1));
            }
        }
    }
    stats
}
