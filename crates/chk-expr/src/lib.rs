//! shared helpers for the chk-expr checks
//!
//! * [`refexpr`] — the check's own expression AST, plain-Rust values and an
//!   INDEPENDENT row-at-a-time reference evaluator (SQL three-valued logic);
//!   imports nothing from arrow / DataFusion.
//! * [`exprgen`] — exhaustive, typed expression-tree generator (DESIGN §4.2 C04).
//! * [`table`] — the exhaustive row table (all rows over the referenced
//!   columns' small domains) as plain rows and as an arrow `RecordBatch`.
//! * [`dfx`] — translation of the AST into DataFusion `Expr`s, the real type
//!   coercion, physical planning and evaluation with results read back into
//!   plain values.
//! * [`guar`] — column guarantees (`NullableInterval`) with their own,
//!   independent satisfaction test.
pub mod dfx;
pub mod exprgen;
pub mod guar;
pub mod refexpr;
pub mod table;
