//! shared helpers for the chk-expr checks
