//! Bridge between the check's own AST (`refexpr::E`) and DataFusion:
//! translation to `Expr`, the real type coercion, physical planning, and
//! evaluation (whole batch / row at a time) with results read back into plain
//! `V` values.
use crate::refexpr::{Fun, IsK, Lit, Op, Ty, E, V};
use crate::table::{arrow_type, schema, Table};
use arrow::array::{Array, ArrayRef, AsArray};
use arrow::datatypes::{DataType, Date32Type, Float32Type, Float64Type, Int16Type, Int32Type, Int64Type, Int8Type, SchemaRef, UInt16Type, UInt32Type, UInt64Type, UInt8Type};
use arrow::record_batch::RecordBatch;
use datafusion_common::{DFSchema, DFSchemaRef, ScalarValue};
use datafusion_expr::execution_props::ExecutionProps;
use datafusion_expr::expr::{Between, BinaryExpr, Case, Cast, InList, Like, TryCast};
use datafusion_expr::physical_planning_context::PhysicalPlanningContext;
use datafusion_expr::simplify::SimplifyContext;
use datafusion_expr::{Expr, Operator};
use datafusion_optimizer::simplify_expressions::ExprSimplifier;
use datafusion_physical_expr::{create_physical_expr, PhysicalExpr};
use std::sync::{Arc, OnceLock};

pub fn df_schema() -> DFSchemaRef {
    static S: OnceLock<DFSchemaRef> = OnceLock::new();
    S.get_or_init(|| Arc::new(DFSchema::try_from(schema().as_ref().clone()).expect("dfschema"))).clone()
}

pub fn arrow_schema() -> SchemaRef {
    schema()
}

pub fn op_df(op: Op) -> Operator {
    match op {
        Op::Eq => Operator::Eq,
        Op::Ne => Operator::NotEq,
        Op::Lt => Operator::Lt,
        Op::Le => Operator::LtEq,
        Op::Gt => Operator::Gt,
        Op::Ge => Operator::GtEq,
        Op::Add => Operator::Plus,
        Op::Sub => Operator::Minus,
        Op::Mul => Operator::Multiply,
        Op::Div => Operator::Divide,
        Op::Mod => Operator::Modulo,
        Op::And => Operator::And,
        Op::Or => Operator::Or,
        Op::Distinct => Operator::IsDistinctFrom,
        Op::NotDistinct => Operator::IsNotDistinctFrom,
        Op::BitAnd => Operator::BitwiseAnd,
        Op::BitOr => Operator::BitwiseOr,
        Op::BitXor => Operator::BitwiseXor,
        Op::Shl => Operator::BitwiseShiftLeft,
        Op::Shr => Operator::BitwiseShiftRight,
        Op::Re => Operator::RegexMatch,
        Op::ReI => Operator::RegexIMatch,
        Op::NotRe => Operator::RegexNotMatch,
        Op::NotReI => Operator::RegexNotIMatch,
    }
}

pub fn lit_df(l: &Lit) -> ScalarValue {
    match l {
        Lit::Null(t) => ScalarValue::try_from(&arrow_type(*t)).expect("typed null"),
        Lit::NullU => ScalarValue::Null,
        Lit::I32(v) => ScalarValue::Int32(Some(*v)),
        Lit::I64(v) => ScalarValue::Int64(Some(*v)),
        Lit::F64(v) => ScalarValue::Float64(Some(v.0)),
        Lit::Str(s) => ScalarValue::Utf8(Some(s.clone())),
        Lit::Bool(b) => ScalarValue::Boolean(Some(*b)),
        Lit::Date(d) => ScalarValue::Date32(Some(*d)),
    }
}

/// Translate the check's AST into a DataFusion logical expression (no coercion).
pub fn to_df(e: &E) -> Expr {
    let bx = |e: &E| Box::new(to_df(e));
    match e {
        E::Col(n) => datafusion_expr::col(n.as_str()),
        E::Lit(l) => Expr::Literal(lit_df(l), None),
        E::Bin(l, op, r) => Expr::BinaryExpr(BinaryExpr::new(bx(l), op_df(*op), bx(r))),
        E::Not(x) => Expr::Not(bx(x)),
        E::Neg(x) => Expr::Negative(bx(x)),
        E::Is(x, k) => match k {
            IsK::Null => Expr::IsNull(bx(x)),
            IsK::NotNull => Expr::IsNotNull(bx(x)),
            IsK::True => Expr::IsTrue(bx(x)),
            IsK::NotTrue => Expr::IsNotTrue(bx(x)),
            IsK::False => Expr::IsFalse(bx(x)),
            IsK::NotFalse => Expr::IsNotFalse(bx(x)),
            IsK::Unknown => Expr::IsUnknown(bx(x)),
            IsK::NotUnknown => Expr::IsNotUnknown(bx(x)),
        },
        E::In { e, list, neg } => Expr::InList(InList::new(bx(e), list.iter().map(to_df).collect(), *neg)),
        E::Between { e, lo, hi, neg } => Expr::Between(Between::new(bx(e), *neg, bx(lo), bx(hi))),
        E::Case { operand, whens, els } => Expr::Case(Case::new(
            operand.as_ref().map(|o| bx(o)),
            whens.iter().map(|(w, t)| (bx(w), bx(t))).collect(),
            els.as_ref().map(|o| bx(o)),
        )),
        E::Cast { e, to, try_ } => {
            if *try_ {
                Expr::TryCast(TryCast::new(bx(e), arrow_type(*to)))
            } else {
                Expr::Cast(Cast::new(bx(e), arrow_type(*to)))
            }
        }
        E::Like { e, pat, neg, ci } => Expr::Like(Like::new(*neg, bx(e), bx(pat), None, *ci)),
        E::Fun(f, args) => {
            let a: Vec<Expr> = args.iter().map(to_df).collect();
            match f {
                Fun::Coalesce => datafusion_functions::core::coalesce().call(a),
                Fun::NullIf => datafusion_functions::core::nullif().call(a),
                Fun::Abs => datafusion_functions::math::abs().call(a),
                Fun::Upper => datafusion_functions::string::upper().call(a),
                Fun::Lower => datafusion_functions::string::lower().call(a),
                Fun::Concat => datafusion_functions::string::concat().call(a),
                Fun::StartsWith => datafusion_functions::string::starts_with().call(a),
                Fun::Year => {
                    let mut v = vec![Expr::Literal(ScalarValue::Utf8(Some("year".into())), None)];
                    v.extend(a);
                    datafusion_functions::datetime::date_part().call(v)
                }
            }
        }
    }
}

pub fn simplify_context() -> SimplifyContext {
    SimplifyContext::builder().with_schema(df_schema()).build()
}

/// The real type coercion (the analyzer's `TypeCoercionRewriter`).
pub fn coerce(e: Expr) -> datafusion_common::Result<Expr> {
    ExprSimplifier::new(simplify_context()).coerce(e, df_schema().as_ref())
}

/// Type coercion against another schema (encoding variants of the columns).
pub fn coerce_with(e: Expr, sch: &DFSchemaRef) -> datafusion_common::Result<Expr> {
    ExprSimplifier::new(SimplifyContext::builder().with_schema(sch.clone()).build()).coerce(e, sch.as_ref())
}

pub fn plan(e: &Expr) -> datafusion_common::Result<Arc<dyn PhysicalExpr>> {
    create_physical_expr(e, df_schema().as_ref(), &ExecutionProps::new(), &PhysicalPlanningContext::default())
}

pub fn plan_with(e: &Expr, sch: &DFSchema) -> datafusion_common::Result<Arc<dyn PhysicalExpr>> {
    create_physical_expr(e, sch, &ExecutionProps::new(), &PhysicalPlanningContext::default())
}

/// Read an arrow array back into plain values. Integer widths other than
/// 32/64 and Float32 are widened; the exact arrow type is compared separately.
pub fn array_values(a: &ArrayRef) -> Result<Vec<V>, String> {
    let n = a.len();
    macro_rules! prim {
        ($t:ty, $f:expr) => {{
            let arr = a.as_primitive::<$t>();
            (0..n).map(|i| if arr.is_null(i) { V::Null } else { $f(arr.value(i)) }).collect()
        }};
    }
    Ok(match a.data_type() {
        DataType::Null => vec![V::Null; n],
        DataType::Int8 => prim!(Int8Type, |x: i8| V::I64(x as i64)),
        DataType::Int16 => prim!(Int16Type, |x: i16| V::I64(x as i64)),
        DataType::Int32 => prim!(Int32Type, V::I32),
        DataType::Int64 => prim!(Int64Type, V::I64),
        DataType::UInt8 => prim!(UInt8Type, |x: u8| V::I64(x as i64)),
        DataType::UInt16 => prim!(UInt16Type, |x: u16| V::I64(x as i64)),
        DataType::UInt32 => prim!(UInt32Type, |x: u32| V::I64(x as i64)),
        DataType::UInt64 => {
            let arr = a.as_primitive::<UInt64Type>();
            let mut out = Vec::with_capacity(n);
            for i in 0..n {
                if arr.is_null(i) {
                    out.push(V::Null)
                } else {
                    out.push(V::I64(i64::try_from(arr.value(i)).map_err(|_| "u64 out of range".to_string())?))
                }
            }
            out
        }
        DataType::Float32 => prim!(Float32Type, |x: f32| V::F64(x as f64)),
        DataType::Float64 => prim!(Float64Type, V::F64),
        DataType::Date32 => prim!(Date32Type, V::Date),
        DataType::Boolean => {
            let arr = a.as_boolean();
            (0..n).map(|i| if arr.is_null(i) { V::Null } else { V::Bool(arr.value(i)) }).collect()
        }
        DataType::Utf8 => {
            let arr = a.as_string::<i32>();
            (0..n).map(|i| if arr.is_null(i) { V::Null } else { V::Str(arr.value(i).to_string()) }).collect()
        }
        DataType::LargeUtf8 => {
            let arr = a.as_string::<i64>();
            (0..n).map(|i| if arr.is_null(i) { V::Null } else { V::Str(arr.value(i).to_string()) }).collect()
        }
        DataType::Utf8View => {
            let arr = a.as_string_view();
            (0..n).map(|i| if arr.is_null(i) { V::Null } else { V::Str(arr.value(i).to_string()) }).collect()
        }
        DataType::Dictionary(_, _) => {
            let unpacked = arrow::compute::cast(a, &dict_value_type(a.data_type())).map_err(|e| e.to_string())?;
            array_values(&unpacked)?
        }
        other => return Err(format!("result type {other} not readable by the check")),
    })
}

fn dict_value_type(t: &DataType) -> DataType {
    match t {
        DataType::Dictionary(_, v) => v.as_ref().clone(),
        t => t.clone(),
    }
}

/// Result of evaluating one physical expression over a table.
pub struct Evald {
    /// per row: value or the error text
    pub vals: Vec<Result<V, String>>,
    /// arrow type of the produced arrays (None if no row succeeded)
    pub dt: Option<DataType>,
    /// whether the whole-batch evaluation succeeded
    pub batch_ok: bool,
}

fn short(e: impl std::fmt::Display) -> String {
    let s = e.to_string();
    let s = s.lines().next().unwrap_or("").to_string();
    if s.len() > 160 { s[..160].to_string() } else { s }
}

pub fn eval_batch(p: &Arc<dyn PhysicalExpr>, batch: &RecordBatch) -> Result<ArrayRef, String> {
    let r = mc_core::catch(|| p.evaluate(batch).and_then(|c| c.into_array(batch.num_rows())));
    match r {
        Ok(Ok(a)) => {
            if a.len() != batch.num_rows() {
                return Err(format!("WRONG-LENGTH result: {} values for {} rows", a.len(), batch.num_rows()));
            }
            Ok(a)
        }
        Ok(Err(e)) => Err(short(e)),
        Err(p) => Err(format!("PANIC {}", short(p))),
    }
}

/// Evaluate on the whole table; when the batch evaluation fails, decide row
/// by row (1-row batches) which rows evaluate.
pub fn eval_table(p: &Arc<dyn PhysicalExpr>, t: &Table) -> Evald {
    match eval_batch(p, &t.batch) {
        Ok(a) => match array_values(&a) {
            Ok(vs) => Evald { vals: vs.into_iter().map(Ok).collect(), dt: Some(a.data_type().clone()), batch_ok: true },
            Err(e) => Evald { vals: vec![Err(e); t.len()], dt: Some(a.data_type().clone()), batch_ok: true },
        },
        Err(_) => eval_rows(p, t),
    }
}

pub fn eval_rows(p: &Arc<dyn PhysicalExpr>, t: &Table) -> Evald {
    let mut dt = None;
    let mut vals = Vec::with_capacity(t.len());
    for rb in &t.row_batches {
        match eval_batch(p, rb) {
            Ok(a) => {
                if dt.is_none() {
                    dt = Some(a.data_type().clone());
                } else if dt.as_ref() != Some(a.data_type()) {
                    vals.push(Err(format!("INCONSISTENT-TYPE {} vs {:?}", a.data_type(), dt)));
                    continue;
                }
                match array_values(&a) {
                    Ok(mut v) => vals.push(Ok(v.remove(0))),
                    Err(e) => vals.push(Err(e)),
                }
            }
            Err(e) => vals.push(Err(e)),
        }
    }
    Evald { vals, dt, batch_ok: false }
}

pub fn ty_of_arrow(t: &DataType) -> Option<Ty> {
    Some(match t {
        DataType::Int32 => Ty::I32,
        DataType::Int64 => Ty::I64,
        DataType::Float64 => Ty::F64,
        DataType::Utf8 => Ty::Str,
        DataType::Boolean => Ty::Bool,
        DataType::Date32 => Ty::Date,
        _ => return None,
    })
}
