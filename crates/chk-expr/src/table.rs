//! The exhaustive row table shared by C04 / C33.
//!
//! Ten typed columns with small value domains. For an expression only the
//! columns it references are varied (cartesian product of their domains); the
//! others are held at a fixed value. Tables are cached per referenced-column set.
use crate::refexpr::{days_of, Ty, V};
use arrow::array::{ArrayRef, BooleanArray, Date32Array, Float64Array, Int32Array, Int64Array, StringArray};
use arrow::datatypes::{DataType, Field, Schema, SchemaRef};
use arrow::record_batch::RecordBatch;
use std::collections::HashMap;
use std::sync::{Arc, Mutex, OnceLock};

pub struct ColSpec {
    pub name: &'static str,
    pub ty: Ty,
    pub nullable: bool,
    pub domain: Vec<V>,
}

pub const BIG: i64 = (1 << 32) + 1;

pub fn columns() -> &'static Vec<ColSpec> {
    static C: OnceLock<Vec<ColSpec>> = OnceLock::new();
    C.get_or_init(|| {
        let i = |v: &[i64]| v.iter().map(|x| V::I64(*x)).collect::<Vec<_>>();
        let withnull = |mut v: Vec<V>| {
            v.insert(0, V::Null);
            v
        };
        let s = |x: &str| V::Str(x.to_string());
        vec![
            ColSpec { name: "a", ty: Ty::I64, nullable: true, domain: withnull(i(&[-1, 0, 1, 2])) },
            // b carries one value outside the Int32 range (lossy-cast rewrites)
            ColSpec { name: "b", ty: Ty::I64, nullable: true, domain: withnull(i(&[0, 1, 2, BIG])) },
            ColSpec { name: "n", ty: Ty::I64, nullable: false, domain: i(&[-1, 0, 1, 2]) },
            ColSpec {
                name: "c",
                ty: Ty::I32,
                nullable: true,
                domain: withnull(vec![V::I32(-1), V::I32(0), V::I32(1), V::I32(2)]),
            },
            ColSpec {
                name: "d",
                ty: Ty::F64,
                nullable: true,
                domain: withnull(vec![V::F64(-1.5), V::F64(0.0), V::F64(1.0), V::F64(2.5)]),
            },
            ColSpec {
                name: "s",
                ty: Ty::Str,
                nullable: true,
                domain: withnull(vec![s(""), s("a"), s("A"), s("ab"), s("1")]),
            },
            ColSpec { name: "f", ty: Ty::Bool, nullable: true, domain: withnull(vec![V::Bool(true), V::Bool(false)]) },
            ColSpec { name: "g", ty: Ty::Bool, nullable: true, domain: withnull(vec![V::Bool(true), V::Bool(false)]) },
            ColSpec { name: "p", ty: Ty::Bool, nullable: false, domain: vec![V::Bool(true), V::Bool(false)] },
            ColSpec {
                name: "t",
                ty: Ty::Date,
                nullable: true,
                domain: withnull(vec![
                    V::Date(days_of(2023, 12, 31)),
                    V::Date(days_of(2024, 1, 1)),
                    V::Date(days_of(2024, 12, 31)),
                    V::Date(days_of(2025, 1, 1)),
                ]),
            },
        ]
    })
}

pub fn col_index(name: &str) -> Option<usize> {
    columns().iter().position(|c| c.name == name)
}
pub fn col_type(name: &str) -> Option<Ty> {
    columns().iter().find(|c| c.name == name).map(|c| c.ty)
}
pub fn col_nullable(name: &str) -> bool {
    columns().iter().find(|c| c.name == name).map(|c| c.nullable).unwrap_or(true)
}

pub fn arrow_type(t: Ty) -> DataType {
    match t {
        Ty::I32 => DataType::Int32,
        Ty::I64 => DataType::Int64,
        Ty::F64 => DataType::Float64,
        Ty::Str => DataType::Utf8,
        Ty::Bool => DataType::Boolean,
        Ty::Date => DataType::Date32,
    }
}

pub fn schema() -> SchemaRef {
    static S: OnceLock<SchemaRef> = OnceLock::new();
    S.get_or_init(|| {
        Arc::new(Schema::new(
            columns().iter().map(|c| Field::new(c.name, arrow_type(c.ty), c.nullable)).collect::<Vec<_>>(),
        ))
    })
    .clone()
}

/// Build an arrow array of type `t` from values.
pub fn make_array(t: Ty, vals: &[V]) -> ArrayRef {
    match t {
        Ty::I32 => Arc::new(Int32Array::from_iter(vals.iter().map(|v| match v {
            V::I32(x) => Some(*x),
            _ => None,
        }))),
        Ty::I64 => Arc::new(Int64Array::from_iter(vals.iter().map(|v| match v {
            V::I64(x) => Some(*x),
            _ => None,
        }))),
        Ty::F64 => Arc::new(Float64Array::from_iter(vals.iter().map(|v| match v {
            V::F64(x) => Some(*x),
            _ => None,
        }))),
        Ty::Str => Arc::new(StringArray::from_iter(vals.iter().map(|v| match v {
            V::Str(x) => Some(x.clone()),
            _ => None,
        }))),
        Ty::Bool => Arc::new(BooleanArray::from_iter(vals.iter().map(|v| match v {
            V::Bool(x) => Some(*x),
            _ => None,
        }))),
        Ty::Date => Arc::new(Date32Array::from_iter(vals.iter().map(|v| match v {
            V::Date(x) => Some(*x),
            _ => None,
        }))),
    }
}

pub struct Table {
    /// row-major values, one entry per column of the schema
    pub rows: Vec<Vec<V>>,
    pub batch: RecordBatch,
    /// 1-row batches (lazily useful for row-at-a-time evaluation)
    pub row_batches: Vec<RecordBatch>,
}

impl Table {
    pub fn from_rows(rows: Vec<Vec<V>>) -> Table {
        let cols = columns();
        let arrays: Vec<ArrayRef> = cols
            .iter()
            .enumerate()
            .map(|(ci, c)| {
                let vals: Vec<V> = rows.iter().map(|r| r[ci].clone()).collect();
                make_array(c.ty, &vals)
            })
            .collect();
        let batch = RecordBatch::try_new(schema(), arrays).expect("table batch");
        let row_batches = (0..rows.len()).map(|i| batch.slice(i, 1)).collect();
        Table { rows, batch, row_batches }
    }
    pub fn len(&self) -> usize {
        self.rows.len()
    }
    pub fn is_empty(&self) -> bool {
        self.rows.is_empty()
    }
    pub fn get<'a>(&'a self, i: usize) -> impl Fn(&str) -> V + 'a {
        move |name: &str| match col_index(name) {
            Some(ci) => self.rows[i][ci].clone(),
            None => V::Null,
        }
    }
}

/// All rows over the referenced columns (others fixed at their first
/// non-null domain value).
pub fn rows_for(cols_used: &[String]) -> Vec<Vec<V>> {
    let cols = columns();
    let mut rows: Vec<Vec<V>> = vec![cols
        .iter()
        .map(|c| c.domain.iter().find(|v| !v.is_null()).cloned().unwrap())
        .collect()];
    for (ci, c) in cols.iter().enumerate() {
        if !cols_used.iter().any(|n| n == c.name) {
            continue;
        }
        let mut next = Vec::with_capacity(rows.len() * c.domain.len());
        for r in &rows {
            for v in &c.domain {
                let mut r2 = r.clone();
                r2[ci] = v.clone();
                next.push(r2);
            }
        }
        rows = next;
    }
    rows
}

pub fn table_for(cols_used: &[String]) -> Arc<Table> {
    static CACHE: OnceLock<Mutex<HashMap<Vec<String>, Arc<Table>>>> = OnceLock::new();
    let cache = CACHE.get_or_init(|| Mutex::new(HashMap::new()));
    let mut key: Vec<String> = cols_used.to_vec();
    key.sort();
    key.dedup();
    if let Some(t) = cache.lock().unwrap().get(&key) {
        return t.clone();
    }
    let t = Arc::new(Table::from_rows(rows_for(&key)));
    cache.lock().unwrap().insert(key, t.clone());
    t
}
