//! Column guarantees for `ExprSimplifier::with_guarantees`, with an
//! independent "does this row satisfy it" test.
use crate::dfx::lit_df;
use crate::refexpr::{compare, Lit, Ty, E, V};
use crate::table::{arrow_type, col_type};
use datafusion_expr::interval_arithmetic::{Interval, NullableInterval};
use datafusion_expr::Expr;
use serde::{Deserialize, Serialize};
use std::cmp::Ordering;

#[derive(Serialize, Deserialize, Clone, Copy, Debug, Hash, PartialEq, Eq)]
pub enum NullK {
    NotNull,
    MaybeNull,
    Null,
}

#[derive(Serialize, Deserialize, Clone, Debug, Hash, PartialEq, Eq)]
pub struct Guar {
    pub col: String,
    pub kind: NullK,
    /// closed bounds; None = unbounded
    pub lo: Option<Lit>,
    pub hi: Option<Lit>,
}

fn lit_v(l: &Lit) -> V {
    crate::refexpr::eval(&E::Lit(l.clone()), &|_| V::Null).unwrap_or(V::Null)
}

impl Guar {
    pub fn new(col: &str, kind: NullK, lo: Option<Lit>, hi: Option<Lit>) -> Guar {
        Guar { col: col.to_string(), kind, lo, hi }
    }
    /// independent satisfaction test
    pub fn holds(&self, v: &V) -> bool {
        if v.is_null() {
            return self.kind != NullK::NotNull;
        }
        if self.kind == NullK::Null {
            return false;
        }
        if let Some(lo) = &self.lo {
            if compare(v, &lit_v(lo)).ok().flatten() == Some(Ordering::Less) {
                return false;
            }
        }
        if let Some(hi) = &self.hi {
            if compare(v, &lit_v(hi)).ok().flatten() == Some(Ordering::Greater) {
                return false;
            }
        }
        true
    }
    pub fn to_df(&self) -> datafusion_common::Result<(Expr, NullableInterval)> {
        let ty: Ty = col_type(&self.col).expect("guarantee column");
        let dt = arrow_type(ty);
        let unb = datafusion_common::ScalarValue::try_from(&dt)?;
        let lo = self.lo.as_ref().map(lit_df).unwrap_or_else(|| unb.clone());
        let hi = self.hi.as_ref().map(lit_df).unwrap_or_else(|| unb.clone());
        let values = Interval::try_new(lo, hi)?;
        let ni = match self.kind {
            NullK::NotNull => NullableInterval::NotNull { values },
            NullK::MaybeNull => NullableInterval::MaybeNull { values },
            NullK::Null => NullableInterval::Null { datatype: dt },
        };
        Ok((datafusion_expr::col(self.col.as_str()), ni))
    }
}

impl std::fmt::Display for Guar {
    fn fmt(&self, f: &mut std::fmt::Formatter<'_>) -> std::fmt::Result {
        let b = |l: &Option<Lit>| l.as_ref().map(|x| format!("{}", E::Lit(x.clone()))).unwrap_or("-inf/inf".into());
        match self.kind {
            NullK::Null => write!(f, "{} IS NULL", self.col),
            NullK::NotNull => write!(f, "{} in [{},{}] NOT NULL", self.col, b(&self.lo), b(&self.hi)),
            NullK::MaybeNull => write!(f, "{} in [{},{}] or NULL", self.col, b(&self.lo), b(&self.hi)),
        }
    }
}

/// The guarantee menu of the check, per column.
pub fn menu() -> Vec<Guar> {
    use NullK::*;
    let i = |v: i64| Some(Lit::I64(v));
    let s = |v: &str| Some(Lit::Str(v.to_string()));
    let b = |v: bool| Some(Lit::Bool(v));
    vec![
        Guar::new("a", NotNull, i(0), i(1)),
        Guar::new("a", NotNull, i(1), i(1)),
        Guar::new("a", NotNull, None, None),
        Guar::new("a", Null, None, None),
        Guar::new("a", MaybeNull, i(0), i(1)),
        Guar::new("a", NotNull, i(2), None),
        Guar::new("a", MaybeNull, i(1), i(1)),
        Guar::new("n", NotNull, i(0), i(1)),
        Guar::new("s", NotNull, s("a"), s("a")),
        Guar::new("s", MaybeNull, s("a"), s("ab")),
        Guar::new("f", NotNull, b(true), b(true)),
        Guar::new("f", MaybeNull, b(false), b(false)),
        Guar::new("f", Null, None, None),
    ]
}
