//! Exhaustive expression-tree generator (grammar of DESIGN §4.2 C04).
//!
//! Typed generation: every tree is well-typed by construction (operands of an
//! operator have the same type, or a numeric pair the coercion promotes, or the
//! untyped NULL). The space is the closure described by [`describe`]:
//!
//!  * leaves: the 10 table columns and a literal menu per type;
//!  * depth 1 (`v1(ty)`): every operator of the grammar applied to every
//!    admissible combination of leaves (at least one column per binary
//!    operator, plus a literal-only slice for constant folding);
//!  * depth 2: every *unary context* (NOT, IS ..., = TRUE, AND TRUE, CAST, ...)
//!    around every depth-1 tree, every depth-1 tree combined with every leaf of
//!    its type by every binary operator in both operand orders, self
//!    combinations (`X op X`, `X op NOT X`), and every ordered pair of a *core*
//!    set of predicates under AND / OR, CASE over core conditions;
//!  * depth 3 (thorough): the unary contexts around every depth-2 predicate and
//!    core x depth-2-core combinations.
use crate::refexpr::*;
use std::collections::HashSet;

pub fn cols_of(t: Ty) -> Vec<E> {
    match t {
        Ty::I64 => vec![col("a"), col("b"), col("n")],
        Ty::I32 => vec![col("c")],
        Ty::F64 => vec![col("d")],
        Ty::Str => vec![col("s")],
        Ty::Bool => vec![col("f"), col("g"), col("p")],
        Ty::Date => vec![col("t")],
    }
}

pub fn lits_of(t: Ty) -> Vec<E> {
    match t {
        Ty::I64 => vec![lnull(Ty::I64), li(0), li(1), li(2), li(-1)],
        Ty::I32 => vec![li32(1), lnull(Ty::I32)],
        Ty::F64 => vec![lf(1.5), lf(0.0), lnull(Ty::F64)],
        Ty::Str => vec![lnull(Ty::Str), ls(""), ls("a"), ls("a%"), ls("1")],
        Ty::Bool => vec![lnull(Ty::Bool), lb(true), lb(false)],
        Ty::Date => vec![E::Lit(Lit::Date(days_of(2024, 1, 1)))],
    }
}

pub fn leaves_of(t: Ty) -> Vec<E> {
    let mut v = cols_of(t);
    v.extend(lits_of(t));
    v
}

pub const ALL_TY: [Ty; 6] = [Ty::I64, Ty::I32, Ty::F64, Ty::Str, Ty::Bool, Ty::Date];
pub const CMP6: [Op; 6] = [Op::Eq, Op::Ne, Op::Lt, Op::Le, Op::Gt, Op::Ge];
pub const CMP8: [Op; 8] = [Op::Eq, Op::Ne, Op::Lt, Op::Le, Op::Gt, Op::Ge, Op::Distinct, Op::NotDistinct];
pub const ARITH: [Op; 5] = [Op::Add, Op::Sub, Op::Mul, Op::Div, Op::Mod];
pub const BITS: [Op; 3] = [Op::BitAnd, Op::BitOr, Op::BitXor];
pub const ISK8: [IsK; 8] =
    [IsK::Null, IsK::NotNull, IsK::True, IsK::NotTrue, IsK::False, IsK::NotFalse, IsK::Unknown, IsK::NotUnknown];
pub const LIKE_PATS: [Option<&str>; 11] = [
    None,
    Some("%"),
    Some("%%"),
    Some(""),
    Some("a"),
    Some("a%"),
    Some("%a"),
    Some("a_"),
    Some("_"),
    Some("A%"),
    Some("a%%b"),
];
// the last four are fully anchored literals containing the LIKE wildcards: the simplifier lowers
// `~*` on an anchored literal to ILIKE, where `_` / `%` must stay literal characters
pub const REGEX_PATS: [&str; 18] = [
    "", "a", "^a", "a$", "^a$", "^$", ".*", "^(a|ab)$", "^(a)$", "a|1", "^a|b$", "a%", "a.", "^(a|%)$", "^a_$", "^a%$", "^_$",
    "^%$",
];

fn is_col(e: &E) -> bool {
    matches!(e, E::Col(_))
}

/// ordered pairs of leaves with at least one column, plus a literal-only slice
fn leaf_pairs(t: Ty) -> Vec<(E, E)> {
    let ls = leaves_of(t);
    let lits = lits_of(t);
    let mut out = vec![];
    for x in &ls {
        for y in &ls {
            if is_col(x) || is_col(y) {
                out.push((x.clone(), y.clone()));
            }
        }
    }
    // constant folding slice: first three literals squared
    for x in lits.iter().take(3) {
        for y in lits.iter().take(3) {
            out.push((x.clone(), y.clone()));
        }
    }
    out
}

fn in_e(e: E, list: Vec<E>, neg: bool) -> E {
    E::In { e: Box::new(e), list, neg }
}
fn between(e: E, lo: E, hi: E, neg: bool) -> E {
    E::Between { e: Box::new(e), lo: Box::new(lo), hi: Box::new(hi), neg }
}
fn like(e: E, pat: E, neg: bool, ci: bool) -> E {
    E::Like { e: Box::new(e), pat: Box::new(pat), neg, ci }
}
fn case_s(whens: Vec<(E, E)>, els: Option<E>) -> E {
    E::Case { operand: None, whens, els: els.map(Box::new) }
}
fn case_o(op: E, whens: Vec<(E, E)>, els: Option<E>) -> E {
    E::Case { operand: Some(Box::new(op)), whens, els: els.map(Box::new) }
}
fn fun(f: Fun, args: Vec<E>) -> E {
    E::Fun(f, args)
}
fn neg(e: E) -> E {
    E::Neg(Box::new(e))
}
fn nullu() -> E {
    E::Lit(Lit::NullU)
}

/// all sequences of length 1..=max over items
fn seqs(items: &[E], max: usize) -> Vec<Vec<E>> {
    let mut out: Vec<Vec<E>> = vec![];
    let mut cur: Vec<Vec<E>> = vec![vec![]];
    for _ in 0..max {
        let mut next = vec![];
        for s in &cur {
            for it in items {
                let mut s2 = s.clone();
                s2.push(it.clone());
                next.push(s2);
            }
        }
        out.extend(next.iter().cloned());
        cur = next;
    }
    out
}

fn like_pat(p: Option<&str>) -> E {
    match p {
        Some(s) => ls(s),
        None => lnull(Ty::Str),
    }
}

/// Depth-1 expressions of type `t` (leaves excluded).
pub fn v1(t: Ty) -> Vec<E> {
    let mut out: Vec<E> = vec![];
    match t {
        Ty::Bool => {
            for ty in ALL_TY {
                for (x, y) in leaf_pairs(ty) {
                    for op in CMP8 {
                        out.push(bin(x.clone(), op, y.clone()));
                    }
                }
            }
            // numeric pairs the coercion promotes
            for (x, y) in [
                (col("c"), col("a")),
                (col("a"), col("c")),
                (col("c"), li(1)),
                (col("a"), lf(1.5)),
                (col("d"), li(1)),
                (col("a"), col("d")),
            ] {
                for op in CMP6 {
                    out.push(bin(x.clone(), op, y.clone()));
                }
            }
            // the untyped NULL literal
            for x in [col("a"), col("n"), col("s"), col("f"), col("d")] {
                for op in CMP8 {
                    out.push(bin(x.clone(), op, nullu()));
                    out.push(bin(nullu(), op, x.clone()));
                }
            }
            for (x, y) in leaf_pairs(Ty::Bool) {
                out.push(bin(x.clone(), Op::And, y.clone()));
                out.push(bin(x.clone(), Op::Or, y.clone()));
            }
            for x in [col("f"), col("p")] {
                for op in [Op::And, Op::Or] {
                    out.push(bin(x.clone(), op, nullu()));
                    out.push(bin(nullu(), op, x.clone()));
                }
            }
            for x in leaves_of(Ty::Bool) {
                out.push(not(x.clone()));
                for k in ISK8 {
                    out.push(is(x.clone(), k));
                }
            }
            for ty in [Ty::I64, Ty::I32, Ty::F64, Ty::Str, Ty::Date] {
                for x in leaves_of(ty) {
                    out.push(is(x.clone(), IsK::Null));
                    out.push(is(x.clone(), IsK::NotNull));
                }
            }
            // IN lists
            let int_items = [lnull(Ty::I64), li(0), li(1), li(2)];
            for l in seqs(&int_items, 3) {
                for x in [col("a"), col("n")] {
                    for ng in [false, true] {
                        out.push(in_e(x.clone(), l.clone(), ng));
                    }
                }
            }
            for l in seqs(&[li(1), col("b"), nullu()], 2) {
                for ng in [false, true] {
                    out.push(in_e(col("a"), l.clone(), ng));
                }
            }
            let str_items = [lnull(Ty::Str), ls("a"), ls("ab")];
            for l in seqs(&str_items, 3) {
                for ng in [false, true] {
                    out.push(in_e(col("s"), l.clone(), ng));
                }
            }
            for l in seqs(&[lf(1.0), lf(0.0), lnull(Ty::F64)], 2) {
                for ng in [false, true] {
                    out.push(in_e(col("d"), l.clone(), ng));
                }
            }
            for l in seqs(&[lb(true), lnull(Ty::Bool)], 2) {
                for ng in [false, true] {
                    out.push(in_e(col("f"), l.clone(), ng));
                }
            }
            // BETWEEN
            let bounds = [lnull(Ty::I64), li(0), li(1), li(2), col("b")];
            for x in [col("a"), col("n")] {
                for lo in &bounds {
                    for hi in &bounds {
                        for ng in [false, true] {
                            out.push(between(x.clone(), lo.clone(), hi.clone(), ng));
                        }
                    }
                }
            }
            for ng in [false, true] {
                out.push(between(col("s"), ls("a"), ls("ab"), ng));
                out.push(between(col("d"), lf(0.0), lf(1.5), ng));
                out.push(between(col("a"), nullu(), li(1), ng));
            }
            // LIKE / ILIKE
            for p in LIKE_PATS {
                for ng in [false, true] {
                    for ci in [false, true] {
                        out.push(like(col("s"), like_pat(p), ng, ci));
                    }
                }
            }
            out.push(like(col("s"), col("s"), false, false));
            out.push(like(ls("a"), col("s"), false, false));
            // regular expressions
            for p in REGEX_PATS {
                for op in [Op::Re, Op::ReI, Op::NotRe, Op::NotReI] {
                    out.push(bin(col("s"), op, ls(p)));
                }
            }
            out.push(bin(col("s"), Op::Re, lnull(Ty::Str)));
            out.push(bin(col("s"), Op::Re, col("s")));
            // functions
            for p in ["", "a", "a%", "a_"] {
                out.push(fun(Fun::StartsWith, vec![col("s"), ls(p)]));
            }
            out.push(fun(Fun::StartsWith, vec![col("s"), lnull(Ty::Str)]));
            out.push(fun(Fun::StartsWith, vec![col("s"), col("s")]));
        }
        Ty::I64 | Ty::I32 | Ty::F64 => {
            for (x, y) in leaf_pairs(t) {
                for op in ARITH {
                    out.push(bin(x.clone(), op, y.clone()));
                }
                if t.is_int() {
                    for op in BITS {
                        out.push(bin(x.clone(), op, y.clone()));
                    }
                }
            }
            for x in cols_of(t) {
                out.push(neg(x.clone()));
                out.push(fun(Fun::Abs, vec![x.clone()]));
                if t == Ty::I64 {
                    for sh in [li(0), li(1)] {
                        out.push(bin(x.clone(), Op::Shl, sh.clone()));
                        out.push(bin(x.clone(), Op::Shr, sh.clone()));
                    }
                    for op in ARITH {
                        out.push(bin(x.clone(), op, nullu()));
                    }
                }
            }
            if t == Ty::I64 {
                for (x, y) in [(col("c"), col("a")), (col("a"), col("c"))] {
                    for op in [Op::Add, Op::Mul, Op::Div] {
                        out.push(bin(x.clone(), op, y.clone()));
                    }
                }
            }
            if t == Ty::F64 {
                for (x, y) in [(col("a"), col("d")), (col("d"), li(1)), (col("a"), lf(1.5))] {
                    for op in [Op::Add, Op::Mul, Op::Div] {
                        out.push(bin(x.clone(), op, y.clone()));
                    }
                }
            }
            if t == Ty::I32 {
                out.push(fun(Fun::Year, vec![col("t")]));
            }
        }
        Ty::Str => {
            for x in leaves_of(Ty::Str) {
                out.push(fun(Fun::Upper, vec![x.clone()]));
                out.push(fun(Fun::Lower, vec![x.clone()]));
            }
            for (x, y) in leaf_pairs(Ty::Str) {
                out.push(fun(Fun::Concat, vec![x.clone(), y.clone()]));
            }
            out.push(fun(Fun::Concat, vec![col("s")]));
            out.push(fun(Fun::Concat, vec![ls("a"), ls("1"), col("s")]));
            out.push(fun(Fun::Concat, vec![col("s"), ls("a"), ls("1")]));
            out.push(fun(Fun::Concat, vec![ls("a"), lnull(Ty::Str), ls("1")]));
            out.push(fun(Fun::Concat, vec![col("s"), lnull(Ty::Str), col("s")]));
        }
        Ty::Date => {}
    }
    // generic: casts into t, COALESCE, NULLIF, CASE
    for from in ALL_TY {
        if from == Ty::Date && t != Ty::Date {
            continue;
        }
        if t == Ty::Date {
            continue;
        }
        let mut srcs = cols_of(from);
        srcs.extend(lits_of(from).into_iter().take(3));
        for x in srcs {
            out.push(cast(x.clone(), t));
            out.push(try_cast(x.clone(), t));
        }
    }
    if t != Ty::Date {
        out.push(cast(nullu(), t));
    }
    let ls_ = leaves_of(t);
    for x in &ls_ {
        for y in &ls_ {
            if is_col(x) || is_col(y) {
                out.push(fun(Fun::Coalesce, vec![x.clone(), y.clone()]));
                out.push(fun(Fun::NullIf, vec![x.clone(), y.clone()]));
            }
        }
    }
    if let Some(c0) = cols_of(t).first() {
        out.push(fun(Fun::Coalesce, vec![c0.clone()]));
        out.push(fun(Fun::Coalesce, vec![nullu(), c0.clone()]));
        out.push(fun(Fun::Coalesce, vec![c0.clone(), nullu()]));
        if let Some(l0) = lits_of(t).iter().find(|l| !matches!(l, E::Lit(Lit::Null(_)))) {
            out.push(fun(Fun::Coalesce, vec![lnull(t), c0.clone(), l0.clone()]));
        }
    }
    // CASE producing t
    let conds = leaves_of(Ty::Bool);
    let thens: Vec<E> = {
        let mut v: Vec<E> = cols_of(t).into_iter().take(1).collect();
        v.extend(lits_of(t).into_iter().take(3));
        v
    };
    let elses: Vec<Option<E>> = {
        let mut v: Vec<Option<E>> = vec![None];
        v.extend(cols_of(t).into_iter().rev().take(1).map(Some));
        v.extend(lits_of(t).into_iter().take(3).map(Some));
        v
    };
    for c in &conds {
        for th in &thens {
            for el in &elses {
                out.push(case_s(vec![(c.clone(), th.clone())], el.clone()));
            }
        }
    }
    // two arms
    for (c1, c2) in [(col("f"), col("g")), (col("f"), lb(true)), (lb(false), col("f")), (col("p"), col("f")), (col("f"), col("f"))] {
        for el in elses.iter().take(3) {
            if thens.len() >= 2 {
                out.push(case_s(vec![(c1.clone(), thens[0].clone()), (c2.clone(), thens[1].clone())], el.clone()));
                out.push(case_s(vec![(c1.clone(), thens[1].clone()), (c2.clone(), thens[2 % thens.len()].clone())], el.clone()));
            }
        }
    }
    // simple form, operand a / n / s
    for (o, ws) in [
        (col("a"), vec![li(1), lnull(Ty::I64), col("b"), li(2)]),
        (col("n"), vec![li(1), li(0)]),
        (col("s"), vec![ls("a"), lnull(Ty::Str)]),
        (col("f"), vec![lb(true), lnull(Ty::Bool)]),
    ] {
        for w in &ws {
            for th in thens.iter().take(3) {
                for el in elses.iter().take(3) {
                    out.push(case_o(o.clone(), vec![(w.clone(), th.clone())], el.clone()));
                }
            }
        }
        if ws.len() >= 2 && thens.len() >= 2 {
            for el in elses.iter().take(2) {
                out.push(case_o(
                    o.clone(),
                    vec![(ws[0].clone(), thens[0].clone()), (ws[1].clone(), thens[1].clone())],
                    el.clone(),
                ));
                out.push(case_o(
                    o.clone(),
                    vec![(ws[0].clone(), thens[1].clone()), (ws[0].clone(), thens[0].clone())],
                    el.clone(),
                ));
            }
        }
    }
    out
}

/// The *core* predicates whose ordered pairs are combined under AND / OR.
pub fn core_bools(thorough: bool) -> Vec<E> {
    let a = || col("a");
    let mut v = vec![];
    for k in [1, 2] {
        for op in CMP6 {
            v.push(bin(a(), op, li(k)));
        }
    }
    v.push(bin(li(1), Op::Eq, a()));
    v.push(bin(li(1), Op::Lt, a()));
    v.push(bin(li(2), Op::Ge, a()));
    v.push(bin(a(), Op::Eq, lnull(Ty::I64)));
    v.push(bin(a(), Op::Eq, col("b")));
    v.push(bin(a(), Op::Lt, col("b")));
    v.push(bin(col("b"), Op::Eq, li(1)));
    v.push(bin(col("n"), Op::Eq, li(1)));
    v.push(bin(col("n"), Op::Gt, li(1)));
    v.push(bin(col("n"), Op::Ne, li(1)));
    v.push(bin(a(), Op::NotDistinct, li(1)));
    v.push(in_e(a(), vec![li(1), li(2)], false));
    v.push(in_e(a(), vec![li(2), li(0)], false));
    v.push(in_e(a(), vec![li(2), lnull(Ty::I64)], false));
    v.push(in_e(a(), vec![li(1)], false));
    v.push(in_e(a(), vec![li(1), li(2)], true));
    v.push(in_e(a(), vec![li(2), li(0)], true));
    v.push(in_e(a(), vec![li(1)], true));
    v.push(in_e(a(), vec![li(1), lnull(Ty::I64)], true));
    v.push(in_e(col("n"), vec![li(1), li(2)], false));
    v.push(in_e(col("n"), vec![li(1), li(0)], true));
    v.push(is(a(), IsK::Null));
    v.push(is(a(), IsK::NotNull));
    v.push(between(a(), li(1), li(2), false));
    v.push(between(a(), li(0), li(1), true));
    for c in ["f", "g", "p"] {
        v.push(col(c));
        v.push(not(col(c)));
    }
    v.push(is(col("f"), IsK::True));
    v.push(is(col("f"), IsK::NotTrue));
    v.push(is(col("f"), IsK::Unknown));
    v.push(bin(col("f"), Op::And, col("g")));
    v.push(bin(col("f"), Op::Or, col("g")));
    v.push(bin(col("f"), Op::And, col("p")));
    v.push(bin(col("p"), Op::Or, col("g")));
    v.push(bin(col("s"), Op::Eq, ls("a")));
    v.push(bin(col("s"), Op::Ne, ls("a")));
    v.push(bin(col("s"), Op::Eq, ls("ab")));
    v.push(like(col("s"), ls("a%"), false, false));
    v.push(in_e(col("s"), vec![ls("a"), ls("ab")], false));
    v.push(bin(col("d"), Op::Gt, lf(0.0)));
    v.push(bin(col("d"), Op::Le, lf(1.5)));
    v.push(bin(cast(col("c"), Ty::I64), Op::Eq, li(1)));
    v.push(bin(cast(col("c"), Ty::I64), Op::Gt, li(1)));
    v.push(lb(true));
    v.push(lb(false));
    v.push(lnull(Ty::Bool));
    if thorough {
        for k in [0, -1] {
            for op in CMP6 {
                v.push(bin(a(), op, li(k)));
            }
        }
        for op in CMP6 {
            v.push(bin(col("b"), op, li(1)));
            v.push(bin(col("n"), op, li(0)));
            v.push(bin(li(1), op, a()));
        }
        v.push(in_e(a(), vec![li(0), li(1), li(2)], false));
        v.push(in_e(a(), vec![li(0), li(1), li(2)], true));
        v.push(in_e(a(), vec![lnull(Ty::I64)], false));
        v.push(is(col("g"), IsK::False));
        v.push(is(col("p"), IsK::NotNull));
        v.push(bin(col("f"), Op::Eq, col("g")));
        v.push(bin(col("s"), Op::Re, ls("^a")));
        v.push(like(col("s"), ls("%"), false, false));
        v.push(bin(col("t"), Op::Ge, E::Lit(Lit::Date(days_of(2024, 1, 1)))));
        v.push(bin(fun(Fun::Year, vec![col("t")]), Op::Eq, li32(2024)));
    }
    v
}

/// Unary / literal contexts around a predicate `b`.
fn bool_contexts(b: &E, full: bool, out: &mut Vec<E>) {
    out.push(not(b.clone()));
    let kinds: &[IsK] = if full { &ISK8 } else { &[IsK::True, IsK::NotTrue, IsK::Null, IsK::False] };
    for k in kinds {
        out.push(is(b.clone(), *k));
    }
    for l in [lb(true), lb(false), lnull(Ty::Bool)] {
        out.push(bin(b.clone(), Op::Eq, l.clone()));
        out.push(bin(b.clone(), Op::And, l.clone()));
        out.push(bin(b.clone(), Op::Or, l.clone()));
        if full {
            out.push(bin(l.clone(), Op::Eq, b.clone()));
            out.push(bin(b.clone(), Op::Ne, l.clone()));
            out.push(bin(l.clone(), Op::Ne, b.clone()));
            out.push(bin(l.clone(), Op::And, b.clone()));
            out.push(bin(l.clone(), Op::Or, b.clone()));
        }
    }
    if full {
        out.push(bin(b.clone(), Op::NotDistinct, lb(true)));
        out.push(bin(b.clone(), Op::Distinct, lnull(Ty::Bool)));
        out.push(bin(b.clone(), Op::And, nullu()));
        out.push(bin(b.clone(), Op::And, b.clone()));
        out.push(bin(b.clone(), Op::Or, b.clone()));
        out.push(bin(b.clone(), Op::Eq, b.clone()));
        out.push(bin(b.clone(), Op::Ne, b.clone()));
        out.push(bin(b.clone(), Op::And, not(b.clone())));
        out.push(bin(not(b.clone()), Op::Or, b.clone()));
        out.push(cast(b.clone(), Ty::I64));
        out.push(cast(b.clone(), Ty::Str));
        out.push(case_s(vec![(b.clone(), li(1))], Some(li(2))));
        out.push(case_s(vec![(b.clone(), col("a"))], None));
        out.push(case_s(vec![(b.clone(), lb(true))], Some(lb(false))));
        out.push(case_s(vec![(b.clone(), lb(false))], Some(lb(true))));
        out.push(case_s(vec![(b.clone(), lb(true))], None));
        out.push(case_s(vec![(b.clone(), col("f"))], Some(col("g"))));
        out.push(case_s(vec![(b.clone(), lnull(Ty::Bool))], Some(lb(true))));
        out.push(case_s(vec![(col("f"), b.clone())], Some(lb(false))));
        out.push(case_s(vec![(col("f"), lb(true))], Some(b.clone())));
        out.push(fun(Fun::Coalesce, vec![b.clone(), lb(false)]));
        out.push(fun(Fun::NullIf, vec![b.clone(), lb(true)]));
    }
}

/// Contexts around a non-boolean value `x` of type `t`.
/// `full` = every literal of the type and a column as the other operand, all
/// operators in both operand orders; otherwise (quick tier, around depth-1
/// trees) a reduced menu: NULL and two literals, mirrored only for = < >=.
fn value_contexts(x: &E, t: Ty, full: bool, out: &mut Vec<E>) {
    let mut cmp_leaves: Vec<E> = lits_of(t);
    if full {
        if let Some(c) = cols_of(t).first() {
            cmp_leaves.push(c.clone());
        }
    } else {
        cmp_leaves.truncate(3);
    }
    let mirrored: &[Op] = if full { &CMP6 } else { &[Op::Eq, Op::Lt, Op::Ge] };
    for l in &cmp_leaves {
        for op in CMP8 {
            out.push(bin(x.clone(), op, l.clone()));
        }
        for op in mirrored {
            out.push(bin(l.clone(), *op, x.clone()));
        }
    }
    out.push(bin(x.clone(), Op::Eq, nullu()));
    out.push(bin(x.clone(), Op::Eq, x.clone()));
    out.push(bin(x.clone(), Op::Ne, x.clone()));
    out.push(bin(x.clone(), Op::Le, x.clone()));
    out.push(is(x.clone(), IsK::Null));
    out.push(is(x.clone(), IsK::NotNull));
    let nn: Vec<E> = lits_of(t).into_iter().filter(|l| !matches!(l, E::Lit(Lit::Null(_)))).collect();
    if !nn.is_empty() {
        for ng in [false, true] {
            out.push(in_e(x.clone(), vec![nn[0].clone()], ng));
            out.push(in_e(x.clone(), vec![nn[0].clone(), lnull(t)], ng));
            if nn.len() > 1 {
                out.push(in_e(x.clone(), vec![nn[0].clone(), nn[1].clone()], ng));
                out.push(between(x.clone(), nn[0].clone(), nn[1].clone(), ng));
                out.push(between(x.clone(), lnull(t), nn[1].clone(), ng));
            }
        }
        out.push(fun(Fun::Coalesce, vec![x.clone(), nn[0].clone()]));
        out.push(fun(Fun::NullIf, vec![x.clone(), nn[0].clone()]));
        out.push(case_o(x.clone(), vec![(nn[0].clone(), lb(true))], Some(lb(false))));
    }
    for to in [Ty::I32, Ty::I64, Ty::F64, Ty::Str, Ty::Bool] {
        if t == Ty::Date {
            continue;
        }
        out.push(cast(x.clone(), to));
        if full || matches!(to, Ty::I32 | Ty::Str) {
            out.push(try_cast(x.clone(), to));
        }
    }
    if t.is_num() {
        let mut alits: Vec<E> = match t {
            Ty::I64 => vec![li(0), li(1), lnull(Ty::I64), li(2)],
            Ty::I32 => vec![li32(1), li32(0)],
            _ => vec![lf(0.0), lf(1.0), lnull(Ty::F64), lf(1.5)],
        };
        if !full {
            alits.truncate(3);
        }
        let mut ops: Vec<Op> = ARITH.to_vec();
        if t.is_int() {
            ops.extend(BITS);
        }
        for l in &alits {
            for op in &ops {
                out.push(bin(x.clone(), *op, l.clone()));
                out.push(bin(l.clone(), *op, x.clone()));
            }
        }
        if t == Ty::I64 {
            out.push(bin(x.clone(), Op::Shl, li(0)));
            out.push(bin(x.clone(), Op::Shr, li(0)));
            out.push(bin(x.clone(), Op::Shr, li(1)));
        }
        for op in &ops {
            out.push(bin(x.clone(), *op, x.clone()));
        }
        out.push(neg(x.clone()));
        out.push(neg(neg(x.clone())));
        if t.is_int() {
            for op in BITS {
                out.push(bin(neg(x.clone()), op, x.clone()));
                out.push(bin(x.clone(), op, neg(x.clone())));
            }
        }
        out.push(fun(Fun::Abs, vec![x.clone()]));
    }
    if t == Ty::Str {
        for p in LIKE_PATS.iter().take(if full { LIKE_PATS.len() } else { 6 }) {
            out.push(like(x.clone(), like_pat(*p), false, false));
        }
        out.push(like(x.clone(), ls("a%"), true, false));
        out.push(like(x.clone(), ls("a%"), false, true));
        for p in ["a", "^a$", "^a", ".*", "^(a|ab)$"] {
            out.push(bin(x.clone(), Op::Re, ls(p)));
            out.push(bin(x.clone(), Op::NotReI, ls(p)));
        }
        out.push(fun(Fun::Upper, vec![x.clone()]));
        out.push(fun(Fun::Lower, vec![x.clone()]));
        out.push(fun(Fun::Concat, vec![x.clone(), ls("a")]));
        out.push(fun(Fun::Concat, vec![ls("a"), x.clone(), ls("1")]));
        out.push(fun(Fun::StartsWith, vec![x.clone(), ls("a")]));
    }
}

fn dedup(v: Vec<E>) -> Vec<E> {
    // 128-bit structural fingerprints (two independent 64-bit hashes) instead of cloned trees
    use std::hash::{Hash, Hasher};
    let mut seen: HashSet<(u64, u64)> = HashSet::with_capacity(v.len());
    let mut out = Vec::with_capacity(v.len());
    for e in v {
        let mut h1 = std::collections::hash_map::DefaultHasher::new();
        e.hash(&mut h1);
        let mut h2 = std::collections::hash_map::DefaultHasher::new();
        0x9e3779b97f4a7c15u64.hash(&mut h2);
        e.hash(&mut h2);
        if seen.insert((h1.finish(), h2.finish())) {
            out.push(e);
        }
    }
    out
}

pub struct Space {
    pub exprs: Vec<E>,
    /// thorough tier: depth-2 predicates around which `d3_contexts` builds the depth-3 trees
    pub d3_seeds: Vec<E>,
    pub description: serde_json::Value,
}

/// The complete space for a tier, simplest (fewest nodes) first.
pub fn space(thorough: bool) -> Space {
    let mut all: Vec<E> = vec![];
    let mut counts = serde_json::Map::new();
    // depth 0
    for t in ALL_TY {
        all.extend(leaves_of(t));
    }
    // depth 1
    let mut d1: Vec<(Ty, Vec<E>)> = vec![];
    for t in ALL_TY {
        let v = dedup(v1(t));
        counts.insert(format!("depth1_{t:?}"), serde_json::json!(v.len()));
        all.extend(v.iter().cloned());
        d1.push((t, v));
    }
    // contexts directly around the columns (`p OR NOT p`, `-n & n`, `a = a`, ...)
    {
        let mut out = vec![];
        for t in ALL_TY {
            for c in cols_of(t) {
                if t == Ty::Bool {
                    bool_contexts(&c, true, &mut out);
                } else {
                    value_contexts(&c, t, true, &mut out);
                }
            }
        }
        counts.insert("contexts_of_columns".into(), serde_json::json!(out.len()));
        all.extend(out);
    }
    // depth 2
    let mut d2_bool: Vec<E> = vec![];
    for (t, v) in &d1 {
        let mut out = vec![];
        for x in v {
            if *t == Ty::Bool {
                bool_contexts(x, true, &mut out);
            } else {
                value_contexts(x, *t, thorough, &mut out);
            }
        }
        counts.insert(format!("depth2_contexts_of_{t:?}"), serde_json::json!(out.len()));
        if thorough {
            d2_bool.extend(out.iter().filter(|e| is_bool_shaped(e)).cloned());
        }
        all.extend(out);
    }
    let core = core_bools(thorough);
    let mut pairs = vec![];
    for x in &core {
        for y in &core {
            pairs.push(bin(x.clone(), Op::And, y.clone()));
            pairs.push(bin(x.clone(), Op::Or, y.clone()));
        }
    }
    // CASE over core conditions
    let case_core: Vec<E> = core.iter().take(if thorough { core.len() } else { 40 }).cloned().collect();
    for c1 in &case_core {
        for c2 in &case_core {
            for (t1, t2) in [(lb(true), lb(false)), (lb(false), lb(true)), (lb(true), lb(true))] {
                for el in [None, Some(lb(false)), Some(lb(true))] {
                    pairs.push(case_s(vec![(c1.clone(), t1.clone()), (c2.clone(), t2.clone())], el));
                }
            }
            pairs.push(case_s(vec![(c1.clone(), li(1)), (c2.clone(), li(2))], Some(li(0))));
            pairs.push(case_s(vec![(c1.clone(), c2.clone())], Some(col("g"))));
        }
    }
    counts.insert("core_predicates".into(), serde_json::json!(core.len()));
    counts.insert("depth2_core_pairs_and_cases".into(), serde_json::json!(pairs.len()));
    if thorough {
        d2_bool.extend(pairs.iter().filter(|e| is_bool_shaped(e)).cloned());
    }
    all.extend(pairs);
    // depth 3 (thorough): reduced contexts around every depth-2 predicate
    // (generated lazily by the caller from `d3_seeds`), and core triples
    let mut d3_seeds = vec![];
    if thorough {
        d3_seeds = dedup(d2_bool);
        counts.insert("depth3_seed_predicates".into(), serde_json::json!(d3_seeds.len()));
        counts.insert("depth3_contexts_per_seed".into(), serde_json::json!(d3_contexts(&lb(true)).len()));
        let small: Vec<E> = core_bools(false).into_iter().take(34).collect();
        let mut triples = vec![];
        for x in &small {
            for y in &small {
                for z in &small {
                    for (o1, o2) in [(Op::And, Op::Or), (Op::Or, Op::And), (Op::And, Op::And), (Op::Or, Op::Or)] {
                        triples.push(bin(bin(x.clone(), o1, y.clone()), o2, z.clone()));
                    }
                }
            }
        }
        counts.insert("depth3_core_triples".into(), serde_json::json!(triples.len()));
        all.extend(triples);
    }
    let mut exprs = dedup(all);
    exprs.sort_by_cached_key(|e| e.nodes());
    let description = serde_json::json!({
        "columns": "a,b:Int64 n:Int64 NOT NULL c:Int32 d:Float64 s:Utf8 f,g:Boolean p:Boolean NOT NULL t:Date32",
        "literals": "Int64 {NULL,0,1,2,-1} Int32 {1,NULL} Float64 {1.5,0.0,NULL} Utf8 {NULL,'','a','a%','1'} Boolean {NULL,true,false} Date {2024-01-01} + untyped NULL",
        "max_depth": if thorough { 3 } else { 2 },
        "family_sizes": counts,
        "materialised_distinct_trees": exprs.len(),
    });
    Space { exprs, d3_seeds, description }
}

/// The depth-3 trees built around one depth-2 predicate.
pub fn d3_contexts(b: &E) -> Vec<E> {
    let mut out = vec![];
    bool_contexts(b, false, &mut out);
    out
}

/// cheap syntactic test: is the root a boolean-valued construct
pub fn is_bool_shaped(e: &E) -> bool {
    match e {
        E::Bin(_, op, _) => op.is_cmp() || op.is_regex() || matches!(op, Op::And | Op::Or),
        E::Not(_) | E::Is(..) | E::In { .. } | E::Between { .. } | E::Like { .. } => true,
        E::Lit(Lit::Bool(_)) | E::Lit(Lit::Null(Ty::Bool)) => true,
        E::Col(n) => matches!(n.as_str(), "f" | "g" | "p"),
        E::Cast { to, .. } => *to == Ty::Bool,
        E::Case { whens, .. } => whens.first().map(|(_, t)| is_bool_shaped(t)).unwrap_or(false),
        E::Fun(Fun::StartsWith, _) => true,
        E::Fun(Fun::Coalesce | Fun::NullIf, a) => a.first().map(is_bool_shaped).unwrap_or(false),
        _ => false,
    }
}
