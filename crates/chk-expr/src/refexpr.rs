//! Independent row-at-a-time reference evaluator (SQL three-valued logic).
//!
//! This module deliberately imports NOTHING from arrow or DataFusion: values
//! are plain Rust enums, expressions are a small AST (`E`) that the checks both
//! translate into DataFusion expressions (in `dfx`) and interpret here.
//!
//! Semantics modelled (they are the *documented / intended* semantics of the
//! engine for the fragment, written from the SQL definitions, not from the
//! kernels):
//!  * NULL propagation, Kleene AND/OR/NOT, IS [NOT] NULL/TRUE/FALSE/UNKNOWN,
//!    IS [NOT] DISTINCT FROM, IN / NOT IN, BETWEEN, CASE (both forms, lazy),
//!    COALESCE (lazy), NULLIF.
//!  * integer arithmetic wraps for + - * (the engine's default), `/` and `%`
//!    truncate towards zero and fail on a zero divisor.
//!  * floats follow IEEE-754 arithmetic; comparisons use the numeric order
//!    with +0.0 = -0.0 (SQL semantics). Any NaN makes the reference decline
//!    (`RefErr::Declined`) instead of guessing a sign bit.
//!  * CAST fails where TRY_CAST gives NULL.
//!  * LIKE / ILIKE with `%`, `_` and `\` escape; regular expressions by a small
//!    backtracking matcher for the pattern subset the generator emits.
use serde::{Deserialize, Serialize};
use std::cmp::Ordering;

#[derive(Clone, Copy, Debug, PartialEq, Eq, Hash, Serialize, Deserialize, PartialOrd, Ord)]
pub enum Ty {
    I32,
    I64,
    F64,
    Str,
    Bool,
    Date,
}

impl Ty {
    pub fn is_int(self) -> bool {
        matches!(self, Ty::I32 | Ty::I64)
    }
    pub fn is_num(self) -> bool {
        matches!(self, Ty::I32 | Ty::I64 | Ty::F64)
    }
}

/// f64 with bitwise Eq/Hash so that expressions can be hashed.
#[derive(Clone, Copy, Debug, Serialize, Deserialize)]
#[serde(transparent)]
pub struct F(pub f64);
impl PartialEq for F {
    fn eq(&self, o: &F) -> bool {
        self.0.to_bits() == o.0.to_bits()
    }
}
impl Eq for F {}
impl std::hash::Hash for F {
    fn hash<H: std::hash::Hasher>(&self, h: &mut H) {
        self.0.to_bits().hash(h)
    }
}

/// A runtime value. NULL carries no type (the static type comes from `type_of`).
#[derive(Clone, Debug, Serialize, Deserialize)]
pub enum V {
    Null,
    I32(i32),
    I64(i64),
    F64(f64),
    Str(String),
    Bool(bool),
    /// days since 1970-01-01
    Date(i32),
}

impl V {
    pub fn is_null(&self) -> bool {
        matches!(self, V::Null)
    }
    /// "Same value" for oracles: NULL = NULL, floats equal by `==` or both NaN
    /// (so +0.0 and -0.0 are the same value), everything else structural.
    pub fn same(&self, o: &V) -> bool {
        match (self, o) {
            (V::Null, V::Null) => true,
            (V::I32(a), V::I32(b)) => a == b,
            (V::I64(a), V::I64(b)) => a == b,
            (V::F64(a), V::F64(b)) => a == b || (a.is_nan() && b.is_nan()),
            (V::Str(a), V::Str(b)) => a == b,
            (V::Bool(a), V::Bool(b)) => a == b,
            (V::Date(a), V::Date(b)) => a == b,
            _ => false,
        }
    }
    /// Same value, and for floats the same bits (except NaN payloads).
    pub fn same_bits(&self, o: &V) -> bool {
        match (self, o) {
            (V::F64(a), V::F64(b)) => a.to_bits() == b.to_bits() || (a.is_nan() && b.is_nan()),
            _ => self.same(o),
        }
    }
    pub fn ty(&self) -> Option<Ty> {
        Some(match self {
            V::Null => return None,
            V::I32(_) => Ty::I32,
            V::I64(_) => Ty::I64,
            V::F64(_) => Ty::F64,
            V::Str(_) => Ty::Str,
            V::Bool(_) => Ty::Bool,
            V::Date(_) => Ty::Date,
        })
    }
}

#[derive(Clone, Debug, PartialEq, Eq, Hash, Serialize, Deserialize)]
pub enum Lit {
    /// typed NULL
    Null(Ty),
    /// the untyped NULL literal
    NullU,
    I32(i32),
    I64(i64),
    F64(F),
    Str(String),
    Bool(bool),
    Date(i32),
}

#[derive(Clone, Copy, Debug, PartialEq, Eq, Hash, Serialize, Deserialize)]
pub enum Op {
    Eq,
    Ne,
    Lt,
    Le,
    Gt,
    Ge,
    Add,
    Sub,
    Mul,
    Div,
    Mod,
    And,
    Or,
    Distinct,
    NotDistinct,
    BitAnd,
    BitOr,
    BitXor,
    Shl,
    Shr,
    /// `~`, `~*`, `!~`, `!~*`
    Re,
    ReI,
    NotRe,
    NotReI,
}

impl Op {
    pub fn is_cmp(self) -> bool {
        matches!(self, Op::Eq | Op::Ne | Op::Lt | Op::Le | Op::Gt | Op::Ge | Op::Distinct | Op::NotDistinct)
    }
    pub fn is_arith(self) -> bool {
        matches!(self, Op::Add | Op::Sub | Op::Mul | Op::Div | Op::Mod)
    }
    pub fn is_bit(self) -> bool {
        matches!(self, Op::BitAnd | Op::BitOr | Op::BitXor | Op::Shl | Op::Shr)
    }
    pub fn is_regex(self) -> bool {
        matches!(self, Op::Re | Op::ReI | Op::NotRe | Op::NotReI)
    }
    /// the operator with operands swapped (`a < b` == `b > a`)
    pub fn mirror(self) -> Option<Op> {
        Some(match self {
            Op::Eq => Op::Eq,
            Op::Ne => Op::Ne,
            Op::Lt => Op::Gt,
            Op::Le => Op::Ge,
            Op::Gt => Op::Lt,
            Op::Ge => Op::Le,
            Op::Distinct => Op::Distinct,
            Op::NotDistinct => Op::NotDistinct,
            _ => return None,
        })
    }
}

#[derive(Clone, Copy, Debug, PartialEq, Eq, Hash, Serialize, Deserialize)]
pub enum IsK {
    Null,
    NotNull,
    True,
    NotTrue,
    False,
    NotFalse,
    Unknown,
    NotUnknown,
}

#[derive(Clone, Copy, Debug, PartialEq, Eq, Hash, Serialize, Deserialize)]
pub enum Fun {
    Coalesce,
    NullIf,
    Abs,
    Upper,
    Lower,
    Concat,
    StartsWith,
    /// date_part('year', x)
    Year,
}

#[derive(Clone, Debug, PartialEq, Eq, Hash, Serialize, Deserialize)]
pub enum E {
    Col(String),
    Lit(Lit),
    Bin(Box<E>, Op, Box<E>),
    Not(Box<E>),
    Neg(Box<E>),
    Is(Box<E>, IsK),
    In { e: Box<E>, list: Vec<E>, neg: bool },
    Between { e: Box<E>, lo: Box<E>, hi: Box<E>, neg: bool },
    Case { operand: Option<Box<E>>, whens: Vec<(E, E)>, els: Option<Box<E>> },
    Cast { e: Box<E>, to: Ty, try_: bool },
    Like { e: Box<E>, pat: Box<E>, neg: bool, ci: bool },
    Fun(Fun, Vec<E>),
}

// ---------------------------------------------------------------- builders
pub fn col(n: &str) -> E {
    E::Col(n.to_string())
}
pub fn li(v: i64) -> E {
    E::Lit(Lit::I64(v))
}
pub fn li32(v: i32) -> E {
    E::Lit(Lit::I32(v))
}
pub fn lf(v: f64) -> E {
    E::Lit(Lit::F64(F(v)))
}
pub fn ls(v: &str) -> E {
    E::Lit(Lit::Str(v.to_string()))
}
pub fn lb(v: bool) -> E {
    E::Lit(Lit::Bool(v))
}
pub fn lnull(t: Ty) -> E {
    E::Lit(Lit::Null(t))
}
pub fn bin(l: E, op: Op, r: E) -> E {
    E::Bin(Box::new(l), op, Box::new(r))
}
pub fn not(e: E) -> E {
    E::Not(Box::new(e))
}
pub fn is(e: E, k: IsK) -> E {
    E::Is(Box::new(e), k)
}
pub fn cast(e: E, to: Ty) -> E {
    E::Cast { e: Box::new(e), to, try_: false }
}
pub fn try_cast(e: E, to: Ty) -> E {
    E::Cast { e: Box::new(e), to, try_: true }
}

impl E {
    pub fn nodes(&self) -> usize {
        let mut n = 1;
        self.for_children(&mut |c| n += c.nodes());
        n
    }
    pub fn depth(&self) -> usize {
        let mut d = 0;
        self.for_children(&mut |c| d = d.max(c.depth() + 1));
        d
    }
    pub fn for_children<'a>(&'a self, f: &mut dyn FnMut(&'a E)) {
        match self {
            E::Col(_) | E::Lit(_) => {}
            E::Bin(l, _, r) => {
                f(l);
                f(r)
            }
            E::Not(e) | E::Neg(e) | E::Is(e, _) | E::Cast { e, .. } => f(e),
            E::In { e, list, .. } => {
                f(e);
                list.iter().for_each(f)
            }
            E::Between { e, lo, hi, .. } => {
                f(e);
                f(lo);
                f(hi)
            }
            E::Case { operand, whens, els } => {
                if let Some(o) = operand {
                    f(o)
                }
                for (w, t) in whens {
                    f(w);
                    f(t)
                }
                if let Some(e) = els {
                    f(e)
                }
            }
            E::Like { e, pat, .. } => {
                f(e);
                f(pat)
            }
            E::Fun(_, args) => args.iter().for_each(f),
        }
    }
    /// column names referenced, sorted, de-duplicated
    pub fn columns(&self) -> Vec<String> {
        fn go(e: &E, out: &mut Vec<String>) {
            if let E::Col(n) = e {
                if !out.contains(n) {
                    out.push(n.clone());
                }
            }
            e.for_children(&mut |c| go(c, out));
        }
        let mut v = vec![];
        go(self, &mut v);
        v.sort();
        v
    }
    pub fn contains(&self, p: &dyn Fn(&E) -> bool) -> bool {
        if p(self) {
            return true;
        }
        let mut found = false;
        self.for_children(&mut |c| {
            if !found && c.contains(p) {
                found = true
            }
        });
        found
    }
}

// ------------------------------------------------------------------ display
impl std::fmt::Display for E {
    fn fmt(&self, f: &mut std::fmt::Formatter<'_>) -> std::fmt::Result {
        match self {
            E::Col(n) => write!(f, "{n}"),
            E::Lit(l) => match l {
                Lit::Null(t) => write!(f, "NULL::{t:?}"),
                Lit::NullU => write!(f, "NULL"),
                Lit::I32(v) => write!(f, "{v}i32"),
                Lit::I64(v) => write!(f, "{v}"),
                Lit::F64(v) => write!(f, "{:?}", v.0),
                Lit::Str(s) => write!(f, "'{s}'"),
                Lit::Bool(b) => write!(f, "{b}"),
                Lit::Date(d) => write!(f, "DATE({d})"),
            },
            E::Bin(l, op, r) => {
                let s = match op {
                    Op::Eq => "=",
                    Op::Ne => "<>",
                    Op::Lt => "<",
                    Op::Le => "<=",
                    Op::Gt => ">",
                    Op::Ge => ">=",
                    Op::Add => "+",
                    Op::Sub => "-",
                    Op::Mul => "*",
                    Op::Div => "/",
                    Op::Mod => "%",
                    Op::And => "AND",
                    Op::Or => "OR",
                    Op::Distinct => "IS DISTINCT FROM",
                    Op::NotDistinct => "IS NOT DISTINCT FROM",
                    Op::BitAnd => "&",
                    Op::BitOr => "|",
                    Op::BitXor => "#",
                    Op::Shl => "<<",
                    Op::Shr => ">>",
                    Op::Re => "~",
                    Op::ReI => "~*",
                    Op::NotRe => "!~",
                    Op::NotReI => "!~*",
                };
                write!(f, "({l} {s} {r})")
            }
            E::Not(e) => write!(f, "(NOT {e})"),
            E::Neg(e) => write!(f, "(- {e})"),
            E::Is(e, k) => {
                let s = match k {
                    IsK::Null => "IS NULL",
                    IsK::NotNull => "IS NOT NULL",
                    IsK::True => "IS TRUE",
                    IsK::NotTrue => "IS NOT TRUE",
                    IsK::False => "IS FALSE",
                    IsK::NotFalse => "IS NOT FALSE",
                    IsK::Unknown => "IS UNKNOWN",
                    IsK::NotUnknown => "IS NOT UNKNOWN",
                };
                write!(f, "({e} {s})")
            }
            E::In { e, list, neg } => {
                write!(f, "({e} {}IN (", if *neg { "NOT " } else { "" })?;
                for (i, x) in list.iter().enumerate() {
                    if i > 0 {
                        write!(f, ", ")?;
                    }
                    write!(f, "{x}")?;
                }
                write!(f, "))")
            }
            E::Between { e, lo, hi, neg } => {
                write!(f, "({e} {}BETWEEN {lo} AND {hi})", if *neg { "NOT " } else { "" })
            }
            E::Case { operand, whens, els } => {
                write!(f, "CASE")?;
                if let Some(o) = operand {
                    write!(f, " {o}")?;
                }
                for (w, t) in whens {
                    write!(f, " WHEN {w} THEN {t}")?;
                }
                if let Some(e) = els {
                    write!(f, " ELSE {e}")?;
                }
                write!(f, " END")
            }
            E::Cast { e, to, try_ } => write!(f, "{}CAST({e} AS {to:?})", if *try_ { "TRY_" } else { "" }),
            E::Like { e, pat, neg, ci } => {
                write!(f, "({e} {}{} {pat})", if *neg { "NOT " } else { "" }, if *ci { "ILIKE" } else { "LIKE" })
            }
            E::Fun(fun, args) => {
                write!(f, "{fun:?}(")?;
                for (i, x) in args.iter().enumerate() {
                    if i > 0 {
                        write!(f, ", ")?;
                    }
                    write!(f, "{x}")?;
                }
                write!(f, ")")
            }
        }
    }
}

// ------------------------------------------------------------------- typing
/// Static type of an expression. `None` inside `Ok` = "untyped NULL".
/// `Err` = the generator should not have produced this tree (ill-typed).
pub type Schema<'a> = &'a dyn Fn(&str) -> Option<Ty>;

fn unify(a: Option<Ty>, b: Option<Ty>) -> Result<Option<Ty>, String> {
    match (a, b) {
        (None, x) | (x, None) => Ok(x),
        (Some(x), Some(y)) if x == y => Ok(Some(x)),
        (Some(x), Some(y)) if x.is_num() && y.is_num() => {
            Ok(Some(if x == Ty::F64 || y == Ty::F64 {
                Ty::F64
            } else {
                Ty::I64
            }))
        }
        (Some(x), Some(y)) => Err(format!("cannot unify {x:?} with {y:?}")),
    }
}

pub fn type_of(e: &E, sch: Schema) -> Result<Option<Ty>, String> {
    Ok(match e {
        E::Col(n) => Some(sch(n).ok_or_else(|| format!("no column {n}"))?),
        E::Lit(l) => match l {
            Lit::Null(t) => Some(*t),
            Lit::NullU => None,
            Lit::I32(_) => Some(Ty::I32),
            Lit::I64(_) => Some(Ty::I64),
            Lit::F64(_) => Some(Ty::F64),
            Lit::Str(_) => Some(Ty::Str),
            Lit::Bool(_) => Some(Ty::Bool),
            Lit::Date(_) => Some(Ty::Date),
        },
        E::Bin(l, op, r) => {
            let (lt, rt) = (type_of(l, sch)?, type_of(r, sch)?);
            if op.is_cmp() {
                unify(lt, rt)?;
                Some(Ty::Bool)
            } else if op.is_arith() {
                let t = unify(lt, rt)?;
                match t {
                    Some(t) if t.is_num() => Some(t),
                    _ => return Err("arith on non-numeric".into()),
                }
            } else if op.is_bit() {
                let t = unify(lt, rt)?;
                match t {
                    Some(t) if t.is_int() => Some(t),
                    _ => return Err("bit op on non-int".into()),
                }
            } else if op.is_regex() {
                if unify(lt, Some(Ty::Str))? != Some(Ty::Str) || unify(rt, Some(Ty::Str))? != Some(Ty::Str) {
                    return Err("regex on non-string".into());
                }
                Some(Ty::Bool)
            } else {
                // And / Or
                unify(lt, Some(Ty::Bool))?;
                unify(rt, Some(Ty::Bool))?;
                Some(Ty::Bool)
            }
        }
        E::Not(x) => {
            unify(type_of(x, sch)?, Some(Ty::Bool))?;
            Some(Ty::Bool)
        }
        E::Neg(x) => match type_of(x, sch)? {
            Some(t) if t.is_num() => Some(t),
            _ => return Err("neg on non-numeric".into()),
        },
        E::Is(x, k) => {
            let t = type_of(x, sch)?;
            if !matches!(k, IsK::Null | IsK::NotNull) {
                unify(t, Some(Ty::Bool))?;
            }
            Some(Ty::Bool)
        }
        E::In { e, list, .. } => {
            let mut t = type_of(e, sch)?;
            for x in list {
                t = unify(t, type_of(x, sch)?)?;
            }
            Some(Ty::Bool)
        }
        E::Between { e, lo, hi, .. } => {
            let t = unify(type_of(e, sch)?, type_of(lo, sch)?)?;
            unify(t, type_of(hi, sch)?)?;
            Some(Ty::Bool)
        }
        E::Case { operand, whens, els } => {
            let mut wt = match operand {
                Some(o) => type_of(o, sch)?,
                None => Some(Ty::Bool),
            };
            let mut t = None;
            for (w, th) in whens {
                wt = unify(wt, type_of(w, sch)?)?;
                t = unify(t, type_of(th, sch)?)?;
            }
            if let Some(e) = els {
                t = unify(t, type_of(e, sch)?)?;
            }
            t
        }
        E::Cast { e, to, .. } => {
            type_of(e, sch)?;
            Some(*to)
        }
        E::Like { e, pat, .. } => {
            unify(type_of(e, sch)?, Some(Ty::Str))?;
            unify(type_of(pat, sch)?, Some(Ty::Str))?;
            Some(Ty::Bool)
        }
        E::Fun(fun, args) => {
            let ts: Result<Vec<_>, _> = args.iter().map(|a| type_of(a, sch)).collect();
            let ts = ts?;
            match fun {
                Fun::Coalesce => {
                    let mut t = None;
                    for x in ts {
                        t = unify(t, x)?;
                    }
                    t
                }
                Fun::NullIf => {
                    unify(ts[0], ts[1])?;
                    ts[0]
                }
                Fun::Abs => match ts[0] {
                    Some(t) if t.is_num() => Some(t),
                    _ => return Err("abs on non-numeric".into()),
                },
                Fun::Upper | Fun::Lower => {
                    unify(ts[0], Some(Ty::Str))?;
                    Some(Ty::Str)
                }
                Fun::Concat => {
                    for x in ts {
                        unify(x, Some(Ty::Str))?;
                    }
                    Some(Ty::Str)
                }
                Fun::StartsWith => {
                    unify(ts[0], Some(Ty::Str))?;
                    unify(ts[1], Some(Ty::Str))?;
                    Some(Ty::Bool)
                }
                Fun::Year => {
                    unify(ts[0], Some(Ty::Date))?;
                    Some(Ty::I32)
                }
            }
        }
    })
}

// --------------------------------------------------------------- evaluation
#[derive(Clone, Debug, PartialEq)]
pub enum RefErr {
    /// the row makes the expression fail (division by zero, cast failure, ...)
    Fails(String),
    /// the reference does not model this situation (NaN, exotic strings, ...)
    Declined(String),
}

pub type R = Result<V, RefErr>;

fn fails<T>(s: &str) -> Result<T, RefErr> {
    Err(RefErr::Fails(s.to_string()))
}
fn declined<T>(s: &str) -> Result<T, RefErr> {
    Err(RefErr::Declined(s.to_string()))
}

/// A row: column name -> value.
pub type Row<'a> = &'a dyn Fn(&str) -> V;

fn ckf(x: f64) -> R {
    if x.is_nan() {
        declined("NaN")
    } else {
        Ok(V::F64(x))
    }
}

/// numeric promotion of two non-null values to a common representation
enum Pair {
    I32(i32, i32),
    I64(i64, i64),
    F64(f64, f64),
    Str(String, String),
    Bool(bool, bool),
    Date(i32, i32),
}

fn promote(a: &V, b: &V) -> Result<Pair, RefErr> {
    Ok(match (a, b) {
        (V::I32(x), V::I32(y)) => Pair::I32(*x, *y),
        (V::I64(x), V::I64(y)) => Pair::I64(*x, *y),
        (V::I32(x), V::I64(y)) => Pair::I64(*x as i64, *y),
        (V::I64(x), V::I32(y)) => Pair::I64(*x, *y as i64),
        (V::F64(x), V::F64(y)) => Pair::F64(*x, *y),
        (V::F64(x), V::I64(y)) => Pair::F64(*x, *y as f64),
        (V::I64(x), V::F64(y)) => Pair::F64(*x as f64, *y),
        (V::F64(x), V::I32(y)) => Pair::F64(*x, *y as f64),
        (V::I32(x), V::F64(y)) => Pair::F64(*x as f64, *y),
        (V::Str(x), V::Str(y)) => Pair::Str(x.clone(), y.clone()),
        (V::Bool(x), V::Bool(y)) => Pair::Bool(*x, *y),
        (V::Date(x), V::Date(y)) => Pair::Date(*x, *y),
        _ => return declined("mixed-type operands"),
    })
}

/// three-valued comparison; `None` = NULL
pub fn compare(a: &V, b: &V) -> Result<Option<Ordering>, RefErr> {
    if a.is_null() || b.is_null() {
        return Ok(None);
    }
    Ok(Some(match promote(a, b)? {
        Pair::I32(x, y) => x.cmp(&y),
        Pair::I64(x, y) => x.cmp(&y),
        Pair::F64(x, y) => {
            if x.is_nan() || y.is_nan() {
                return declined("NaN");
            }
            // SQL semantics: +0.0 and -0.0 are equal; otherwise the usual order
            if x == y { Ordering::Equal } else { x.total_cmp(&y) }
        }
        Pair::Str(x, y) => x.as_bytes().cmp(y.as_bytes()),
        Pair::Bool(x, y) => x.cmp(&y),
        Pair::Date(x, y) => x.cmp(&y),
    }))
}

fn b3(x: Option<bool>) -> V {
    match x {
        Some(b) => V::Bool(b),
        None => V::Null,
    }
}
fn as_b3(v: &V) -> Result<Option<bool>, RefErr> {
    match v {
        V::Null => Ok(None),
        V::Bool(b) => Ok(Some(*b)),
        _ => declined("non-boolean in boolean position"),
    }
}

pub fn and3(a: Option<bool>, b: Option<bool>) -> Option<bool> {
    match (a, b) {
        (Some(false), _) | (_, Some(false)) => Some(false),
        (Some(true), Some(true)) => Some(true),
        _ => None,
    }
}
pub fn or3(a: Option<bool>, b: Option<bool>) -> Option<bool> {
    match (a, b) {
        (Some(true), _) | (_, Some(true)) => Some(true),
        (Some(false), Some(false)) => Some(false),
        _ => None,
    }
}

fn cmp_op(op: Op, a: &V, b: &V) -> R {
    let c = compare(a, b)?;
    Ok(match op {
        Op::Distinct => V::Bool(match c {
            Some(o) => o != Ordering::Equal,
            None => !(a.is_null() && b.is_null()),
        }),
        Op::NotDistinct => V::Bool(match c {
            Some(o) => o == Ordering::Equal,
            None => a.is_null() && b.is_null(),
        }),
        _ => b3(c.map(|o| match op {
            Op::Eq => o == Ordering::Equal,
            Op::Ne => o != Ordering::Equal,
            Op::Lt => o == Ordering::Less,
            Op::Le => o != Ordering::Greater,
            Op::Gt => o == Ordering::Greater,
            Op::Ge => o != Ordering::Less,
            _ => unreachable!(),
        })),
    })
}

fn arith(op: Op, a: &V, b: &V) -> R {
    if a.is_null() || b.is_null() {
        return Ok(V::Null);
    }
    match promote(a, b)? {
        Pair::I32(x, y) => Ok(V::I32(match op {
            Op::Add => x.wrapping_add(y),
            Op::Sub => x.wrapping_sub(y),
            Op::Mul => x.wrapping_mul(y),
            Op::Div => {
                if y == 0 {
                    return fails("divide by zero");
                }
                x.checked_div(y).ok_or(RefErr::Fails("overflow".into()))?
            }
            Op::Mod => {
                if y == 0 {
                    return fails("divide by zero");
                }
                x.checked_rem(y).ok_or(RefErr::Declined("MIN % -1".into()))?
            }
            Op::BitAnd => x & y,
            Op::BitOr => x | y,
            Op::BitXor => x ^ y,
            Op::Shl | Op::Shr => {
                if !(0..32).contains(&y) {
                    return declined("shift amount out of range");
                }
                if op == Op::Shl { x.wrapping_shl(y as u32) } else { x.wrapping_shr(y as u32) }
            }
            _ => unreachable!(),
        })),
        Pair::I64(x, y) => Ok(V::I64(match op {
            Op::Add => x.wrapping_add(y),
            Op::Sub => x.wrapping_sub(y),
            Op::Mul => x.wrapping_mul(y),
            Op::Div => {
                if y == 0 {
                    return fails("divide by zero");
                }
                x.checked_div(y).ok_or(RefErr::Fails("overflow".into()))?
            }
            Op::Mod => {
                if y == 0 {
                    return fails("divide by zero");
                }
                x.checked_rem(y).ok_or(RefErr::Declined("MIN % -1".into()))?
            }
            Op::BitAnd => x & y,
            Op::BitOr => x | y,
            Op::BitXor => x ^ y,
            Op::Shl | Op::Shr => {
                if !(0..64).contains(&y) {
                    return declined("shift amount out of range");
                }
                if op == Op::Shl { x.wrapping_shl(y as u32) } else { x.wrapping_shr(y as u32) }
            }
            _ => unreachable!(),
        })),
        Pair::F64(x, y) => ckf(match op {
            Op::Add => x + y,
            Op::Sub => x - y,
            Op::Mul => x * y,
            Op::Div => x / y,
            Op::Mod => x % y,
            _ => return declined("bit op on float"),
        }),
        _ => declined("arithmetic on non-numeric"),
    }
}

// ------------------------------------------------------------------- LIKE
/// SQL LIKE with `%`, `_`, and `\` as the escape character.
pub fn like_match(text: &str, pat: &str, ci: bool) -> bool {
    #[derive(Clone, Copy)]
    enum P {
        Any,
        One,
        Ch(char),
    }
    let fold = |c: char| if ci { c.to_lowercase().next().unwrap_or(c) } else { c };
    let mut ps = vec![];
    let mut it = pat.chars();
    while let Some(c) = it.next() {
        match c {
            '%' => ps.push(P::Any),
            '_' => ps.push(P::One),
            '\\' => match it.next() {
                Some(n) => ps.push(P::Ch(fold(n))),
                None => ps.push(P::Ch('\\')),
            },
            c => ps.push(P::Ch(fold(c))),
        }
    }
    let t: Vec<char> = text.chars().map(fold).collect();
    fn go(t: &[char], p: &[P]) -> bool {
        match p.first() {
            None => t.is_empty(),
            Some(P::Any) => (0..=t.len()).any(|k| go(&t[k..], &p[1..])),
            Some(P::One) => !t.is_empty() && go(&t[1..], &p[1..]),
            Some(P::Ch(c)) => t.first() == Some(c) && go(&t[1..], &p[1..]),
        }
    }
    go(&t, &ps)
}

// ------------------------------------------------------------------ regex
/// Tiny backtracking regex: literals, `.`, `^`, `$`, `( | )`, postfix `* + ?`.
/// Unanchored search (like the engine's `~`). Returns None for patterns
/// outside the subset.
#[derive(Debug, Clone)]
enum Rx {
    Ch(char),
    Any,
    Start,
    End,
    Alt(Vec<Vec<Rx>>),
    Star(Box<Rx>),
    Plus(Box<Rx>),
    Opt(Box<Rx>),
}

fn rx_parse_alt(cs: &[char], i: &mut usize) -> Option<Vec<Vec<Rx>>> {
    let mut alts = vec![vec![]];
    while *i < cs.len() {
        let c = cs[*i];
        match c {
            ')' => break,
            '|' => {
                *i += 1;
                alts.push(vec![]);
                continue;
            }
            '(' => {
                *i += 1;
                let inner = rx_parse_alt(cs, i)?;
                if *i >= cs.len() || cs[*i] != ')' {
                    return None;
                }
                *i += 1;
                alts.last_mut().unwrap().push(Rx::Alt(inner));
            }
            '^' => {
                *i += 1;
                alts.last_mut().unwrap().push(Rx::Start)
            }
            '$' => {
                *i += 1;
                alts.last_mut().unwrap().push(Rx::End)
            }
            '.' => {
                *i += 1;
                alts.last_mut().unwrap().push(Rx::Any)
            }
            '*' | '+' | '?' => {
                *i += 1;
                let cur = alts.last_mut().unwrap();
                let last = cur.pop()?;
                if matches!(last, Rx::Start | Rx::End | Rx::Star(_) | Rx::Plus(_) | Rx::Opt(_)) {
                    return None;
                }
                cur.push(match c {
                    '*' => Rx::Star(Box::new(last)),
                    '+' => Rx::Plus(Box::new(last)),
                    _ => Rx::Opt(Box::new(last)),
                });
            }
            '\\' | '[' | ']' | '{' | '}' => return None,
            c => {
                *i += 1;
                alts.last_mut().unwrap().push(Rx::Ch(c))
            }
        }
    }
    Some(alts)
}

fn rx_match_seq(seq: &[Rx], t: &[char], pos: usize, ci: bool, k: &mut dyn FnMut(usize) -> bool) -> bool {
    let Some(first) = seq.first() else {
        return k(pos);
    };
    let rest = &seq[1..];
    let eqc = |a: char, b: char| if ci { a.to_ascii_lowercase() == b.to_ascii_lowercase() } else { a == b };
    match first {
        Rx::Ch(c) => pos < t.len() && eqc(t[pos], *c) && rx_match_seq(rest, t, pos + 1, ci, k),
        Rx::Any => pos < t.len() && t[pos] != '\n' && rx_match_seq(rest, t, pos + 1, ci, k),
        Rx::Start => pos == 0 && rx_match_seq(rest, t, pos, ci, k),
        Rx::End => pos == t.len() && rx_match_seq(rest, t, pos, ci, k),
        Rx::Alt(alts) => alts.iter().any(|a| rx_match_seq(a, t, pos, ci, &mut |p| rx_match_seq(rest, t, p, ci, k))),
        Rx::Opt(x) => {
            rx_match_seq(std::slice::from_ref(x), t, pos, ci, &mut |p| rx_match_seq(rest, t, p, ci, k))
                || rx_match_seq(rest, t, pos, ci, k)
        }
        Rx::Star(x) => {
            // zero, or one-then-star (guard against empty-width loops)
            rx_match_seq(rest, t, pos, ci, k)
                || rx_match_seq(std::slice::from_ref(x), t, pos, ci, &mut |p| {
                    p > pos && rx_match_seq(seq, t, p, ci, k)
                })
        }
        Rx::Plus(x) => {
            let mut full: Vec<Rx> = vec![(**x).clone(), Rx::Star(x.clone())];
            full.extend_from_slice(rest);
            rx_match_seq(&full, t, pos, ci, k)
        }
    }
}

pub fn regex_is_match(text: &str, pat: &str, ci: bool) -> Option<bool> {
    let cs: Vec<char> = pat.chars().collect();
    let mut i = 0;
    let alts = rx_parse_alt(&cs, &mut i)?;
    if i != cs.len() {
        return None;
    }
    let t: Vec<char> = text.chars().collect();
    let top = [Rx::Alt(alts)];
    Some((0..=t.len()).any(|s| rx_match_seq(&top, &t, s, ci, &mut |_| true)))
}

// -------------------------------------------------------------------- casts
fn fmt_f64(x: f64) -> Result<String, RefErr> {
    if !x.is_finite() {
        return declined("non-finite float to string");
    }
    if x != 0.0 && !(1e-5..1e15).contains(&x.abs()) {
        return declined("float needing exponent notation");
    }
    // shortest round-trip decimal with at least one fractional digit
    Ok(format!("{x:?}"))
}

fn parse_i64(s: &str) -> Option<i64> {
    // optional sign, then one or more ASCII digits, nothing else
    let b = s.as_bytes();
    let digits = match b.first() {
        Some(b'+') | Some(b'-') => &b[1..],
        _ => b,
    };
    if digits.is_empty() || !digits.iter().all(|c| c.is_ascii_digit()) {
        return None;
    }
    s.parse::<i64>().ok()
}

fn parse_f64(s: &str) -> Result<Option<f64>, RefErr> {
    let plain = {
        let b = s.as_bytes();
        let body = match b.first() {
            Some(b'-') => &b[1..],
            _ => b,
        };
        let mut parts = body.split(|c| *c == b'.');
        let ip = parts.next().unwrap_or(&[]);
        let fp = parts.next();
        parts.next().is_none()
            && !ip.is_empty()
            && ip.iter().all(|c| c.is_ascii_digit())
            && fp.map(|f| !f.is_empty() && f.iter().all(|c| c.is_ascii_digit())).unwrap_or(true)
    };
    if plain {
        return Ok(s.parse::<f64>().ok());
    }
    // clearly not a number: empty, or contains a character that no float
    // syntax uses
    let exotic = "0123456789.+-eEinfatyINFATY";
    if s.is_empty() || s.chars().any(|c| !exotic.contains(c)) {
        return Ok(None);
    }
    declined("float syntax not modelled")
}

fn parse_bool(s: &str) -> Option<bool> {
    match s.to_ascii_lowercase().as_str() {
        "t" | "tr" | "tru" | "true" | "y" | "ye" | "yes" | "on" | "1" => Some(true),
        "f" | "fa" | "fal" | "fals" | "false" | "n" | "no" | "of" | "off" | "0" => Some(false),
        _ => None,
    }
}

/// `Ok(None)` = the value cannot be converted (CAST fails, TRY_CAST -> NULL)
fn cast_value(v: &V, to: Ty) -> Result<Option<V>, RefErr> {
    Ok(Some(match (v, to) {
        (V::Null, _) => V::Null,
        (V::I32(x), Ty::I32) => V::I32(*x),
        (V::I32(x), Ty::I64) => V::I64(*x as i64),
        (V::I32(x), Ty::F64) => V::F64(*x as f64),
        (V::I32(x), Ty::Str) => V::Str(x.to_string()),
        (V::I32(x), Ty::Bool) => V::Bool(*x != 0),
        (V::I64(x), Ty::I32) => match i32::try_from(*x) {
            Ok(y) => V::I32(y),
            Err(_) => return Ok(None),
        },
        (V::I64(x), Ty::I64) => V::I64(*x),
        (V::I64(x), Ty::F64) => V::F64(*x as f64),
        (V::I64(x), Ty::Str) => V::Str(x.to_string()),
        (V::I64(x), Ty::Bool) => V::Bool(*x != 0),
        (V::F64(x), Ty::F64) => V::F64(*x),
        (V::F64(x), Ty::I64) => {
            if x.is_nan() {
                return declined("NaN");
            }
            let t = x.trunc();
            if !t.is_finite() || t < -9.2e18 || t > 9.2e18 {
                return Ok(None);
            }
            V::I64(t as i64)
        }
        (V::F64(x), Ty::I32) => {
            if x.is_nan() {
                return declined("NaN");
            }
            let t = x.trunc();
            if !t.is_finite() || t < i32::MIN as f64 || t > i32::MAX as f64 {
                return Ok(None);
            }
            V::I32(t as i32)
        }
        (V::F64(x), Ty::Str) => V::Str(fmt_f64(*x)?),
        (V::F64(x), Ty::Bool) => {
            if x.is_nan() {
                return declined("NaN");
            }
            V::Bool(*x != 0.0)
        }
        (V::Str(s), Ty::Str) => V::Str(s.clone()),
        (V::Str(s), Ty::I64) => match parse_i64(s) {
            Some(x) => V::I64(x),
            None => return Ok(None),
        },
        (V::Str(s), Ty::I32) => match parse_i64(s).and_then(|x| i32::try_from(x).ok()) {
            Some(x) => V::I32(x),
            None => return Ok(None),
        },
        (V::Str(s), Ty::F64) => match parse_f64(s)? {
            Some(x) => V::F64(x),
            None => return Ok(None),
        },
        (V::Str(s), Ty::Bool) => match parse_bool(s) {
            Some(b) => V::Bool(b),
            None => return Ok(None),
        },
        (V::Bool(b), Ty::Bool) => V::Bool(*b),
        (V::Bool(b), Ty::I32) => V::I32(*b as i32),
        (V::Bool(b), Ty::I64) => V::I64(*b as i64),
        (V::Bool(b), Ty::F64) => V::F64(*b as i32 as f64),
        (V::Bool(b), Ty::Str) => V::Str(b.to_string()),
        (V::Date(d), Ty::Date) => V::Date(*d),
        _ => return declined("cast not modelled"),
    }))
}

/// civil year of a day number (days since 1970-01-01), proleptic Gregorian
pub fn year_of_days(z: i32) -> i32 {
    // Howard Hinnant's civil_from_days
    let z = z as i64 + 719468;
    let era = if z >= 0 { z } else { z - 146096 } / 146097;
    let doe = z - era * 146097;
    let yoe = (doe - doe / 1460 + doe / 36524 - doe / 146096) / 365;
    let y = yoe + era * 400;
    let doy = doe - (365 * yoe + yoe / 4 - yoe / 100);
    let mp = (5 * doy + 2) / 153;
    let m = if mp < 10 { mp + 3 } else { mp - 9 };
    (if m <= 2 { y + 1 } else { y }) as i32
}

/// days since epoch of a civil date
pub fn days_of(y: i32, m: u32, d: u32) -> i32 {
    let y = if m <= 2 { y as i64 - 1 } else { y as i64 };
    let era = if y >= 0 { y } else { y - 399 } / 400;
    let yoe = y - era * 400;
    let mp = (m as i64 + 9) % 12;
    let doy = (153 * mp + 2) / 5 + d as i64 - 1;
    let doe = yoe * 365 + yoe / 4 - yoe / 100 + doy;
    (era * 146097 + doe - 719468) as i32
}

/// Evaluate `e` on one row.
pub fn eval(e: &E, row: Row) -> R {
    match e {
        E::Col(n) => Ok(row(n)),
        E::Lit(l) => Ok(match l {
            Lit::Null(_) | Lit::NullU => V::Null,
            Lit::I32(v) => V::I32(*v),
            Lit::I64(v) => V::I64(*v),
            Lit::F64(v) => V::F64(v.0),
            Lit::Str(s) => V::Str(s.clone()),
            Lit::Bool(b) => V::Bool(*b),
            Lit::Date(d) => V::Date(*d),
        }),
        E::Bin(l, op, r) => {
            let (a, b) = (eval(l, row)?, eval(r, row)?);
            match op {
                Op::And => Ok(b3(and3(as_b3(&a)?, as_b3(&b)?))),
                Op::Or => Ok(b3(or3(as_b3(&a)?, as_b3(&b)?))),
                o if o.is_cmp() => cmp_op(*o, &a, &b),
                o if o.is_arith() || o.is_bit() => arith(*o, &a, &b),
                Op::Re | Op::ReI | Op::NotRe | Op::NotReI => match (&a, &b) {
                    (V::Null, _) | (_, V::Null) => Ok(V::Null),
                    (V::Str(t), V::Str(p)) => {
                        let ci = matches!(op, Op::ReI | Op::NotReI);
                        let neg = matches!(op, Op::NotRe | Op::NotReI);
                        match regex_is_match(t, p, ci) {
                            Some(m) => Ok(V::Bool(m != neg)),
                            None => declined("regex outside the modelled subset"),
                        }
                    }
                    _ => declined("regex on non-strings"),
                },
                _ => unreachable!(),
            }
        }
        E::Not(x) => Ok(b3(as_b3(&eval(x, row)?)?.map(|b| !b))),
        E::Neg(x) => Ok(match eval(x, row)? {
            V::Null => V::Null,
            V::I32(v) => V::I32(v.wrapping_neg()),
            V::I64(v) => V::I64(v.wrapping_neg()),
            V::F64(v) => return ckf(-v),
            _ => return declined("neg on non-numeric"),
        }),
        E::Is(x, k) => {
            let v = eval(x, row)?;
            Ok(V::Bool(match k {
                IsK::Null => v.is_null(),
                IsK::NotNull => !v.is_null(),
                IsK::True => as_b3(&v)? == Some(true),
                IsK::NotTrue => as_b3(&v)? != Some(true),
                IsK::False => as_b3(&v)? == Some(false),
                IsK::NotFalse => as_b3(&v)? != Some(false),
                IsK::Unknown => as_b3(&v)?.is_none(),
                IsK::NotUnknown => as_b3(&v)?.is_some(),
            }))
        }
        E::In { e, list, neg } => {
            let v = eval(e, row)?;
            // strict: all items are evaluated
            let mut acc = Some(false);
            for it in list {
                let iv = eval(it, row)?;
                let eq = compare(&v, &iv)?.map(|o| o == Ordering::Equal);
                acc = or3(acc, eq);
            }
            Ok(b3(acc.map(|b| b != *neg)))
        }
        E::Between { e, lo, hi, neg } => {
            let (v, l, h) = (eval(e, row)?, eval(lo, row)?, eval(hi, row)?);
            let ge = compare(&v, &l)?.map(|o| o != Ordering::Less);
            let le = compare(&v, &h)?.map(|o| o != Ordering::Greater);
            Ok(b3(and3(ge, le).map(|b| b != *neg)))
        }
        E::Case { operand, whens, els } => {
            let ov = match operand {
                Some(o) => Some(eval(o, row)?),
                None => None,
            };
            for (w, t) in whens {
                let wv = eval(w, row)?;
                let hit = match &ov {
                    Some(o) => compare(o, &wv)?.map(|c| c == Ordering::Equal) == Some(true),
                    None => as_b3(&wv)? == Some(true),
                };
                if hit {
                    return eval(t, row);
                }
            }
            match els {
                Some(x) => eval(x, row),
                None => Ok(V::Null),
            }
        }
        E::Cast { e, to, try_ } => {
            let v = eval(e, row)?;
            match cast_value(&v, *to)? {
                Some(x) => Ok(x),
                None if *try_ => Ok(V::Null),
                None => fails("cast"),
            }
        }
        E::Like { e, pat, neg, ci } => match (eval(e, row)?, eval(pat, row)?) {
            (V::Null, _) | (_, V::Null) => Ok(V::Null),
            (V::Str(t), V::Str(p)) => Ok(V::Bool(like_match(&t, &p, *ci) != *neg)),
            _ => declined("LIKE on non-strings"),
        },
        E::Fun(fun, args) => match fun {
            Fun::Coalesce => {
                for a in args {
                    let v = eval(a, row)?;
                    if !v.is_null() {
                        return Ok(v);
                    }
                }
                Ok(V::Null)
            }
            Fun::NullIf => {
                let (a, b) = (eval(&args[0], row)?, eval(&args[1], row)?);
                if compare(&a, &b)? == Some(Ordering::Equal) { Ok(V::Null) } else { Ok(a) }
            }
            Fun::Abs => Ok(match eval(&args[0], row)? {
                V::Null => V::Null,
                V::I32(v) => V::I32(v.checked_abs().ok_or(RefErr::Fails("abs overflow".into()))?),
                V::I64(v) => V::I64(v.checked_abs().ok_or(RefErr::Fails("abs overflow".into()))?),
                V::F64(v) => return ckf(v.abs()),
                _ => return declined("abs on non-numeric"),
            }),
            Fun::Upper | Fun::Lower => Ok(match eval(&args[0], row)? {
                V::Null => V::Null,
                V::Str(s) => V::Str(if *fun == Fun::Upper { s.to_uppercase() } else { s.to_lowercase() }),
                _ => return declined("upper/lower on non-string"),
            }),
            Fun::Concat => {
                // NULL arguments are skipped; the result is never NULL
                let mut out = String::new();
                for a in args {
                    match eval(a, row)? {
                        V::Null => {}
                        V::Str(s) => out.push_str(&s),
                        _ => return declined("concat on non-string"),
                    }
                }
                Ok(V::Str(out))
            }
            Fun::StartsWith => match (eval(&args[0], row)?, eval(&args[1], row)?) {
                (V::Null, _) | (_, V::Null) => Ok(V::Null),
                (V::Str(s), V::Str(p)) => Ok(V::Bool(s.starts_with(p.as_str()))),
                _ => declined("starts_with on non-strings"),
            },
            Fun::Year => Ok(match eval(&args[0], row)? {
                V::Null => V::Null,
                V::Date(d) => V::I32(year_of_days(d)),
                _ => return declined("year of non-date"),
            }),
        },
    }
}

/// Values of a typed result are normalised to the static type (numeric
/// promotion of CASE / COALESCE arms etc.).
pub fn coerce_to(v: V, t: Option<Ty>) -> V {
    match (v, t) {
        (V::I32(x), Some(Ty::I64)) => V::I64(x as i64),
        (V::I32(x), Some(Ty::F64)) => V::F64(x as f64),
        (V::I64(x), Some(Ty::F64)) => V::F64(x as f64),
        (v, _) => v,
    }
}

#[cfg(test)]
mod tests {
    use super::*;
    #[test]
    fn like_and_regex() {
        assert!(like_match("ab", "a%", false));
        assert!(like_match("ab", "a_", false));
        assert!(!like_match("a", "a_", false));
        assert!(like_match("A", "a", true));
        assert!(like_match("", "%", false));
        assert!(like_match("a%", "a\\%", false));
        assert_eq!(regex_is_match("ab", "^a", false), Some(true));
        assert_eq!(regex_is_match("ba", "^a", false), Some(false));
        assert_eq!(regex_is_match("ba", "a$", false), Some(true));
        assert_eq!(regex_is_match("ab", "^(a|b)$", false), Some(false));
        assert_eq!(regex_is_match("b", "^(a|b)$", false), Some(true));
        assert_eq!(regex_is_match("", ".*", false), Some(true));
        assert_eq!(regex_is_match("A", "a", true), Some(true));
        assert_eq!(regex_is_match("xab", "a.*b|1", false), Some(true));
        assert_eq!(regex_is_match("aa", "^a+$", false), Some(true));
    }
    #[test]
    fn dates() {
        assert_eq!(days_of(1970, 1, 1), 0);
        assert_eq!(days_of(2024, 1, 1), 19723);
        assert_eq!(year_of_days(19722), 2023);
        assert_eq!(year_of_days(19723), 2024);
        assert_eq!(year_of_days(days_of(2024, 12, 31)), 2024);
    }
}
