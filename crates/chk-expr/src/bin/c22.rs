//! C22 — statistics-based pruning never skips a container with a matching row,
//! and every literal guarantee derived from a predicate holds on every row for
//! which the predicate is true.
//!
//! Bounded-exhaustive: every predicate of a small grammar (an atom menu,
//! NOT/AND/OR up to a depth) × every container that is a multiset of at most
//! `n` rows over the small value domains of the referenced columns × every
//! pattern in which each statistic (min, max, null count, `contained` answer
//! per column; row count) is independently known or unknown. Statistics are
//! computed exactly from the rows, never wrong. Oracle: a container the
//! implementation says can be skipped must not contain a row on which the
//! predicate is TRUE according to the check's own three-valued evaluator
//! (`c22/model.rs`) — and, to rule out a harness mistake, also according to the
//! real physical expression.
#[path = "c22/model.rs"]
mod model;
#[path = "c22/stats.rs"]
mod stats;

use arrow::array::{Array, ArrayRef, BooleanArray, RecordBatch};
use datafusion_common::DFSchema;
use datafusion_common::pruning::PruningStatistics;
use datafusion_expr::execution_props::ExecutionProps;
use datafusion_expr::physical_planning_context::PhysicalPlanningContext;
use datafusion_physical_expr::utils::{Guarantee, LiteralGuarantee};
use datafusion_physical_expr::{PhysicalExpr, create_physical_expr};
use datafusion_pruning::PruningPredicateBuilder;
use mc_core::serde_json::{Value, json};
use mc_core::{Ctx, Level, rayon::prelude::*, run_check};
use model::{COLS, P, Row, T, V, atoms, rows_over, schema};
use serde::{Deserialize, Serialize};
use stats::{Cont, MyStats, multisets, patterns, prunable, scalar_to_v};
use std::collections::BTreeMap;
use std::sync::atomic::{AtomicU64, Ordering};
use std::sync::{Arc, Mutex};

#[derive(Serialize, Deserialize, Clone, Debug, Hash)]
struct Case {
    pred: P,
    /// `PruningPredicateBuilder::with_max_in_list_size`
    max_in_list: usize,
    /// "custom" = the check's PruningStatistics (with `contained`), "prunable" =
    /// DataFusion's PrunableStatistics over `Statistics`, "guarantee" =
    /// LiteralGuarantee::analyze only
    route: String,
    /// bits of statistics for which the provider method returns `None` altogether
    whole_absent: u32,
    /// the containers handed to one `prune` call
    containers: Vec<Cont>,
}

struct Planned {
    phys: Arc<dyn PhysicalExpr>,
    cols: Vec<usize>,
    rows: Vec<Row>,
    /// per distinct row: TRUE according to the check's evaluator AND the real expression
    matches: Vec<bool>,
    disagreements: u64,
}

fn plan(pred: &P) -> Result<Planned, String> {
    let sch = schema();
    let df = DFSchema::try_from(sch.clone()).map_err(|e| format!("harness: {e}"))?;
    let phys = create_physical_expr(&pred.expr(), &df, &ExecutionProps::new(), &PhysicalPlanningContext::default())
        .map_err(|e| format!("unplannable: {e}"))?;
    let cols = pred.cols();
    let rows = rows_over(&cols);
    let batch = batch_of(&rows)?;
    let real: Vec<Option<bool>> = match phys.evaluate(&batch).and_then(|v| v.into_array(rows.len())) {
        Ok(a) => {
            let b = a.as_any().downcast_ref::<BooleanArray>().ok_or("unplannable: predicate is not boolean")?;
            (0..rows.len()).map(|k| if b.is_null(k) { None } else { Some(b.value(k)) }).collect()
        }
        Err(e) => return Err(format!("unplannable: evaluation failed: {e}")),
    };
    let mut disagreements = 0;
    let matches = rows
        .iter()
        .zip(&real)
        .map(|(r, real)| {
            let mine = pred.eval(r);
            if mine != *real {
                disagreements += 1;
            }
            mine == Some(true) && *real == Some(true)
        })
        .collect();
    Ok(Planned { phys, cols, rows, matches, disagreements })
}

fn batch_of(rows: &[Row]) -> Result<RecordBatch, String> {
    use arrow::array::{Int32Array, Int64Array, StringArray};
    let cols: Vec<ArrayRef> = vec![
        Arc::new(rows.iter().map(|r| if let V::I(x) = &r[0] { Some(*x) } else { None }).collect::<Int64Array>()),
        Arc::new(rows.iter().map(|r| if let V::S(x) = &r[1] { Some(x.clone()) } else { None }).collect::<StringArray>()),
        Arc::new(rows.iter().map(|r| if let V::I(x) = &r[2] { Some(*x as i32) } else { None }).collect::<Int32Array>()),
        Arc::new(rows.iter().map(|r| if let V::B(x) = &r[3] { Some(*x) } else { None }).collect::<BooleanArray>()),
    ];
    RecordBatch::try_new(Arc::new(schema()), cols).map_err(|e| format!("harness: {e}"))
}

#[derive(Default)]
struct Out {
    verdicts: u64,
    pruned: u64,
    kept_with_match: u64,
    prune_err: bool,
    build_err: bool,
}

/// Run one `prune` call; `Err((k, what))` names the first container that was
/// skipped although a row of it satisfies the predicate.
fn run_prune(pl: &Planned, pred: &P, max_in_list: usize, route: &str, whole_absent: u32, conts: &[Cont]) -> Result<Out, (usize, String)> {
    let mut out = Out::default();
    let pp = match PruningPredicateBuilder::new().with_file_schema(Arc::new(schema())).with_max_in_list_size(max_in_list).try_build(Arc::clone(&pl.phys)) {
        Ok(p) => p,
        Err(_) => {
            out.build_err = true;
            return Ok(out);
        }
    };
    let res = match route {
        "custom" => pp.prune(&MyStats::new(&pl.cols, conts.to_vec(), whole_absent)),
        "prunable" => pp.prune(&prunable(&pl.cols, conts)),
        _ => return Err((0, format!("harness: unknown route {route}"))),
    };
    let res = match res {
        Ok(r) => r,
        Err(_) => {
            out.prune_err = true;
            return Ok(out);
        }
    };
    if res.len() != conts.len() {
        return Err((0, format!("prune returned {} verdicts for {} containers", res.len(), conts.len())));
    }
    for (k, keep) in res.iter().enumerate() {
        out.verdicts += 1;
        let matching = conts[k].rows.iter().find(|r| {
            let idx = pl.rows.iter().position(|x| x == *r);
            idx.map(|i| pl.matches[i]).unwrap_or(false)
        });
        if !*keep {
            out.pruned += 1;
            if let Some(r) = matching {
                return Err((
                    k,
                    format!(
                        "predicate {} [max_in_list_size={max_in_list}, statistics via {route}]: container {} with known statistics {} was skipped (prune()[{k}] == false, {} containers in the call) but its row {} satisfies the predicate",
                        pred.show(),
                        show_rows(&conts[k].rows, &pl.cols),
                        show_pat(&pl.cols, conts[k].pat, whole_absent),
                        conts.len(),
                        show_row(r, &pl.cols)
                    ),
                ));
            }
        } else if matching.is_some() {
            out.kept_with_match += 1;
        }
    }
    Ok(out)
}

fn show_v(v: &V) -> String {
    match v {
        V::Null => "NULL".into(),
        V::I(x) => x.to_string(),
        V::S(s) => format!("'{s}'"),
        V::B(b) => b.to_string(),
    }
}
fn show_row(r: &Row, cols: &[usize]) -> String {
    format!("({})", cols.iter().map(|c| format!("{}={}", COLS[*c], show_v(&r[*c]))).collect::<Vec<_>>().join(", "))
}
fn show_rows(rows: &[Row], cols: &[usize]) -> String {
    format!("{{{}}}", rows.iter().map(|r| show_row(r, cols)).collect::<Vec<_>>().join(", "))
}
fn show_pat(cols: &[usize], pat: u32, whole_absent: u32) -> String {
    let mut known = vec![];
    for (p, c) in cols.iter().enumerate() {
        for (kind, name) in ["min", "max", "null_count", "contained"].iter().enumerate() {
            let bit = 1 << (4 * p + kind);
            if pat & bit != 0 && whole_absent & bit == 0 {
                known.push(format!("{}.{name}", COLS[*c]));
            }
        }
    }
    let bit = 1 << (4 * cols.len());
    if pat & bit != 0 && whole_absent & bit == 0 {
        known.push("row_count".into());
    }
    format!("[{}]", known.join(", "))
}

/// Literal guarantees: on every row on which the predicate is TRUE, an `In`
/// guarantee's column holds one of the literals, a `NotIn` guarantee's column
/// holds none of them.
fn run_guarantees(pl: &Planned, pred: &P) -> Result<(u64, u64), String> {
    let gs = LiteralGuarantee::analyze(&pl.phys);
    let mut checks = 0;
    for g in &gs {
        let Some(c) = COLS.iter().position(|n| *n == g.column.name()) else {
            return Err(format!("guarantee on unknown column {} for {}", g.column.name(), pred.show()));
        };
        let mut lits: Vec<V> = vec![];
        let mut modelled = true;
        for s in &g.literals {
            match scalar_to_v(s) {
                Some(v) => lits.push(v),
                None => modelled = false,
            }
        }
        if !modelled {
            continue;
        }
        for (k, r) in pl.rows.iter().enumerate() {
            if !pl.matches[k] {
                continue;
            }
            checks += 1;
            let v = &r[c];
            let inside = *v != V::Null && lits.contains(v);
            let ok = match g.guarantee {
                Guarantee::In => inside,
                Guarantee::NotIn => !inside,
            };
            if !ok {
                return Err(format!(
                    "LiteralGuarantee::analyze({}) contains {:?}({}, {{{}}}) but the predicate is true on the row {} where it does not hold",
                    pred.show(),
                    g.guarantee,
                    g.column.name(),
                    lits.iter().map(show_v).collect::<Vec<_>>().join(", "),
                    show_row(r, &pl.cols)
                ));
            }
        }
    }
    Ok((gs.len() as u64, checks))
}

fn run_case(c: &Case) -> Result<Out, String> {
    let pl = plan(&c.pred)?;
    if c.route == "guarantee" {
        run_guarantees(&pl, &c.pred)?;
        return Ok(Out::default());
    }
    run_prune(&pl, &c.pred, c.max_in_list, &c.route, c.whole_absent, &c.containers).map_err(|(_, w)| w)
}

/// The predicate with literals abstracted away: the grouping key of violations.
fn skeleton(p: &P) -> String {
    fn t(x: &T) -> String {
        match x {
            T::I64(Some(_)) | T::I32(Some(_)) | T::Str(Some(_)) | T::Bool(Some(_)) => "lit".into(),
            _ => x.show(),
        }
    }
    match p {
        P::Cmp(a, op, b) => format!("{} {op} {}", t(a), t(b)),
        P::Distinct(a, b, n) => format!("{} IS {}DISTINCT FROM {}", t(a), if *n { "NOT " } else { "" }, t(b)),
        P::In(a, l, n) => format!("{} {}IN ({})", t(a), if *n { "NOT " } else { "" }, if l.iter().any(|x| t(x) == "NULL") { "lits, NULL" } else { "lits" }),
        P::Like(a, pat, n) => {
            let shape = if pat.is_empty() {
                "''"
            } else if !pat.contains('%') && !pat.contains('_') {
                "'const'"
            } else if pat.starts_with('%') || pat.starts_with('_') {
                "'%…'"
            } else if pat.ends_with('%') && !pat[..pat.len() - 1].contains(['%', '_']) {
                "'prefix%'"
            } else {
                "'prefix…wildcards'"
            };
            format!("{} {}LIKE {shape}", t(a), if *n { "NOT " } else { "" })
        }
        P::IsNull(a) => format!("{} IS NULL", t(a)),
        P::IsNotNull(a) => format!("{} IS NOT NULL", t(a)),
        P::Between(a, _, _, n) => format!("{} {}BETWEEN lit AND lit", t(a), if *n { "NOT " } else { "" }),
        P::Term(a) => t(a),
        P::Not(p) => format!("NOT ({})", skeleton(p)),
        P::And(a, b) => format!("({}) AND ({})", skeleton(a), skeleton(b)),
        P::Or(a, b) => format!("({}) OR ({})", skeleton(a), skeleton(b)),
    }
}

struct Tally<'a> {
    ctx: &'a Ctx,
    predicates: AtomicU64,
    unplannable: AtomicU64,
    disagreements: AtomicU64,
    prune_calls: AtomicU64,
    verdicts: AtomicU64,
    pruned: AtomicU64,
    kept_with_match: AtomicU64,
    build_err: AtomicU64,
    prune_err: AtomicU64,
    guarantees: AtomicU64,
    guarantee_checks: AtomicU64,
    fails: Mutex<BTreeMap<String, (u64, (usize, String, String))>>,
}

impl<'a> Tally<'a> {
    fn fail(&self, key: String, case: &Case, what: String) {
        let j = serde_json::to_string(case).unwrap();
        let cand = (j.len(), j, what);
        let mut f = self.fails.lock().unwrap();
        let e = f.entry(key).or_insert_with(|| (0, cand.clone()));
        e.0 += 1;
        if cand < e.1 {
            e.1 = cand;
        }
    }
    fn add(&self, o: &Out) {
        self.prune_calls.fetch_add(1, Ordering::Relaxed);
        self.verdicts.fetch_add(o.verdicts, Ordering::Relaxed);
        self.pruned.fetch_add(o.pruned, Ordering::Relaxed);
        self.kept_with_match.fetch_add(o.kept_with_match, Ordering::Relaxed);
        self.build_err.fetch_add(o.build_err as u64, Ordering::Relaxed);
        self.prune_err.fetch_add(o.prune_err as u64, Ordering::Relaxed);
        self.ctx.evals(o.verdicts.max(1));
    }
}

/// One batched call; on a violation, first try to reproduce it with the single
/// offending container (smallest replay), otherwise keep the whole call.
#[allow(clippy::too_many_arguments)]
fn call(t: &Tally, pl: &Planned, pred: &P, max_in_list: usize, route: &str, whole_absent: u32, conts: Vec<Cont>) -> Out {
    match mc_core::catch(|| run_prune(pl, pred, max_in_list, route, whole_absent, &conts)) {
        Ok(Ok(o)) => {
            t.add(&o);
            o
        }
        Ok(Err((k, what))) => {
            if what.starts_with("harness:") {
                t.ctx.machinery_error(what);
                return Out::default();
            }
            let single = vec![conts[k].clone()];
            let (containers, what) = match mc_core::catch(|| run_prune(pl, pred, max_in_list, route, whole_absent, &single)) {
                Ok(Err((_, w))) => (single, w),
                _ => (conts.clone(), what),
            };
            let case = Case { pred: pred.clone(), max_in_list, route: route.to_string(), whole_absent, containers };
            t.fail(format!("prune[{route}]: {}", skeleton(pred)), &case, what);
            Out { pruned: 1, ..Default::default() }
        }
        Err(panic) => {
            let case = Case { pred: pred.clone(), max_in_list, route: route.to_string(), whole_absent, containers: conts.clone() };
            t.fail(format!("prune[{route}] panics: {}", skeleton(pred)), &case, panic);
            Out::default()
        }
    }
}

fn explore(ctx: &Ctx) {
    let th = ctx.thorough();
    let max_rows = ctx.pick(2, 3);
    let menu = atoms(false);
    let core = atoms(true);
    // predicates, simplest first
    let mut preds: Vec<P> = menu.clone();
    for a in &menu {
        preds.push(P::Not(Box::new(a.clone())));
    }
    let depth1 = preds.len();
    for a in &menu {
        for b in &menu {
            preds.push(P::And(Box::new(a.clone()), Box::new(b.clone())));
            preds.push(P::Or(Box::new(a.clone()), Box::new(b.clone())));
        }
    }
    let depth2 = preds.len();
    for a in &core {
        for b in &core {
            preds.push(P::Not(Box::new(P::And(Box::new(a.clone()), Box::new(b.clone())))));
            preds.push(P::Not(Box::new(P::Or(Box::new(a.clone()), Box::new(b.clone())))));
        }
    }
    if th {
        for a in &core {
            for b in &core {
                for c in &core {
                    let (a, b, c) = (Box::new(a.clone()), Box::new(b.clone()), Box::new(c.clone()));
                    preds.push(P::And(a.clone(), Box::new(P::Or(b.clone(), c.clone()))));
                    preds.push(P::Or(a.clone(), Box::new(P::And(b.clone(), c.clone()))));
                    preds.push(P::And(a.clone(), Box::new(P::And(b.clone(), c.clone()))));
                    preds.push(P::Or(a, Box::new(P::Or(b, Box::new(P::Not(c))))));
                }
            }
        }
    }
    ctx.set_extra(
        "bounds",
        json!({
            "columns": "i: Int64 {NULL,1,2,3}, s: Utf8 {NULL,'a','ab','b'}, j: Int32 {NULL,1,2}, b: Boolean {NULL,false,true}",
            "atoms": menu.len(), "core_atoms": core.len(),
            "predicates": {"atoms_and_NOT_atom": depth1, "atom AND/OR atom": depth2 - depth1, "NOT(core AND/OR core)": core.len() * core.len() * 2,
                           "depth_3_over_core_atoms": if th { core.len().pow(3) * 4 } else { 0 }, "total": preds.len()},
            "container": format!("every multiset of 0..={max_rows} rows over the domains of the columns the predicate references"),
            "weakening": "every subset of {min, max, null_count, contained} per referenced column and of row_count is known, the rest unknown (per-container NULL in the statistics arrays); for predicates over >= 3 columns the same kind is weakened on all columns together; plus every combination of statistic kinds answered with `None` for the whole call",
            "calls": "all (container, pattern) pairs of a predicate in one prune() call; additionally every container alone in its own call (full statistics, and `contained` only) for predicates that yield literal guarantees; max_in_list_size in {20, 1} for predicates with IN lists",
            "prunable_statistics_route": if th { "all predicates of depth <= 2" } else { "atoms and NOT atom" },
        }),
    );
    ctx.assume("statistics are exact whenever known: min/max over the non-null values in the engine's ordering, exact null and row counts; `contained` follows the documented three-way rule and counts a NULL as 'not one of the values'");
    ctx.assume("a row satisfies the predicate when both the check's own three-valued evaluator and the real physical expression evaluate it to TRUE (disagreements are counted and never used for a verdict)");

    let t = Tally {
        ctx,
        predicates: Default::default(),
        unplannable: Default::default(),
        disagreements: Default::default(),
        prune_calls: Default::default(),
        verdicts: Default::default(),
        pruned: Default::default(),
        kept_with_match: Default::default(),
        build_err: Default::default(),
        prune_err: Default::default(),
        guarantees: Default::default(),
        guarantee_checks: Default::default(),
        fails: Mutex::new(BTreeMap::new()),
    };

    preds.par_iter().enumerate().for_each(|(pi, pred)| {
        if ctx.out_of_time() {
            return;
        }
        t.predicates.fetch_add(1, Ordering::Relaxed);
        let pl = match mc_core::catch(|| plan(pred)) {
            Ok(Ok(pl)) => pl,
            Ok(Err(e)) if e.starts_with("unplannable") => {
                t.unplannable.fetch_add(1, Ordering::Relaxed);
                return;
            }
            Ok(Err(e)) | Err(e) => {
                ctx.machinery_error(format!("{e} for predicate {}", pred.show()));
                return;
            }
        };
        t.disagreements.fetch_add(pl.disagreements, Ordering::Relaxed);
        // literal guarantees
        let n_guar = match mc_core::catch(|| run_guarantees(&pl, pred)) {
            Ok(Ok((n, checks))) => {
                t.guarantees.fetch_add(n, Ordering::Relaxed);
                t.guarantee_checks.fetch_add(checks, Ordering::Relaxed);
                ctx.evals(1);
                n
            }
            Ok(Err(what)) | Err(what) => {
                let case = Case { pred: pred.clone(), max_in_list: 20, route: "guarantee".into(), whole_absent: 0, containers: vec![] };
                t.fail(format!("LiteralGuarantee::analyze: {}", skeleton(pred)), &case, what);
                0
            }
        };
        // containers × weakening patterns
        let ms = multisets(pl.rows.len(), max_rows);
        let pats = patterns(pl.cols.len());
        let full = *pats.first().unwrap();
        let mut conts = Vec::with_capacity(ms.len() * pats.len());
        for pat in &pats {
            for m in &ms {
                conts.push(Cont { rows: m.iter().map(|k| pl.rows[*k].clone()).collect(), pat: *pat });
            }
        }
        let plain: Vec<Cont> = conts[..ms.len()].to_vec();
        let in_sizes: Vec<usize> = if pred.has_in_list() { vec![20, 1] } else { vec![20] };
        let mut pruned_any = 0u64;
        let mut kept_match = 0u64;
        for &mil in &in_sizes {
            let o = call(&t, &pl, pred, mil, "custom", 0, conts.clone());
            pruned_any += o.pruned;
            kept_match += o.kept_with_match;
            // whole-method `None` answers, kind by kind (on all referenced columns together) and row count
            for m in 1..32u32 {
                let mut wa = 0u32;
                for kind in 0..4 {
                    if m & (1 << kind) != 0 {
                        for c in 0..pl.cols.len() as u32 {
                            wa |= 1 << (4 * c + kind);
                        }
                    }
                }
                if m & 16 != 0 {
                    wa |= 1 << (4 * pl.cols.len());
                }
                pruned_any += call(&t, &pl, pred, mil, "custom", wa, plain.clone()).pruned;
            }
            // one container per call (exercises the early return when every container is ruled out by a guarantee)
            if n_guar > 0 || pi < depth1 {
                let only_contained: u32 = (0..pl.cols.len() as u32).map(|c| 1 << (4 * c + stats::CONTAINED)).sum();
                for m in &ms {
                    let rows: Vec<Row> = m.iter().map(|k| pl.rows[*k].clone()).collect();
                    for pat in [full, only_contained] {
                        pruned_any += call(&t, &pl, pred, mil, "custom", 0, vec![Cont { rows: rows.clone(), pat }]).pruned;
                    }
                }
            }
            // DataFusion's own provider over `Statistics` (what FilePruner hands to prune)
            if th && pi < depth2 || pi < depth1 {
                // `contained` is never answered by this provider: drop that bit from the patterns
                let mut seen = std::collections::HashSet::new();
                let pconts: Vec<Cont> = conts
                    .iter()
                    .filter(|c| {
                        let contained_bits: u32 = (0..pl.cols.len() as u32).map(|c| 1 << (4 * c + stats::CONTAINED)).sum();
                        c.pat & contained_bits == contained_bits && seen.insert((c.rows.clone(), c.pat))
                    })
                    .cloned()
                    .collect();
                pruned_any += call(&t, &pl, pred, mil, "prunable", 0, pconts).pruned;
            }
        }
        if pruned_any > 0 && kept_match > 0 {
            ctx.nontrivial(pred);
            if ctx.want_sample() && pl.cols.len() == 2 {
                ctx.sample(json!({"predicate": pred.show(), "columns": pl.cols.iter().map(|c| COLS[*c]).collect::<Vec<_>>(),
                    "containers": ms.len(), "weakening_patterns": pats.len(), "verdicts_pruned": pruned_any, "kept_with_matching_row": kept_match,
                    "literal_guarantees": n_guar}));
            }
        }
    });

    ctx.count("predicates", t.predicates.load(Ordering::Relaxed));
    ctx.count("predicates_unplannable", t.unplannable.load(Ordering::Relaxed));
    ctx.count("row_evaluator_disagreements_with_real_expression", t.disagreements.load(Ordering::Relaxed));
    ctx.count("prune_calls", t.prune_calls.load(Ordering::Relaxed));
    ctx.count("container_verdicts", t.verdicts.load(Ordering::Relaxed));
    ctx.count("container_verdicts_skip", t.pruned.load(Ordering::Relaxed));
    ctx.count("container_verdicts_keep_with_matching_row", t.kept_with_match.load(Ordering::Relaxed));
    ctx.count("try_build_returned_err", t.build_err.load(Ordering::Relaxed));
    ctx.count("prune_returned_err", t.prune_err.load(Ordering::Relaxed));
    ctx.count("literal_guarantees", t.guarantees.load(Ordering::Relaxed));
    ctx.count("literal_guarantee_row_checks", t.guarantee_checks.load(Ordering::Relaxed));
    for (key, (n, (_, j, what))) in t.fails.into_inner().unwrap() {
        ctx.count(&format!("failing_cases[{key}]"), n);
        ctx.violation(key, what, serde_json::from_str::<Value>(&j).unwrap());
    }
}

fn replay(v: &Value) -> Result<(), String> {
    let c: Case = match serde_json::from_value(v.clone()) {
        Ok(c) => c,
        Err(e) => {
            eprintln!("MACHINERY-ERROR: replay case cannot be read: {e}");
            std::process::exit(2)
        }
    };
    match mc_core::catch(|| run_case(&c)).unwrap_or_else(Err) {
        Ok(_) => Ok(()),
        Err(what) if what.starts_with("harness:") || what.starts_with("unplannable") => {
            eprintln!("MACHINERY-ERROR: {what}");
            std::process::exit(2)
        }
        Err(what) => Err(what),
    }
}

fn main() {
    mc_core::quiet_panics();
    run_check(
        "C22",
        Level::Exploration,
        "every predicate of the grammar x every container (multiset of rows over the referenced columns' domains) x every pattern of known/unknown statistics; one evaluation = one container verdict returned by prune() (or one LiteralGuarantee::analyze call). \
         non-trivial predicate = at least one container was skipped by the implementation AND at least one container with a matching row was (correctly) kept, so both outcomes were exercised against the row-level oracle",
        explore,
        replay,
    );
}
