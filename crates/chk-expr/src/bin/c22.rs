//! C22 — statistics-based pruning never skips a container with a matching row,
//! and every literal guarantee derived from a predicate holds on every row for
//! which the predicate is true.
//!
//! Bounded-exhaustive: every predicate of a small grammar (an atom menu,
//! NOT/AND/OR up to a depth) × every container that is a multiset of at most
//! `n` rows over the small value domains of the referenced columns × every
//! pattern in which each statistic (min, max, null count, `contained` answer
//! per column; row count) is independently known or unknown. Statistics are
//! computed exactly from the rows, never wrong. Oracle: a container the
//! implementation says can be skipped must not contain a row on which the
//! predicate is TRUE according to the check's own three-valued evaluator
//! (`c22/model.rs`) — and, to rule out a harness mistake, also according to the
//! real physical expression.
#[path = "c22/model.rs"]
mod model;
#[path = "c22/stats.rs"]
mod stats;

use arrow::array::{Array, ArrayRef, BooleanArray, RecordBatch};
use datafusion_common::DFSchema;
use datafusion_expr::execution_props::ExecutionProps;
use datafusion_expr::physical_planning_context::PhysicalPlanningContext;
use datafusion_physical_expr::utils::{Guarantee, LiteralGuarantee};
use datafusion_physical_expr::{PhysicalExpr, create_physical_expr};
use datafusion_pruning::{PruningPredicate, PruningPredicateBuilder};
use mc_core::serde_json::{Value, json};
use mc_core::{Ctx, Level, rayon::prelude::*, run_check};
use model::{COLS, P, Row, T, V, atoms, rows_over, schema, unicode_atoms};
use serde::{Deserialize, Serialize};
use stats::{Cont, MyStats, multisets, patterns, prunable, scalar_to_v, set_stats};
use std::collections::BTreeMap;
use std::sync::atomic::{AtomicU64, Ordering};
use std::sync::{Arc, Mutex};

#[derive(Serialize, Deserialize, Clone, Debug, Hash)]
struct Case {
    pred: P,
    /// value-domain variant (0 = default, 1 = strings around the largest code point)
    #[serde(default)]
    variant: u8,
    /// `PruningPredicateBuilder::with_max_in_list_size`
    max_in_list: usize,
    /// "custom" = the check's PruningStatistics (with `contained`), "prunable" =
    /// DataFusion's PrunableStatistics over `Statistics`, "guarantee" =
    /// LiteralGuarantee::analyze only
    route: String,
    /// bits of statistics for which the provider method returns `None` altogether
    whole_absent: u32,
    /// the containers handed to one `prune` call
    containers: Vec<Cont>,
}

struct Planned {
    variant: u8,
    phys: Arc<dyn PhysicalExpr>,
    cols: Vec<usize>,
    rows: Vec<Row>,
    /// per distinct row: TRUE according to the check's evaluator AND the real expression
    matches: Vec<bool>,
    disagreements: u64,
}

fn plan(pred: &P, variant: u8) -> Result<Planned, String> {
    let sch = schema();
    let df = DFSchema::try_from(sch.clone()).map_err(|e| format!("harness: {e}"))?;
    let phys = create_physical_expr(&pred.expr(), &df, &ExecutionProps::new(), &PhysicalPlanningContext::default())
        .map_err(|e| format!("unplannable: {e}"))?;
    let cols = pred.cols();
    let rows = rows_over(&cols, variant);
    let batch = batch_of(&rows)?;
    let real: Vec<Option<bool>> = match phys.evaluate(&batch).and_then(|v| v.into_array(rows.len())) {
        Ok(a) => {
            let b = a.as_any().downcast_ref::<BooleanArray>().ok_or("unplannable: predicate is not boolean")?;
            (0..rows.len()).map(|k| if b.is_null(k) { None } else { Some(b.value(k)) }).collect()
        }
        Err(e) => return Err(format!("unplannable: evaluation failed: {e}")),
    };
    let mut disagreements = 0;
    let matches = rows
        .iter()
        .zip(&real)
        .map(|(r, real)| {
            let mine = pred.eval(r);
            if mine != *real {
                disagreements += 1;
            }
            mine == Some(true) && *real == Some(true)
        })
        .collect();
    Ok(Planned { variant, phys, cols, rows, matches, disagreements })
}

fn batch_of(rows: &[Row]) -> Result<RecordBatch, String> {
    use arrow::array::{Int32Array, Int64Array, StringArray};
    let cols: Vec<ArrayRef> = vec![
        Arc::new(rows.iter().map(|r| if let V::I(x) = &r[0] { Some(*x) } else { None }).collect::<Int64Array>()),
        Arc::new(rows.iter().map(|r| if let V::S(x) = &r[1] { Some(x.clone()) } else { None }).collect::<StringArray>()),
        Arc::new(rows.iter().map(|r| if let V::I(x) = &r[2] { Some(*x as i32) } else { None }).collect::<Int32Array>()),
        Arc::new(rows.iter().map(|r| if let V::B(x) = &r[3] { Some(*x) } else { None }).collect::<BooleanArray>()),
    ];
    RecordBatch::try_new(Arc::new(schema()), cols).map_err(|e| format!("harness: {e}"))
}

#[derive(Default)]
struct Out {
    verdicts: u64,
    pruned: u64,
    kept_with_match: u64,
    prune_err: bool,
}

fn build(pl: &Planned, max_in_list: usize) -> Option<PruningPredicate> {
    PruningPredicateBuilder::new().with_file_schema(Arc::new(schema())).with_max_in_list_size(max_in_list).try_build(Arc::clone(&pl.phys)).ok()
}

/// The distinct containers of one predicate with their exact statistics and,
/// per container, a row on which the predicate is TRUE (if any).
struct Sets {
    sets: Vec<Vec<Row>>,
    stats: Vec<Vec<stats::ColStat>>,
    lens: Vec<usize>,
    matching: Vec<Option<Row>>,
}

fn sets_of(pl: &Planned, sets: Vec<Vec<Row>>) -> Sets {
    let matching = sets
        .iter()
        .map(|rows| rows.iter().find(|r| pl.rows.iter().position(|x| x == *r).map(|i| pl.matches[i]).unwrap_or(false)).cloned())
        .collect();
    Sets { stats: set_stats(&pl.cols, &sets), lens: sets.iter().map(|s| s.len()).collect(), matching, sets }
}

/// Run one `prune` call; `Err((k, what))` names the first container that was
/// skipped although a row of it satisfies the predicate.
#[allow(clippy::too_many_arguments)]
fn run_prune(pl: &Planned, pp: &PruningPredicate, pred: &P, max_in_list: usize, route: &str, whole_absent: u32, st: &Sets, entries: &[(usize, u32)]) -> Result<Out, (usize, String)> {
    let mut out = Out::default();
    let res = match route {
        "custom" => pp.prune(&MyStats { cols: &pl.cols, entries, stats: &st.stats, set_len: &st.lens, whole_absent }),
        "prunable" => pp.prune(&prunable(&pl.cols, &st.sets, entries)),
        _ => return Err((0, format!("harness: unknown route {route}"))),
    };
    let res = match res {
        Ok(r) => r,
        Err(_) => {
            out.prune_err = true;
            return Ok(out);
        }
    };
    if res.len() != entries.len() {
        return Err((0, format!("prune returned {} verdicts for {} containers", res.len(), entries.len())));
    }
    for (k, keep) in res.iter().enumerate() {
        out.verdicts += 1;
        let matching = &st.matching[entries[k].0];
        if !*keep {
            out.pruned += 1;
            if let Some(r) = matching {
                return Err((
                    k,
                    format!(
                        "predicate {} [max_in_list_size={max_in_list}, statistics via {route}]: container {} with known statistics {} was skipped (prune()[{k}] == false, {} containers in the call) but its row {} satisfies the predicate",
                        pred.show(),
                        show_rows(&st.sets[entries[k].0], &pl.cols),
                        show_pat(&pl.cols, entries[k].1, whole_absent),
                        entries.len(),
                        show_row(r, &pl.cols)
                    ),
                ));
            }
        } else if matching.is_some() {
            out.kept_with_match += 1;
        }
    }
    Ok(out)
}

fn show_v(v: &V) -> String {
    match v {
        V::Null => "NULL".into(),
        V::I(x) => x.to_string(),
        V::S(s) => format!("'{s}'"),
        V::B(b) => b.to_string(),
    }
}
fn show_row(r: &Row, cols: &[usize]) -> String {
    format!("({})", cols.iter().map(|c| format!("{}={}", COLS[*c], show_v(&r[*c]))).collect::<Vec<_>>().join(", "))
}
fn show_rows(rows: &[Row], cols: &[usize]) -> String {
    format!("{{{}}}", rows.iter().map(|r| show_row(r, cols)).collect::<Vec<_>>().join(", "))
}
fn show_pat(cols: &[usize], pat: u32, whole_absent: u32) -> String {
    let mut known = vec![];
    for (p, c) in cols.iter().enumerate() {
        for (kind, name) in ["min", "max", "null_count", "contained"].iter().enumerate() {
            let bit = 1 << (4 * p + kind);
            if pat & bit != 0 && whole_absent & bit == 0 {
                known.push(format!("{}.{name}", COLS[*c]));
            }
        }
    }
    let bit = 1 << (4 * cols.len());
    if pat & bit != 0 && whole_absent & bit == 0 {
        known.push("row_count".into());
    }
    format!("[{}]", known.join(", "))
}

/// Literal guarantees: on every row on which the predicate is TRUE, an `In`
/// guarantee's column holds one of the literals, a `NotIn` guarantee's column
/// holds none of them.
fn run_guarantees(pl: &Planned, pred: &P) -> Result<(u64, u64), String> {
    let gs = LiteralGuarantee::analyze(&pl.phys);
    let mut checks = 0;
    for g in &gs {
        let Some(c) = COLS.iter().position(|n| *n == g.column.name()) else {
            return Err(format!("guarantee on unknown column {} for {}", g.column.name(), pred.show()));
        };
        let mut lits: Vec<V> = vec![];
        let mut modelled = true;
        for s in &g.literals {
            match scalar_to_v(s) {
                Some(v) => lits.push(v),
                None => modelled = false,
            }
        }
        if !modelled {
            continue;
        }
        for (k, r) in pl.rows.iter().enumerate() {
            if !pl.matches[k] {
                continue;
            }
            checks += 1;
            let v = &r[c];
            let inside = *v != V::Null && lits.contains(v);
            let ok = match g.guarantee {
                Guarantee::In => inside,
                Guarantee::NotIn => !inside,
            };
            if !ok {
                return Err(format!(
                    "LiteralGuarantee::analyze({}) contains {:?}({}, {{{}}}) but the predicate is true on the row {} where it does not hold",
                    pred.show(),
                    g.guarantee,
                    g.column.name(),
                    lits.iter().map(show_v).collect::<Vec<_>>().join(", "),
                    show_row(r, &pl.cols)
                ));
            }
        }
    }
    Ok((gs.len() as u64, checks))
}

fn run_case(c: &Case) -> Result<Out, String> {
    let pl = plan(&c.pred, c.variant)?;
    if c.route == "guarantee" {
        run_guarantees(&pl, &c.pred)?;
        return Ok(Out::default());
    }
    let Some(pp) = build(&pl, c.max_in_list) else { return Ok(Out::default()) };
    let st = sets_of(&pl, c.containers.iter().map(|k| k.rows.clone()).collect());
    let entries: Vec<(usize, u32)> = c.containers.iter().enumerate().map(|(k, c)| (k, c.pat)).collect();
    run_prune(&pl, &pp, &c.pred, c.max_in_list, &c.route, c.whole_absent, &st, &entries).map_err(|(_, w)| w)
}

/// The predicate with literals abstracted away: the grouping key of violations.
fn skeleton(p: &P) -> String {
    fn t(x: &T) -> String {
        match x {
            T::I64(Some(_)) | T::I32(Some(_)) | T::Str(Some(_)) | T::Bool(Some(_)) => "lit".into(),
            _ => x.show(),
        }
    }
    match p {
        P::Cmp(a, op, b) => format!("{} {op} {}", t(a), t(b)),
        P::Distinct(a, b, n) => format!("{} IS {}DISTINCT FROM {}", t(a), if *n { "NOT " } else { "" }, t(b)),
        P::In(a, l, n) => format!("{} {}IN ({})", t(a), if *n { "NOT " } else { "" }, if l.iter().any(|x| t(x) == "NULL") { "lits, NULL" } else { "lits" }),
        P::Like(a, pat, n) => {
            let shape = if pat.is_empty() {
                "''"
            } else if !pat.contains('%') && !pat.contains('_') {
                "'const'"
            } else if pat.starts_with('%') || pat.starts_with('_') {
                "'%…'"
            } else if pat.ends_with('%') && !pat[..pat.len() - 1].contains(['%', '_']) {
                "'prefix%'"
            } else {
                "'prefix…wildcards'"
            };
            format!("{} {}LIKE {shape}", t(a), if *n { "NOT " } else { "" })
        }
        P::IsNull(a) => format!("{} IS NULL", t(a)),
        P::IsNotNull(a) => format!("{} IS NOT NULL", t(a)),
        P::Between(a, _, _, n) => format!("{} {}BETWEEN lit AND lit", t(a), if *n { "NOT " } else { "" }),
        P::Term(a) => t(a),
        P::Not(p) => format!("NOT ({})", skeleton(p)),
        P::And(a, b) => format!("({}) AND ({})", skeleton(a), skeleton(b)),
        P::Or(a, b) => format!("({}) OR ({})", skeleton(a), skeleton(b)),
    }
}

struct Tally<'a> {
    ctx: &'a Ctx,
    predicates: AtomicU64,
    unplannable: AtomicU64,
    disagreements: AtomicU64,
    prune_calls: AtomicU64,
    verdicts: AtomicU64,
    pruned: AtomicU64,
    kept_with_match: AtomicU64,
    build_err: AtomicU64,
    prune_err: AtomicU64,
    guarantees: AtomicU64,
    guarantee_checks: AtomicU64,
    fails: Mutex<BTreeMap<String, (u64, (usize, String, String))>>,
}

impl<'a> Tally<'a> {
    fn fail(&self, key: String, case: &Case, what: String) {
        let j = serde_json::to_string(case).unwrap();
        let cand = (j.len(), j, what);
        let mut f = self.fails.lock().unwrap();
        let e = f.entry(key).or_insert_with(|| (0, cand.clone()));
        e.0 += 1;
        if cand < e.1 {
            e.1 = cand;
        }
    }
    fn add(&self, o: &Out) {
        self.prune_calls.fetch_add(1, Ordering::Relaxed);
        self.verdicts.fetch_add(o.verdicts, Ordering::Relaxed);
        self.pruned.fetch_add(o.pruned, Ordering::Relaxed);
        self.kept_with_match.fetch_add(o.kept_with_match, Ordering::Relaxed);
        self.prune_err.fetch_add(o.prune_err as u64, Ordering::Relaxed);
        self.ctx.evals(o.verdicts.max(1));
    }
}

/// One batched call; on a violation, first try to reproduce it with the single
/// offending container (smallest replay), otherwise keep the whole call.
#[allow(clippy::too_many_arguments)]
fn call(t: &Tally, pl: &Planned, pp: &PruningPredicate, pred: &P, max_in_list: usize, route: &str, whole_absent: u32, st: &Sets, entries: &[(usize, u32)]) -> Out {
    let to_conts = |es: &[(usize, u32)]| es.iter().map(|e| Cont { rows: st.sets[e.0].clone(), pat: e.1 }).collect::<Vec<_>>();
    match mc_core::catch(|| run_prune(pl, pp, pred, max_in_list, route, whole_absent, st, entries)) {
        Ok(Ok(o)) => {
            t.add(&o);
            o
        }
        Ok(Err((k, what))) => {
            if what.starts_with("harness:") {
                t.ctx.machinery_error(what);
                return Out::default();
            }
            let single = [entries[k]];
            let (containers, what) = match mc_core::catch(|| run_prune(pl, pp, pred, max_in_list, route, whole_absent, st, &single)) {
                Ok(Err((_, w))) => (to_conts(&single), w),
                _ => (to_conts(entries), what),
            };
            let case = Case { pred: pred.clone(), variant: pl.variant, max_in_list, route: route.to_string(), whole_absent, containers };
            t.fail(format!("prune[{route}]: {}", skeleton(pred)), &case, what);
            Out { pruned: 1, ..Default::default() }
        }
        Err(panic) => {
            let case = Case { pred: pred.clone(), variant: pl.variant, max_in_list, route: route.to_string(), whole_absent, containers: to_conts(entries) };
            t.fail(format!("prune[{route}] panics: {}", skeleton(pred)), &case, panic);
            Out::default()
        }
    }
}

/// How much of the space one predicate gets.
#[derive(Clone, Copy)]
struct Plan {
    max_rows: usize,
    /// reduced weakening-pattern set for two-column predicates
    reduced: bool,
    /// also: every container alone in its own call; DataFusion's PrunableStatistics route
    extras: bool,
}

fn explore(ctx: &Ctx) {
    let th = ctx.thorough();
    let menu = atoms(false);
    let core = atoms(true);
    let bx = |p: &P| Box::new(p.clone());
    // (predicate, plan), simplest first
    let mut preds: Vec<(P, Plan, u8)> = vec![];
    let p1 = Plan { max_rows: if th { 3 } else { 2 }, reduced: false, extras: true };
    for a in &menu {
        preds.push((a.clone(), p1, 0));
    }
    for a in &menu {
        preds.push((P::Not(bx(a)), p1, 0));
    }
    // strings around the largest code point: atoms, NOT atom, and pairs among themselves
    let uni = unicode_atoms();
    for a in &uni {
        preds.push((a.clone(), p1, 1));
        preds.push((P::Not(bx(a)), p1, 1));
    }
    let depth1 = preds.len();
    // depth 2: all ordered pairs of atoms.
    let p2 = if th { Plan { max_rows: 2, reduced: false, extras: true } } else { Plan { max_rows: 2, reduced: true, extras: false } };
    let p2core = if th { Plan { max_rows: 3, reduced: true, extras: false } } else { p2 };
    for a in &menu {
        for b in &menu {
            let (ca, cb) = (core.contains(a), core.contains(b));
            for p in [P::And(bx(a), bx(b)), P::Or(bx(a), bx(b))] {
                preds.push((p.clone(), p2, 0));
                if th && ca && cb {
                    preds.push((p, p2core, 0));
                }
            }
        }
    }
    for a in &uni {
        for b in &uni {
            preds.push((P::And(bx(a), bx(b)), Plan { extras: false, ..p2 }, 1));
            preds.push((P::Or(bx(a), bx(b)), Plan { extras: false, ..p2 }, 1));
        }
    }
    let depth2 = preds.len();
    for a in &core {
        for b in &core {
            preds.push((P::Not(Box::new(P::And(bx(a), bx(b)))), Plan { extras: false, ..p2 }, 0));
            preds.push((P::Not(Box::new(P::Or(bx(a), bx(b)))), Plan { extras: false, ..p2 }, 0));
        }
    }
    let mut depth3 = 0;
    if th {
        let p3 = Plan { max_rows: 2, reduced: true, extras: false };
        for a in &core {
            for b in &core {
                for c in &core {
                    let (a, b, c) = (bx(a), bx(b), bx(c));
                    for p in [
                        P::And(a.clone(), Box::new(P::Or(b.clone(), c.clone()))),
                        P::Or(a.clone(), Box::new(P::And(b.clone(), c.clone()))),
                        P::And(a.clone(), Box::new(P::And(b.clone(), c.clone()))),
                        P::Or(a.clone(), Box::new(P::Or(b.clone(), Box::new(P::Not(c.clone()))))),
                    ] {
                        preds.push((p, p3, 0));
                        depth3 += 1;
                    }
                }
            }
        }
    }
    ctx.set_extra(
        "bounds",
        json!({
            "columns": "i: Int64 {NULL,1,2,3}, s: Utf8 {NULL,'a','ab','b'}, j: Int32 {NULL,1,2}, b: Boolean {NULL,false,true}; second string domain {NULL,'a','a\\u{10FFFF}','a\\u{10FFFF}z','b','\\u{10FFFF}b'} for the s-only atoms around the largest code point",
            "unicode_atoms": uni.len(),
            "atoms": menu.len(), "core_atoms": core.len(),
            "predicates": {"atoms_and_NOT_atom": depth1,
                           "atom AND/OR atom": format!("{} ({})", depth2 - depth1, if th { "all ordered pairs of atoms; pairs of core atoms additionally with 3-row containers" } else { "all ordered pairs of atoms" }),
                           "NOT(core AND/OR core)": core.len() * core.len() * 2,
                           "depth_3_over_core_atoms": depth3, "total": preds.len()},
            "container": format!("every multiset of 0..=n rows over the domains of the columns the predicate references; n = {} for atoms / NOT atom, 2 otherwise{}", p1.max_rows, if th { " (3 for pairs of core atoms)" } else { "" }),
            "weakening": "every subset of {min, max, null_count, contained} per referenced column and of row_count is known, the rest unknown (per-container NULL in the statistics arrays). Reduced set (two-column predicates where stated): per column 8 of the 16 subsets (all, each single one missing, min/max only, counts+contained only, none) in full product with the other column and the row count. Predicates over >= 3 columns: the same kind is weakened on all columns together. Plus every combination of statistic kinds answered with `None` for the whole call",
            "reduced_patterns_used_for": if th { "pairs of core atoms with 3-row containers, depth 3" } else { "all predicates of depth 2" },
            "calls": "all (container, pattern) pairs of a predicate in one prune() call; for atoms / NOT atom (thorough: all of depth <= 2) additionally every container alone in its own call (full statistics, and `contained` only) and the same containers through DataFusion's PrunableStatistics (Exact / Absent / misleading Inexact); max_in_list_size in {20, 1} for predicates with IN lists",
        }),
    );
    ctx.assume("statistics are exact whenever known: min/max over the non-null values in the engine's ordering, exact null and row counts; `contained` follows the documented three-way rule and counts a NULL as 'not one of the values'");
    ctx.assume("a row satisfies the predicate when both the check's own three-valued evaluator and the real physical expression evaluate it to TRUE (disagreements are counted and never used for a verdict)");

    let t = Tally {
        ctx,
        predicates: Default::default(),
        unplannable: Default::default(),
        disagreements: Default::default(),
        prune_calls: Default::default(),
        verdicts: Default::default(),
        pruned: Default::default(),
        kept_with_match: Default::default(),
        build_err: Default::default(),
        prune_err: Default::default(),
        guarantees: Default::default(),
        guarantee_checks: Default::default(),
        fails: Mutex::new(BTreeMap::new()),
    };

    preds.par_iter().for_each(|(pred, plan_, variant)| {
        if ctx.out_of_time() {
            return;
        }
        t.predicates.fetch_add(1, Ordering::Relaxed);
        let pl = match mc_core::catch(|| plan(pred, *variant)) {
            Ok(Ok(pl)) => pl,
            Ok(Err(e)) if e.starts_with("unplannable") => {
                t.unplannable.fetch_add(1, Ordering::Relaxed);
                return;
            }
            Ok(Err(e)) | Err(e) => {
                ctx.machinery_error(format!("{e} for predicate {}", pred.show()));
                return;
            }
        };
        t.disagreements.fetch_add(pl.disagreements, Ordering::Relaxed);
        // literal guarantees
        let n_guar = match mc_core::catch(|| run_guarantees(&pl, pred)) {
            Ok(Ok((n, checks))) => {
                t.guarantees.fetch_add(n, Ordering::Relaxed);
                t.guarantee_checks.fetch_add(checks, Ordering::Relaxed);
                ctx.evals(1);
                n
            }
            Ok(Err(what)) | Err(what) => {
                let case = Case { pred: pred.clone(), variant: pl.variant, max_in_list: 20, route: "guarantee".into(), whole_absent: 0, containers: vec![] };
                t.fail(format!("LiteralGuarantee::analyze: {}", skeleton(pred)), &case, what);
                0
            }
        };
        // containers × weakening patterns
        let ms = multisets(pl.rows.len(), plan_.max_rows);
        let st = sets_of(&pl, ms.iter().map(|m| m.iter().map(|k| pl.rows[*k].clone()).collect()).collect());
        let pats = patterns(pl.cols.len(), plan_.reduced);
        let full = *pats.first().unwrap();
        let nsets = st.sets.len();
        let mut entries: Vec<(usize, u32)> = Vec::with_capacity(nsets * pats.len());
        for pat in &pats {
            for k in 0..nsets {
                entries.push((k, *pat));
            }
        }
        let plain: Vec<(usize, u32)> = entries[..nsets].to_vec();
        let contained_bits: u32 = (0..pl.cols.len() as u32).map(|c| 1 << (4 * c + stats::CONTAINED)).sum();
        let in_sizes: Vec<usize> = if pred.has_in_list() { vec![20, 1] } else { vec![20] };
        let mut pruned_any = 0u64;
        let mut kept_match = 0u64;
        for &mil in &in_sizes {
            let Some(pp) = build(&pl, mil) else {
                t.build_err.fetch_add(1, Ordering::Relaxed);
                continue;
            };
            let o = call(&t, &pl, &pp, pred, mil, "custom", 0, &st, &entries);
            pruned_any += o.pruned;
            kept_match += o.kept_with_match;
            // whole-method `None` answers, kind by kind (on all referenced columns together) and row count
            for m in 1..32u32 {
                let mut wa = 0u32;
                for kind in 0..4 {
                    if m & (1 << kind) != 0 {
                        for c in 0..pl.cols.len() as u32 {
                            wa |= 1 << (4 * c + kind);
                        }
                    }
                }
                if m & 16 != 0 {
                    wa |= 1 << (4 * pl.cols.len());
                }
                pruned_any += call(&t, &pl, &pp, pred, mil, "custom", wa, &st, &plain).pruned;
            }
            if plan_.extras {
                // one container per call (exercises the early return when every container is ruled out by a guarantee)
                for k in 0..nsets {
                    for pat in [full, contained_bits] {
                        pruned_any += call(&t, &pl, &pp, pred, mil, "custom", 0, &st, &[(k, pat)]).pruned;
                    }
                }
                // DataFusion's own provider over `Statistics` (what FilePruner hands to prune);
                // it never answers `contained`, so only patterns with those bits set are distinct
                let pentries: Vec<(usize, u32)> = entries.iter().filter(|e| e.1 & contained_bits == contained_bits).cloned().collect();
                pruned_any += call(&t, &pl, &pp, pred, mil, "prunable", 0, &st, &pentries).pruned;
            }
        }
        if pruned_any > 0 && kept_match > 0 {
            ctx.nontrivial(&(pred, plan_.max_rows, plan_.reduced, variant));
            if ctx.want_sample() && pl.cols.len() == 2 {
                ctx.sample(json!({"predicate": pred.show(), "columns": pl.cols.iter().map(|c| COLS[*c]).collect::<Vec<_>>(),
                    "containers": nsets, "weakening_patterns": pats.len(), "verdicts_skip": pruned_any, "kept_with_matching_row": kept_match,
                    "literal_guarantees": n_guar}));
            }
        }
    });

    ctx.count("predicates", t.predicates.load(Ordering::Relaxed));
    ctx.count("predicates_unplannable", t.unplannable.load(Ordering::Relaxed));
    ctx.count("row_evaluator_disagreements_with_real_expression", t.disagreements.load(Ordering::Relaxed));
    ctx.count("prune_calls", t.prune_calls.load(Ordering::Relaxed));
    ctx.count("container_verdicts", t.verdicts.load(Ordering::Relaxed));
    ctx.count("container_verdicts_skip", t.pruned.load(Ordering::Relaxed));
    ctx.count("container_verdicts_keep_with_matching_row", t.kept_with_match.load(Ordering::Relaxed));
    ctx.count("try_build_returned_err", t.build_err.load(Ordering::Relaxed));
    ctx.count("prune_returned_err", t.prune_err.load(Ordering::Relaxed));
    ctx.count("literal_guarantees", t.guarantees.load(Ordering::Relaxed));
    ctx.count("literal_guarantee_row_checks", t.guarantee_checks.load(Ordering::Relaxed));
    if t.disagreements.load(Ordering::Relaxed) > 0 {
        ctx.machinery_error("the check's row evaluator and the real physical expression disagree on some row (see counters): fix the evaluator or report under C33");
    }
    // smallest failing case first (only the first 50 classes are written out as replays)
    let mut fails: Vec<_> = t.fails.into_inner().unwrap().into_iter().collect();
    fails.sort_by(|a, b| (a.1.1.0, &a.0).cmp(&(b.1.1.0, &b.0)));
    for (key, (n, (_, j, what))) in fails {
        ctx.count(&format!("failing_cases[{key}]"), n);
        ctx.violation(key, what, serde_json::from_str::<Value>(&j).unwrap());
    }
}

fn replay(v: &Value) -> Result<(), String> {
    let c: Case = match serde_json::from_value(v.clone()) {
        Ok(c) => c,
        Err(e) => {
            eprintln!("MACHINERY-ERROR: replay case cannot be read: {e}");
            std::process::exit(2)
        }
    };
    match mc_core::catch(|| run_case(&c)).unwrap_or_else(Err) {
        Ok(_) => Ok(()),
        Err(what) if what.starts_with("harness:") || what.starts_with("unplannable") => {
            eprintln!("MACHINERY-ERROR: {what}");
            std::process::exit(2)
        }
        Err(what) => Err(what),
    }
}

fn main() {
    mc_core::quiet_panics();
    run_check(
        "C22",
        Level::Exploration,
        "every predicate of the grammar x every container (multiset of rows over the referenced columns' domains) x every pattern of known/unknown statistics; one evaluation = one container verdict returned by prune() (or one LiteralGuarantee::analyze call). \
         non-trivial predicate = at least one container was skipped by the implementation AND at least one container with a matching row was (correctly) kept, so both outcomes were exercised against the row-level oracle",
        explore,
        replay,
    );
}
