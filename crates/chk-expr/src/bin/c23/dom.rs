//! Value domains of the C23 check: an independent model of "which concrete
//! values does an interval denote" and "what does an operator produce".
//!
//! A value is carried as an `i128` *code*: the integer itself for integer
//! domains, the IEEE bit pattern for float domains (so that -0.0, subnormals
//! and infinities survive JSON replay files exactly).
use datafusion_common::ScalarValue;
use serde::{Deserialize, Serialize};
use std::cmp::Ordering;

pub type C = i128;

#[derive(Clone, Copy, PartialEq, Eq, Hash, Debug, Serialize, Deserialize, PartialOrd, Ord)]
pub enum D {
    I8,
    I16,
    I32,
    I64,
    U8,
    U16,
    U32,
    U64,
    F32,
    F64,
}

/// Closed interval in the model; `None` = unbounded on that side.
#[derive(Clone, Copy, PartialEq, Eq, Hash, Debug, Serialize, Deserialize)]
pub struct Iv {
    #[serde(with = "opt_c")]
    pub lo: Option<C>,
    #[serde(with = "opt_c")]
    pub hi: Option<C>,
}

/// JSON form of a value code: a plain JSON integer (all codes fit `i64` or
/// `u64`); serde's buffered enum representation cannot carry `i128`.
mod opt_c {
    use serde::{Deserialize, Deserializer, Serializer};
    pub fn serialize<S: Serializer>(v: &Option<i128>, s: S) -> Result<S::Ok, S::Error> {
        match v {
            None => s.serialize_none(),
            Some(x) => {
                if let Ok(i) = i64::try_from(*x) {
                    s.serialize_some(&i)
                } else if let Ok(u) = u64::try_from(*x) {
                    s.serialize_some(&u)
                } else {
                    s.serialize_some(&x.to_string())
                }
            }
        }
    }
    pub fn deserialize<'de, D: Deserializer<'de>>(d: D) -> Result<Option<i128>, D::Error> {
        #[derive(Deserialize)]
        #[serde(untagged)]
        enum N {
            I(i64),
            U(u64),
            S(String),
        }
        let o: Option<N> = Option::deserialize(d)?;
        o.map(|n| match n {
            N::I(i) => Ok(i as i128),
            N::U(u) => Ok(u as i128),
            N::S(s) => s.parse::<i128>().map_err(serde::de::Error::custom),
        })
        .transpose()
    }
}

#[derive(Clone, Copy, PartialEq, Eq, Hash, Debug)]
pub enum Arith {
    Add,
    Sub,
    Mul,
    Div,
}

impl D {
    pub fn is_float(self) -> bool {
        matches!(self, D::F32 | D::F64)
    }
    pub fn is_unsigned(self) -> bool {
        matches!(self, D::U8 | D::U16 | D::U32 | D::U64)
    }
    pub fn class(self) -> &'static str {
        if self.is_float() { "float" } else { "integer" }
    }
    pub fn bits(self) -> u32 {
        match self {
            D::I8 | D::U8 => 8,
            D::I16 | D::U16 => 16,
            D::I32 | D::U32 | D::F32 => 32,
            D::I64 | D::U64 | D::F64 => 64,
        }
    }
    /// Smallest / largest value of an integer domain.
    pub fn imin(self) -> C {
        if self.is_unsigned() { 0 } else { -(1i128 << (self.bits() - 1)) }
    }
    pub fn imax(self) -> C {
        if self.is_unsigned() { (1i128 << self.bits()) - 1 } else { (1i128 << (self.bits() - 1)) - 1 }
    }
    pub fn f(self, c: C) -> f64 {
        match self {
            D::F32 => f32::from_bits(c as u32) as f64,
            D::F64 => f64::from_bits(c as u64),
            _ => c as f64,
        }
    }
    pub fn of_f32(v: f32) -> C {
        v.to_bits() as C
    }
    pub fn of_f64(v: f64) -> C {
        v.to_bits() as C
    }
    pub fn show(self, c: C) -> String {
        match self {
            D::F32 => format!("{:?}f32", f32::from_bits(c as u32)),
            D::F64 => format!("{:?}f64", f64::from_bits(c as u64)),
            _ => format!("{c}"),
        }
    }
    pub fn show_o(self, c: Option<C>) -> String {
        c.map(|c| self.show(c)).unwrap_or_else(|| "unbounded".into())
    }
    pub fn show_iv(self, iv: &Iv) -> String {
        format!("{:?}[{}, {}]", self, self.show_o(iv.lo), self.show_o(iv.hi))
    }

    pub fn sv(self, c: Option<C>) -> ScalarValue {
        match self {
            D::I8 => ScalarValue::Int8(c.map(|v| v as i8)),
            D::I16 => ScalarValue::Int16(c.map(|v| v as i16)),
            D::I32 => ScalarValue::Int32(c.map(|v| v as i32)),
            D::I64 => ScalarValue::Int64(c.map(|v| v as i64)),
            D::U8 => ScalarValue::UInt8(c.map(|v| v as u8)),
            D::U16 => ScalarValue::UInt16(c.map(|v| v as u16)),
            D::U32 => ScalarValue::UInt32(c.map(|v| v as u32)),
            D::U64 => ScalarValue::UInt64(c.map(|v| v as u64)),
            D::F32 => ScalarValue::Float32(c.map(|v| f32::from_bits(v as u32))),
            D::F64 => ScalarValue::Float64(c.map(|v| f64::from_bits(v as u64))),
        }
    }
    pub fn of_sv(sv: &ScalarValue) -> Option<(D, Option<C>)> {
        Some(match sv {
            ScalarValue::Int8(v) => (D::I8, v.map(|v| v as C)),
            ScalarValue::Int16(v) => (D::I16, v.map(|v| v as C)),
            ScalarValue::Int32(v) => (D::I32, v.map(|v| v as C)),
            ScalarValue::Int64(v) => (D::I64, v.map(|v| v as C)),
            ScalarValue::UInt8(v) => (D::U8, v.map(|v| v as C)),
            ScalarValue::UInt16(v) => (D::U16, v.map(|v| v as C)),
            ScalarValue::UInt32(v) => (D::U32, v.map(|v| v as C)),
            ScalarValue::UInt64(v) => (D::U64, v.map(|v| v as C)),
            ScalarValue::Float32(v) => (D::F32, v.map(|v| v.to_bits() as C)),
            ScalarValue::Float64(v) => (D::F64, v.map(|v| v.to_bits() as C)),
            _ => return None,
        })
    }

    /// The engine's ordering of two values of this domain (IEEE totalOrder for
    /// floats: that is what arrow's comparison kernels and `ScalarValue` use).
    pub fn cmp(self, a: C, b: C) -> Ordering {
        match self {
            D::F32 => f32::from_bits(a as u32).total_cmp(&f32::from_bits(b as u32)),
            D::F64 => f64::from_bits(a as u64).total_cmp(&f64::from_bits(b as u64)),
            _ => a.cmp(&b),
        }
    }
    pub fn is_nan(self, c: C) -> bool {
        self.is_float() && self.f(c).is_nan()
    }

    /// Is `v` a value of the model interval (engine ordering)?
    pub fn member(self, iv: &Iv, v: C) -> bool {
        if self.is_nan(v) {
            return false;
        }
        if !self.is_float() && (v < self.imin() || v > self.imax()) {
            return false;
        }
        iv.lo.map_or(true, |l| self.cmp(l, v) != Ordering::Greater)
            && iv.hi.map_or(true, |h| self.cmp(v, h) != Ordering::Greater)
    }

    /// Is value `v` inside the *result* bounds `[lo, hi]` (None = unbounded)?
    /// For floats this is the weaker numeric (IEEE `<=`) containment, so that a
    /// result of -0.0 is accepted by a bound of +0.0 and vice versa.
    pub fn within(self, lo: Option<C>, hi: Option<C>, v: C) -> bool {
        if self.is_float() {
            let x = self.f(v);
            lo.map_or(true, |l| self.f(l) <= x) && hi.map_or(true, |h| x <= self.f(h))
        } else {
            lo.map_or(true, |l| l <= v) && hi.map_or(true, |h| v <= h)
        }
    }
    /// Strict (engine total order) containment, used only for counting the
    /// signed-zero gap.
    pub fn within_total(self, lo: Option<C>, hi: Option<C>, v: C) -> bool {
        lo.map_or(true, |l| self.cmp(l, v) != Ordering::Greater) && hi.map_or(true, |h| self.cmp(v, h) != Ordering::Greater)
    }

    /// Result of the arithmetic operator on two values, `None` when the result
    /// is not a representable ordinary value of the domain (integer overflow,
    /// division by zero, float NaN).
    pub fn fits(self, v: C) -> bool {
        self.is_float() || (v >= self.imin() && v <= self.imax())
    }
    /// Exact integer result (no range check); `None` for division by zero.
    pub fn int_arith(op: Arith, a: C, b: C) -> Option<C> {
        // (u64::MAX)^2 does not fit i128: a product that overflows i128 is
        // certainly not representable in any 64-bit result type
        match op {
            Arith::Add => a.checked_add(b),
            Arith::Sub => a.checked_sub(b),
            Arith::Mul => a.checked_mul(b),
            Arith::Div => {
                if b == 0 {
                    return None;
                }
                Some(a / b) // truncating, like the engine's integer division
            }
        }
    }
    pub fn arith(self, op: Arith, a: C, b: C) -> Option<C> {
        match self {
            D::F32 => {
                let (x, y) = (f32::from_bits(a as u32), f32::from_bits(b as u32));
                let r = match op {
                    Arith::Add => x + y,
                    Arith::Sub => x - y,
                    Arith::Mul => x * y,
                    Arith::Div => x / y,
                };
                if r.is_nan() { None } else { Some(r.to_bits() as C) }
            }
            D::F64 => {
                let (x, y) = (f64::from_bits(a as u64), f64::from_bits(b as u64));
                let r = match op {
                    Arith::Add => x + y,
                    Arith::Sub => x - y,
                    Arith::Mul => x * y,
                    Arith::Div => x / y,
                };
                if r.is_nan() { None } else { Some(r.to_bits() as C) }
            }
            _ => {
                let r = D::int_arith(op, a, b)?;
                if r < self.imin() || r > self.imax() { None } else { Some(r) }
            }
        }
    }
    pub fn neg(self, a: C) -> Option<C> {
        match self {
            D::F32 => Some((-f32::from_bits(a as u32)).to_bits() as C),
            D::F64 => Some((-f64::from_bits(a as u64)).to_bits() as C),
            _ => {
                let r = -a;
                if r < self.imin() || r > self.imax() { None } else { Some(r) }
            }
        }
    }

    fn fup(self, c: C) -> C {
        match self {
            D::F32 => f32::from_bits(c as u32).next_up().to_bits() as C,
            _ => f64::from_bits(c as u64).next_up().to_bits() as C,
        }
    }
    fn fdown(self, c: C) -> C {
        match self {
            D::F32 => f32::from_bits(c as u32).next_down().to_bits() as C,
            _ => f64::from_bits(c as u64).next_down().to_bits() as C,
        }
    }
    fn fc(self, v: f64) -> C {
        match self {
            D::F32 => (v as f32).to_bits() as C,
            _ => v.to_bits() as C,
        }
    }
    fn fmax(self) -> f64 {
        if self == D::F32 { f32::MAX as f64 } else { f64::MAX }
    }
    fn fminpos(self) -> f64 {
        if self == D::F32 { f32::MIN_POSITIVE as f64 } else { f64::MIN_POSITIVE }
    }
    fn fsub(self) -> C {
        1 // smallest positive subnormal: bit pattern 1
    }
    fn fnegsub(self) -> C {
        if self == D::F32 { 0x8000_0001u32 as C } else { 0x8000_0000_0000_0001u64 as C }
    }
    fn fbig(self) -> f64 {
        if self == D::F32 { 1e30 } else { 1e300 }
    }

    fn isqrt_max(self) -> C {
        let m = self.imax();
        let mut s = (m as f64).sqrt() as C;
        while s * s > m {
            s -= 1;
        }
        while (s + 1) * (s + 1) <= m {
            s += 1;
        }
        s
    }

    /// Endpoint menu (finite endpoints; "unbounded" is added by the caller).
    pub fn endpoints(self, small: bool) -> Vec<C> {
        let mut v: Vec<C> = if self.is_float() {
            let mut v = vec![
                self.fc(-self.fmax()),
                self.fc(-self.fbig()),
                self.fc(-1.5),
                self.fc(-self.fminpos()),
                self.fc(-0.0),
                self.fc(0.0),
                self.fsub(),
                self.fc(self.fminpos()),
                self.fc(1.5),
                self.fc(3.0),
                self.fc(self.fbig()),
                self.fc(self.fmax()),
            ];
            if small {
                v = vec![self.fc(-self.fmax()), self.fc(-1.5), self.fc(-0.0), self.fc(0.0), self.fc(1.5), self.fc(self.fbig()), self.fc(self.fmax())];
            }
            v
        } else if small {
            if self.is_unsigned() {
                vec![0, 1, 2, 3, self.imax() - 1, self.imax()]
            } else {
                vec![self.imin(), -2, -1, 0, 1, 2, self.imax()]
            }
        } else {
            let s = self.isqrt_max();
            let (mn, mx) = (self.imin(), self.imax());
            let mut v = vec![mn, mn + 1, -(s + 1), -2, -1, 0, 1, 2, 3, s + 1, mx - 1, mx];
            if self.bits() == 8 {
                v.extend([-64, 64, 16, 17]);
            } else {
                v.extend([-(1i128 << (self.bits() / 2)), 1i128 << (self.bits() / 2)]);
            }
            if self.is_unsigned() {
                v.push((mx + 1) / 2);
                v.push((mx + 1) / 2 - 1);
            }
            v.retain(|x| *x >= mn && *x <= mx);
            v
        };
        v.sort_by(|a, b| self.cmp(*a, *b));
        v.dedup();
        v
    }

    /// All well-formed model intervals over an endpoint menu.
    pub fn intervals(self, small: bool) -> Vec<Iv> {
        let e = self.endpoints(small);
        let mut out = vec![];
        // simplest first: singletons near zero come out of the sort below
        for (i, lo) in e.iter().enumerate() {
            for hi in &e[i..] {
                out.push(Iv { lo: Some(*lo), hi: Some(*hi) });
            }
        }
        for x in &e {
            out.push(Iv { lo: None, hi: Some(*x) });
            out.push(Iv { lo: Some(*x), hi: None });
        }
        out.push(Iv { lo: None, hi: None });
        out
    }

    /// Member values of a model interval that are tried.
    /// `all` (8-bit integer domains only): every value of the interval.
    /// Otherwise: every value within 3 steps of an endpoint (type extremes stand
    /// in for unbounded ends), within 3 of zero, plus a fixed grid.
    pub fn members(self, iv: &Iv, all: bool) -> Vec<C> {
        let mut c: Vec<C> = vec![];
        if self.is_float() {
            for e in [iv.lo, iv.hi].into_iter().flatten() {
                let (mut u, mut d) = (e, e);
                c.push(e);
                for _ in 0..2 {
                    u = self.fup(u);
                    d = self.fdown(d);
                    c.push(u);
                    c.push(d);
                }
            }
            for g in [0.1, 0.5, 1.0, 1.5, 2.5, 3.0, 7.0, 1e-30] {
                c.push(self.fc(g));
                c.push(self.fc(-g));
            }
            for g in [0.0, self.fminpos(), self.fbig(), self.fmax(), f64::INFINITY] {
                c.push(self.fc(g));
                c.push(self.fc(-g));
            }
            c.push(self.fsub());
            c.push(self.fnegsub());
        } else {
            let (mn, mx) = (self.imin(), self.imax());
            let (l, h) = (iv.lo.unwrap_or(mn), iv.hi.unwrap_or(mx));
            if all && self.bits() == 8 {
                return (l..=h).collect();
            }
            for e in [l, h, 0] {
                for d in -3..=3 {
                    c.push(e + d);
                }
            }
            let s = self.isqrt_max();
            if self.bits() == 8 {
                c.extend([-128, -100, -64, -50, -17, -8, -5, 5, 8, 17, 50, 64, 100, 127, 128, 200, 255, 11, 12, -11, -12]);
            } else {
                c.extend([mn, mn / 2, -(s + 1), -s, -1000, -17, -5, 5, 17, 1000, s, s + 1, mx / 2, mx / 2 + 1, mx]);
            }
        }
        c.retain(|v| self.member(iv, *v));
        c.sort_by(|a, b| self.cmp(*a, *b));
        c.dedup();
        c
    }
}

impl Iv {
    pub fn new(lo: Option<C>, hi: Option<C>) -> Self {
        Iv { lo, hi }
    }
}

// ---- exact range reasoning on model intervals (engine order) ----

fn lo_le(d: D, a: Option<C>, b: Option<C>) -> bool {
    // a <= b as lower bounds (None = -inf)
    match (a, b) {
        (None, _) => true,
        (Some(_), None) => false,
        (Some(x), Some(y)) => d.cmp(x, y) != Ordering::Greater,
    }
}
fn hi_le(d: D, a: Option<C>, b: Option<C>) -> bool {
    // a <= b as upper bounds (None = +inf)
    match (a, b) {
        (_, None) => true,
        (None, Some(_)) => false,
        (Some(x), Some(y)) => d.cmp(x, y) != Ordering::Greater,
    }
}
/// Normalise unbounded integer ends to the type extremes so that set
/// comparisons are about *sets of representable values*.
pub fn norm(d: D, iv: &Iv) -> Iv {
    if d.is_float() {
        *iv
    } else {
        Iv { lo: Some(iv.lo.unwrap_or(d.imin())), hi: Some(iv.hi.unwrap_or(d.imax())) }
    }
}
/// The other reading of an unbounded end: genuinely infinite (only the
/// documented `UInt` lower-bound normalisation to 0 is applied).
pub fn norm_inf(d: D, iv: &Iv) -> Iv {
    if d.is_unsigned() && iv.lo.is_none() { Iv { lo: Some(0), hi: iv.hi } } else { *iv }
}
/// a ⊆ b ?  (both already normalised with [`norm`]; `d` only supplies the order)
pub fn subset(d: D, a: &Iv, b: &Iv) -> bool {
    lo_le(d, b.lo, a.lo) && hi_le(d, a.hi, b.hi)
}
/// a ∩ b as a model interval, None if empty (both already normalised).
pub fn meet(d: D, a: &Iv, b: &Iv) -> Option<Iv> {
    let lo = if lo_le(d, a.lo, b.lo) { b.lo } else { a.lo };
    let hi = if hi_le(d, a.hi, b.hi) { a.hi } else { b.hi };
    match (lo, hi) {
        (Some(l), Some(h)) if d.cmp(l, h) == Ordering::Greater => None,
        _ => Some(Iv { lo, hi }),
    }
}
